// C16: render with the library exactly as src/main.rs does once the Options are known:
// format_*_with_plugins, and for HTML the SyntectAdapter built from the theme name.
//   climd <html|xml|commonmark> <theme hex | none> <opts> <md hex>  ->  ok <hex>
use crate::opts;
use crate::{hex, unhex};
use comrak::plugins::syntect::SyntectAdapter;
use comrak::{parse_document, Arena, Plugins};
use std::cell::RefCell;
use std::collections::HashMap;

thread_local! {
    // SyntectAdapter::new loads the syntax and theme sets; one adapter per theme name is kept
    static ADAPTERS: RefCell<HashMap<String, &'static SyntectAdapter>> = RefCell::new(HashMap::new());
}

fn adapter(theme: &str) -> &'static SyntectAdapter {
    ADAPTERS.with(|m| {
        let mut m = m.borrow_mut();
        if let Some(a) = m.get(theme) {
            return *a;
        }
        let a: &'static SyntectAdapter = Box::leak(Box::new(SyntectAdapter::new(Some(theme))));
        m.insert(theme.to_string(), a);
        a
    })
}

pub fn dispatch(op: &str, a: &[String]) -> Option<String> {
    match op {
        "climd" => {
            let o = opts::decode(&a[2]);
            let md = String::from_utf8(unhex(&a[3])).expect("input must be utf-8");
            let arena = Arena::new();
            let root = parse_document(&arena, &md, &o);
            let mut plugins: Plugins = Plugins::default();
            let mut out = vec![];
            match a[0].as_str() {
                "html" => {
                    if a[1] != "none" {
                        let theme = String::from_utf8(unhex(&a[1])).expect("theme must be utf-8");
                        plugins.render.codefence_syntax_highlighter = Some(adapter(&theme));
                    }
                    comrak::format_html_with_plugins(root, &o, &mut out, &plugins).unwrap()
                }
                "xml" => comrak::format_xml_with_plugins(root, &o, &mut out, &plugins).unwrap(),
                "commonmark" => comrak::format_commonmark_with_plugins(root, &o, &mut out, &plugins).unwrap(),
                _ => panic!("unknown format"),
            }
            Some(format!("ok {}", hex(&out)))
        }
        _ => None,
    }
}
