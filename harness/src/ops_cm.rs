// ops of the CommonMark formatter tie (Model/Cm.v):
//   cm_nv <opts> <tree tokens...>   -> ok <hex>    format_commonmark_with_plugins: the formatter WITHOUT the
//                                                  debug-only root.validate() of format_commonmark
//   tree_valid <tree tokens...>     -> ok 1 | ok 0 root.validate()
use crate::{hex, opts, tree};
use comrak::{format_commonmark_with_plugins, Arena, Plugins};

pub fn dispatch(op: &str, a: &[String]) -> Option<String> {
    match op {
        "cm_nv" => {
            let o = opts::decode(&a[0]);
            let arena = Arena::new();
            let root = tree::build(&arena, &a[1..]);
            let mut out = vec![];
            format_commonmark_with_plugins(root, &o, &mut out, &Plugins::default()).unwrap();
            Some(format!("ok {}", hex(&out)))
        }
        "tree_valid" => {
            let arena = Arena::new();
            let root = tree::build(&arena, a);
            Some(format!("ok {}", if root.validate().is_ok() { 1 } else { 0 }))
        }
        _ => None,
    }
}
