// Options decoding: one token, comma-separated key=value; string values are hex ("-" = empty string),
// absent key = default.  "-" alone = all defaults.
use crate::unhex;
use comrak::{ListStyleType, Options};

pub fn decode(tok: &str) -> Options<'static> {
    let mut o = Options::default();
    if tok == "-" || tok.is_empty() {
        return o;
    }
    for kv in tok.split(',') {
        let (k, v) = kv.split_once('=').unwrap_or((kv, "1"));
        let b = v == "1";
        let s = || String::from_utf8(unhex(v)).expect("option string must be utf-8");
        let n = || v.parse::<usize>().expect("option number");
        match k {
            "strikethrough" => o.extension.strikethrough = b,
            "tagfilter" => o.extension.tagfilter = b,
            "table" => o.extension.table = b,
            "autolink" => o.extension.autolink = b,
            "tasklist" => o.extension.tasklist = b,
            "superscript" => o.extension.superscript = b,
            "header_ids" => o.extension.header_ids = Some(s()),
            "footnotes" => o.extension.footnotes = b,
            "description_lists" => o.extension.description_lists = b,
            "front_matter_delimiter" => o.extension.front_matter_delimiter = Some(s()),
            "multiline_block_quotes" => o.extension.multiline_block_quotes = b,
            "alerts" => o.extension.alerts = b,
            "math_dollars" => o.extension.math_dollars = b,
            "math_code" => o.extension.math_code = b,
            "wikilinks_title_after_pipe" => o.extension.wikilinks_title_after_pipe = b,
            "wikilinks_title_before_pipe" => o.extension.wikilinks_title_before_pipe = b,
            "underline" => o.extension.underline = b,
            "subscript" => o.extension.subscript = b,
            "spoiler" => o.extension.spoiler = b,
            "greentext" => o.extension.greentext = b,
            "smart" => o.parse.smart = b,
            "default_info_string" => o.parse.default_info_string = Some(s()),
            "relaxed_tasklist_matching" => o.parse.relaxed_tasklist_matching = b,
            "relaxed_autolinks" => o.parse.relaxed_autolinks = b,
            "hardbreaks" => o.render.hardbreaks = b,
            "github_pre_lang" => o.render.github_pre_lang = b,
            "full_info_string" => o.render.full_info_string = b,
            "width" => o.render.width = n(),
            "unsafe" => o.render.unsafe_ = b,
            "escape" => o.render.escape = b,
            "list_style" => {
                o.render.list_style = match v {
                    "plus" => ListStyleType::Plus,
                    "star" => ListStyleType::Star,
                    _ => ListStyleType::Dash,
                }
            }
            "sourcepos" => o.render.sourcepos = b,
            "escaped_char_spans" => o.render.escaped_char_spans = b,
            "ignore_setext" => o.render.ignore_setext = b,
            "ignore_empty_links" => o.render.ignore_empty_links = b,
            "gfm_quirks" => o.render.gfm_quirks = b,
            "prefer_fenced" => o.render.prefer_fenced = b,
            "figure_with_caption" => o.render.figure_with_caption = b,
            "tasklist_classes" => o.render.tasklist_classes = b,
            "ol_width" => o.render.ol_width = n(),
            "experimental_minimize_commonmark" => o.render.experimental_minimize_commonmark = b,
            _ => panic!("unknown option {}", k),
        }
    }
    o
}
