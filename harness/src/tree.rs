// Tree dump / build.  One node:  ( Kind sl sc el ec field* child* )
use crate::{hex, unhex};
use comrak::nodes::*;
use comrak::Arena;
use std::cell::RefCell;

fn h(s: &str) -> String {
    hex(s.as_bytes())
}
fn b(x: bool) -> &'static str {
    if x {
        "1"
    } else {
        "0"
    }
}
fn list_fields(l: &NodeList) -> String {
    format!(
        "{} {} {} {} {} {} {} {}",
        match l.list_type {
            ListType::Bullet => "b",
            ListType::Ordered => "o",
        },
        l.marker_offset,
        l.padding,
        l.start,
        match l.delimiter {
            ListDelimType::Period => "p",
            ListDelimType::Paren => "r",
        },
        l.bullet_char,
        b(l.tight),
        b(l.is_task_list)
    )
}

/// "( Kind sl sc el ec fields" of a single node (no children, not closed)
pub fn dump_one<'a>(n: &'a AstNode<'a>, out: &mut String) {
                let ast = n.data.borrow();
    let sp = ast.sourcepos;
    let (kind, fields): (&str, String) = match &ast.value {
        NodeValue::Document => ("Document", String::new()),
        NodeValue::FrontMatter(s) => ("FrontMatter", h(s)),
        NodeValue::BlockQuote => ("BlockQuote", String::new()),
        NodeValue::List(l) => ("List", list_fields(l)),
        NodeValue::Item(l) => ("Item", list_fields(l)),
        NodeValue::DescriptionList => ("DescriptionList", String::new()),
        NodeValue::DescriptionItem(d) => ("DescriptionItem", format!("{} {} {}", d.marker_offset, d.padding, b(d.tight))),
        NodeValue::DescriptionTerm => ("DescriptionTerm", String::new()),
        NodeValue::DescriptionDetails => ("DescriptionDetails", String::new()),
        NodeValue::CodeBlock(c) => (
            "CodeBlock",
            format!("{} {} {} {} {} {}", b(c.fenced), c.fence_char, c.fence_length, c.fence_offset, h(&c.info), h(&c.literal)),
        ),
        NodeValue::HtmlBlock(x) => ("HtmlBlock", format!("{} {}", x.block_type, h(&x.literal))),
        NodeValue::Paragraph => ("Paragraph", String::new()),
        NodeValue::Heading(x) => ("Heading", format!("{} {}", x.level, b(x.setext))),
        NodeValue::ThematicBreak => ("ThematicBreak", String::new()),
        NodeValue::FootnoteDefinition(x) => ("FootnoteDefinition", format!("{} {}", h(&x.name), x.total_references)),
        NodeValue::Table(t) => {
            let al: String = t
                .alignments
                .iter()
                .map(|a| match a {
                    TableAlignment::None => 'n',
                    TableAlignment::Left => 'l',
                    TableAlignment::Center => 'c',
                    TableAlignment::Right => 'r',
                })
                .collect();
            (
                "Table",
                format!("{} {} {} {}", t.num_columns, t.num_rows, t.num_nonempty_cells, if al.is_empty() { "-".to_string() } else { al }),
            )
        }
        NodeValue::TableRow(hd) => ("TableRow", b(*hd).to_string()),
        NodeValue::TableCell => ("TableCell", String::new()),
        NodeValue::Text(s) => ("Text", h(s)),
        NodeValue::TaskItem(c) => (
            "TaskItem",
            match c {
                None => "n".to_string(),
                Some(ch) => format!("s{}", h(&ch.to_string())),
            },
        ),
        NodeValue::SoftBreak => ("SoftBreak", String::new()),
        NodeValue::LineBreak => ("LineBreak", String::new()),
        NodeValue::Code(c) => ("Code", format!("{} {}", c.num_backticks, h(&c.literal))),
        NodeValue::HtmlInline(s) => ("HtmlInline", h(s)),
        NodeValue::Raw(s) => ("Raw", h(s)),
        NodeValue::Emph => ("Emph", String::new()),
        NodeValue::Strong => ("Strong", String::new()),
        NodeValue::Strikethrough => ("Strikethrough", String::new()),
        NodeValue::Superscript => ("Superscript", String::new()),
        NodeValue::Link(l) => ("Link", format!("{} {}", h(&l.url), h(&l.title))),
        NodeValue::Image(l) => ("Image", format!("{} {}", h(&l.url), h(&l.title))),
        NodeValue::FootnoteReference(r) => ("FootnoteReference", format!("{} {} {}", h(&r.name), r.ref_num, r.ix)),
        NodeValue::Math(m) => ("Math", format!("{} {} {}", b(m.dollar_math), b(m.display_math), h(&m.literal))),
        NodeValue::MultilineBlockQuote(m) => ("MultilineBlockQuote", format!("{} {}", m.fence_length, m.fence_offset)),
        NodeValue::Escaped => ("Escaped", String::new()),
        NodeValue::WikiLink(w) => ("WikiLink", h(&w.url)),
        NodeValue::Underline => ("Underline", String::new()),
        NodeValue::Subscript => ("Subscript", String::new()),
        NodeValue::SpoileredText => ("SpoileredText", String::new()),
        NodeValue::EscapedTag(s) => ("EscapedTag", h(s)),
        NodeValue::Alert(a) => (
            "Alert",
            format!(
                "{} {} {} {} {}",
                match a.alert_type {
                    AlertType::Note => 0,
                    AlertType::Tip => 1,
                    AlertType::Important => 2,
                    AlertType::Warning => 3,
                    AlertType::Caution => 4,
                },
                match &a.title {
                    None => "n".to_string(),
                    Some(t) => format!("s{}", h(t)),
                },
                b(a.multiline),
                a.fence_length,
                a.fence_offset
            ),
        ),
    };
    out.push_str(&format!("( {} {} {} {} {}", kind, sp.start.line, sp.start.column, sp.end.line, sp.end.column));
    if !fields.is_empty() {
        out.push(' ');
        out.push_str(&fields);
    }
}

pub fn dump<'a>(n: &'a AstNode<'a>, out: &mut String) {
    // iterative to survive deep trees
    enum Ev<'a> {
        Enter(&'a AstNode<'a>),
        Exit,
    }
    let mut stack = vec![Ev::Enter(n)];
    while let Some(ev) = stack.pop() {
        match ev {
            Ev::Exit => out.push_str(" )"),
            Ev::Enter(n) => {
                let ast = n.data.borrow();
                let sp = ast.sourcepos;
                if !out.is_empty() {
                    out.push(' ');
                }
                let (kind, fields): (&str, String) = match &ast.value {
                    NodeValue::Document => ("Document", String::new()),
                    NodeValue::FrontMatter(s) => ("FrontMatter", h(s)),
                    NodeValue::BlockQuote => ("BlockQuote", String::new()),
                    NodeValue::List(l) => ("List", list_fields(l)),
                    NodeValue::Item(l) => ("Item", list_fields(l)),
                    NodeValue::DescriptionList => ("DescriptionList", String::new()),
                    NodeValue::DescriptionItem(d) => ("DescriptionItem", format!("{} {} {}", d.marker_offset, d.padding, b(d.tight))),
                    NodeValue::DescriptionTerm => ("DescriptionTerm", String::new()),
                    NodeValue::DescriptionDetails => ("DescriptionDetails", String::new()),
                    NodeValue::CodeBlock(c) => (
                        "CodeBlock",
                        format!("{} {} {} {} {} {}", b(c.fenced), c.fence_char, c.fence_length, c.fence_offset, h(&c.info), h(&c.literal)),
                    ),
                    NodeValue::HtmlBlock(x) => ("HtmlBlock", format!("{} {}", x.block_type, h(&x.literal))),
                    NodeValue::Paragraph => ("Paragraph", String::new()),
                    NodeValue::Heading(x) => ("Heading", format!("{} {}", x.level, b(x.setext))),
                    NodeValue::ThematicBreak => ("ThematicBreak", String::new()),
                    NodeValue::FootnoteDefinition(x) => ("FootnoteDefinition", format!("{} {}", h(&x.name), x.total_references)),
                    NodeValue::Table(t) => {
                        let al: String = t
                            .alignments
                            .iter()
                            .map(|a| match a {
                                TableAlignment::None => 'n',
                                TableAlignment::Left => 'l',
                                TableAlignment::Center => 'c',
                                TableAlignment::Right => 'r',
                            })
                            .collect();
                        (
                            "Table",
                            format!("{} {} {} {}", t.num_columns, t.num_rows, t.num_nonempty_cells, if al.is_empty() { "-".to_string() } else { al }),
                        )
                    }
                    NodeValue::TableRow(hd) => ("TableRow", b(*hd).to_string()),
                    NodeValue::TableCell => ("TableCell", String::new()),
                    NodeValue::Text(s) => ("Text", h(s)),
                    NodeValue::TaskItem(c) => (
                        "TaskItem",
                        match c {
                            None => "n".to_string(),
                            Some(ch) => format!("s{}", h(&ch.to_string())),
                        },
                    ),
                    NodeValue::SoftBreak => ("SoftBreak", String::new()),
                    NodeValue::LineBreak => ("LineBreak", String::new()),
                    NodeValue::Code(c) => ("Code", format!("{} {}", c.num_backticks, h(&c.literal))),
                    NodeValue::HtmlInline(s) => ("HtmlInline", h(s)),
                    NodeValue::Raw(s) => ("Raw", h(s)),
                    NodeValue::Emph => ("Emph", String::new()),
                    NodeValue::Strong => ("Strong", String::new()),
                    NodeValue::Strikethrough => ("Strikethrough", String::new()),
                    NodeValue::Superscript => ("Superscript", String::new()),
                    NodeValue::Link(l) => ("Link", format!("{} {}", h(&l.url), h(&l.title))),
                    NodeValue::Image(l) => ("Image", format!("{} {}", h(&l.url), h(&l.title))),
                    NodeValue::FootnoteReference(r) => ("FootnoteReference", format!("{} {} {}", h(&r.name), r.ref_num, r.ix)),
                    NodeValue::Math(m) => ("Math", format!("{} {} {}", b(m.dollar_math), b(m.display_math), h(&m.literal))),
                    NodeValue::MultilineBlockQuote(m) => ("MultilineBlockQuote", format!("{} {}", m.fence_length, m.fence_offset)),
                    NodeValue::Escaped => ("Escaped", String::new()),
                    NodeValue::WikiLink(w) => ("WikiLink", h(&w.url)),
                    NodeValue::Underline => ("Underline", String::new()),
                    NodeValue::Subscript => ("Subscript", String::new()),
                    NodeValue::SpoileredText => ("SpoileredText", String::new()),
                    NodeValue::EscapedTag(s) => ("EscapedTag", h(s)),
                    NodeValue::Alert(a) => (
                        "Alert",
                        format!(
                            "{} {} {} {} {}",
                            match a.alert_type {
                                AlertType::Note => 0,
                                AlertType::Tip => 1,
                                AlertType::Important => 2,
                                AlertType::Warning => 3,
                                AlertType::Caution => 4,
                            },
                            match &a.title {
                                None => "n".to_string(),
                                Some(t) => format!("s{}", h(t)),
                            },
                            b(a.multiline),
                            a.fence_length,
                            a.fence_offset
                        ),
                    ),
                };
                out.push_str(&format!("( {} {} {} {} {}", kind, sp.start.line, sp.start.column, sp.end.line, sp.end.column));
                if !fields.is_empty() {
                    out.push(' ');
                    out.push_str(&fields);
                }
                stack.push(Ev::Exit);
                let kids: Vec<_> = n.children().collect();
                for k in kids.into_iter().rev() {
                    stack.push(Ev::Enter(k));
                }
            }
        }
    }
}

struct Toks<'t> {
    t: &'t [String],
    i: usize,
}
impl<'t> Toks<'t> {
    fn next(&mut self) -> &'t str {
        let s = &self.t[self.i];
        self.i += 1;
        s
    }
    fn num(&mut self) -> usize {
        self.next().parse().expect("number")
    }
    fn boolean(&mut self) -> bool {
        self.next() == "1"
    }
    fn string(&mut self) -> String {
        String::from_utf8(unhex(self.next())).expect("utf8 payload")
    }
    fn list(&mut self) -> NodeList {
        let list_type = if self.next() == "o" { ListType::Ordered } else { ListType::Bullet };
        let marker_offset = self.num();
        let padding = self.num();
        let start = self.num();
        let delimiter = if self.next() == "r" { ListDelimType::Paren } else { ListDelimType::Period };
        let bullet_char = self.num() as u8;
        let tight = self.boolean();
        let is_task_list = self.boolean();
        NodeList { list_type, marker_offset, padding, start, delimiter, bullet_char, tight, is_task_list }
    }
}

pub fn build<'a>(arena: &'a Arena<AstNode<'a>>, toks: &[String]) -> &'a AstNode<'a> {
    let mut t = Toks { t: toks, i: 0 };
    let mut stack: Vec<&'a AstNode<'a>> = vec![];
    let mut root = None;
    while t.i < toks.len() {
        let tok = t.next();
        if tok == ")" {
            let n = stack.pop().expect("unbalanced )");
            if stack.is_empty() {
                root = Some(n);
            }
            continue;
        }
        assert_eq!(tok, "(");
        let kind = t.next();
        let sl = t.num();
        let sc = t.num();
        let el = t.num();
        let ec = t.num();
        let value = match kind {
            "Document" => NodeValue::Document,
            "FrontMatter" => NodeValue::FrontMatter(t.string()),
            "BlockQuote" => NodeValue::BlockQuote,
            "List" => NodeValue::List(t.list()),
            "Item" => NodeValue::Item(t.list()),
            "DescriptionList" => NodeValue::DescriptionList,
            "DescriptionItem" => {
                let marker_offset = t.num();
                let padding = t.num();
                let tight = t.boolean();
                NodeValue::DescriptionItem(NodeDescriptionItem { marker_offset, padding, tight })
            }
            "DescriptionTerm" => NodeValue::DescriptionTerm,
            "DescriptionDetails" => NodeValue::DescriptionDetails,
            "CodeBlock" => {
                let fenced = t.boolean();
                let fence_char = t.num() as u8;
                let fence_length = t.num();
                let fence_offset = t.num();
                let info = t.string();
                let literal = t.string();
                NodeValue::CodeBlock(NodeCodeBlock { fenced, fence_char, fence_length, fence_offset, info, literal })
            }
            "HtmlBlock" => {
                let block_type = t.num() as u8;
                let literal = t.string();
                NodeValue::HtmlBlock(NodeHtmlBlock { block_type, literal })
            }
            "Paragraph" => NodeValue::Paragraph,
            "Heading" => {
                let level = t.num() as u8;
                let setext = t.boolean();
                NodeValue::Heading(NodeHeading { level, setext })
            }
            "ThematicBreak" => NodeValue::ThematicBreak,
            "FootnoteDefinition" => {
                let name = t.string();
                let total_references = t.num() as u32;
                NodeValue::FootnoteDefinition(NodeFootnoteDefinition { name, total_references })
            }
            "Table" => {
                let num_columns = t.num();
                let num_rows = t.num();
                let num_nonempty_cells = t.num();
                let al = t.next();
                let alignments = if al == "-" {
                    vec![]
                } else {
                    al.chars()
                        .map(|c| match c {
                            'l' => TableAlignment::Left,
                            'c' => TableAlignment::Center,
                            'r' => TableAlignment::Right,
                            _ => TableAlignment::None,
                        })
                        .collect()
                };
                NodeValue::Table(NodeTable { alignments, num_columns, num_rows, num_nonempty_cells })
            }
            "TableRow" => NodeValue::TableRow(t.boolean()),
            "TableCell" => NodeValue::TableCell,
            "Text" => NodeValue::Text(t.string()),
            "TaskItem" => {
                let s = t.next();
                if s == "n" {
                    NodeValue::TaskItem(None)
                } else {
                    let st = String::from_utf8(unhex(&s[1..])).unwrap();
                    NodeValue::TaskItem(st.chars().next())
                }
            }
            "SoftBreak" => NodeValue::SoftBreak,
            "LineBreak" => NodeValue::LineBreak,
            "Code" => {
                let num_backticks = t.num();
                let literal = t.string();
                NodeValue::Code(NodeCode { num_backticks, literal })
            }
            "HtmlInline" => NodeValue::HtmlInline(t.string()),
            "Raw" => NodeValue::Raw(t.string()),
            "Emph" => NodeValue::Emph,
            "Strong" => NodeValue::Strong,
            "Strikethrough" => NodeValue::Strikethrough,
            "Superscript" => NodeValue::Superscript,
            "Link" => {
                let url = t.string();
                let title = t.string();
                NodeValue::Link(NodeLink { url, title })
            }
            "Image" => {
                let url = t.string();
                let title = t.string();
                NodeValue::Image(NodeLink { url, title })
            }
            "FootnoteReference" => {
                let name = t.string();
                let ref_num = t.num() as u32;
                let ix = t.num() as u32;
                NodeValue::FootnoteReference(NodeFootnoteReference { name, ref_num, ix })
            }
            "Math" => {
                let dollar_math = t.boolean();
                let display_math = t.boolean();
                let literal = t.string();
                NodeValue::Math(NodeMath { dollar_math, display_math, literal })
            }
            "MultilineBlockQuote" => {
                let fence_length = t.num();
                let fence_offset = t.num();
                NodeValue::MultilineBlockQuote(NodeMultilineBlockQuote { fence_length, fence_offset })
            }
            "Escaped" => NodeValue::Escaped,
            "WikiLink" => NodeValue::WikiLink(NodeWikiLink { url: t.string() }),
            "Underline" => NodeValue::Underline,
            "Subscript" => NodeValue::Subscript,
            "SpoileredText" => NodeValue::SpoileredText,
            "EscapedTag" => NodeValue::EscapedTag(t.string()),
            "Alert" => {
                let alert_type = match t.num() {
                    0 => AlertType::Note,
                    1 => AlertType::Tip,
                    2 => AlertType::Important,
                    3 => AlertType::Warning,
                    _ => AlertType::Caution,
                };
                let s = t.next();
                let title = if s == "n" { None } else { Some(String::from_utf8(unhex(&s[1..])).unwrap()) };
                let multiline = t.boolean();
                let fence_length = t.num();
                let fence_offset = t.num();
                NodeValue::Alert(NodeAlert { alert_type, title, multiline, fence_length, fence_offset })
            }
            k => panic!("unknown kind {}", k),
        };
        let mut ast = Ast::new(value, LineColumn { line: sl, column: sc });
        ast.sourcepos = Sourcepos { start: LineColumn { line: sl, column: sc }, end: LineColumn { line: el, column: ec } };
        let node: &'a AstNode<'a> = arena.alloc(AstNode::new(RefCell::new(ast)));
        if let Some(p) = stack.last() {
            p.append(node);
        }
        stack.push(node);
    }
    root.expect("empty tree")
}
