// C07 / C17 component ops (CommonMark round trip).
//   rt3 <opts> <mdhex>  ->  ok H1 | C1 | H2 | C2 | T1 | T2
//     H1 = html(parse x), C1 = cm(parse x), H2 = html(parse C1), C2 = cm(parse C1),
//     T1 = dumped tree of parse x, T2 = dumped tree of parse C1.
//     Each render stage is hex, or `!<hexmsg>@<loc>` when it panicked; stages that cannot run are `-`.
//   rtn <n> <opts> <mdhex> -> ok C1 C2 ... Cn   (n successive format-parse passes, for drift detection)
use crate::ops::render;
use crate::opts;
use crate::tree;
use crate::{hex, unhex};
use comrak::{parse_document, Arena};
use std::panic::{self, AssertUnwindSafe};

fn panic_msg(e: Box<dyn std::any::Any + Send>) -> String {
    if let Some(s) = e.downcast_ref::<&str>() {
        s.to_string()
    } else if let Some(s) = e.downcast_ref::<String>() {
        s.clone()
    } else {
        "?".to_string()
    }
}

fn stage<F: FnOnce() -> Vec<u8>>(f: F) -> Result<Vec<u8>, String> {
    match panic::catch_unwind(AssertUnwindSafe(f)) {
        Ok(v) => Ok(v),
        Err(e) => Err(format!("!{}@{}", hex(panic_msg(e).as_bytes()), crate::last_panic_loc())),
    }
}

fn show(r: &Result<Vec<u8>, String>) -> String {
    match r {
        Ok(v) => hex(v),
        Err(s) => s.clone(),
    }
}

pub fn dispatch(op: &str, a: &[String]) -> Option<String> {
    match op {
        "rt3" => {
            let o = opts::decode(&a[0]);
            let md = String::from_utf8(unhex(&a[1])).expect("input must be utf-8");
            let arena = Arena::new();
            let root = parse_document(&arena, &md, &o);
            let mut t1 = String::new();
            tree::dump(root, &mut t1);
            let h1 = stage(|| render("html", root, &o));
            let c1 = stage(|| render("cm", root, &o));
            let (h2, c2, t2) = match &c1 {
                Err(_) => ("-".to_string(), "-".to_string(), "-".to_string()),
                Ok(c1v) => {
                    let c1s = String::from_utf8(c1v.clone()).expect("cm output utf-8");
                    let arena2 = Arena::new();
                    let root2 = parse_document(&arena2, &c1s, &o);
                    let mut t2 = String::new();
                    tree::dump(root2, &mut t2);
                    let h2 = stage(|| render("html", root2, &o));
                    let c2 = stage(|| render("cm", root2, &o));
                    (show(&h2), show(&c2), t2)
                }
            };
            Some(format!("ok {} | {} | {} | {} | {} | {}", show(&h1), show(&c1), h2, c2, t1, t2))
        }
        "rtn" => {
            let n: usize = a[0].parse().expect("count");
            let o = opts::decode(&a[1]);
            let mut cur = String::from_utf8(unhex(&a[2])).expect("input must be utf-8");
            let mut s = String::from("ok");
            for _ in 0..n {
                let arena = Arena::new();
                let root = parse_document(&arena, &cur, &o);
                match stage(|| render("cm", root, &o)) {
                    Ok(v) => {
                        s.push(' ');
                        s.push_str(&hex(&v));
                        cur = String::from_utf8(v).expect("cm output utf-8");
                    }
                    Err(e) => {
                        s.push(' ');
                        s.push_str(&e);
                        break;
                    }
                }
            }
            Some(s)
        }
        _ => None,
    }
}
