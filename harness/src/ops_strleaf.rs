// ops_strleaf.rs — leaf functions over byte strings called by the block and inline parsers
// (strings.rs, entity.rs, inlines.rs manual_scan_link_url*, autolink.rs helpers, table.rs
// unescape_pipes, parser/mod.rs parse_list_marker and scan_thematic_break_inner).
// Answers have the same token layout as ocaml/d_strleaf.ml so that they are compared as text.
use crate::{hex, unhex};
use comrak::verif::{entity as e, parser as p, strings as s};

fn num(a: &[String], i: usize) -> usize {
    a[i].parse::<usize>().expect("number")
}
fn flag(a: &[String], i: usize) -> bool {
    a[i] == "1"
}
fn ok(b: &[u8]) -> String {
    format!("ok {}", hex(b))
}
fn okb(b: bool) -> String {
    format!("ok {}", if b { 1 } else { 0 })
}
fn utf8(v: Vec<u8>) -> Result<String, String> {
    String::from_utf8(v).map_err(|_| "err nonutf8".to_string())
}

/// width of the UTF-8 sequence a lead byte announces (1 for anything that is not a lead byte)
fn width(b: u8) -> usize {
    if b >= 0xF0 {
        4
    } else if b >= 0xE0 {
        3
    } else if b >= 0xC0 {
        2
    } else {
        1
    }
}

/// ` H (<hexchar> <0|1>)*` for the distinct non-ASCII characters of `t`: the oracle of
/// `is_valid_hostchar` outside ASCII (general categories P*, S* and White_Space of the Unicode tables
/// the build links)
fn host_oracle(t: &str) -> String {
    let mut seen: Vec<char> = vec![];
    let mut o = String::from(" H");
    for c in t.chars() {
        if (c as u32) >= 128 && !seen.contains(&c) {
            seen.push(c);
            let mut buf = [0u8; 4];
            let enc = c.encode_utf8(&mut buf);
            o.push_str(&format!(" {} {}", hex(enc.as_bytes()), if p::is_valid_hostchar(c) { 1 } else { 0 }));
        }
    }
    o
}

pub fn dispatch(op: &str, a: &[String]) -> Option<String> {
    let arg = |i: usize| unhex(&a[i]);
    Some(match op {
        "sl_unescape" => {
            let mut v = arg(0);
            s::unescape(&mut v);
            ok(&v)
        }
        "sl_clean_autolink" => ok(&s::clean_autolink(&arg(0), flag(a, 1))),
        "sl_normalize_code" => ok(&s::normalize_code(&arg(0))),
        "sl_rtbl" => match utf8(arg(0)) {
            Ok(mut t) => {
                s::remove_trailing_blank_lines(&mut t);
                ok(t.as_bytes())
            }
            Err(e) => e,
        },
        "sl_is_line_end_char" => okb(s::is_line_end_char(arg(0)[0])),
        "sl_is_space_or_tab" => okb(s::is_space_or_tab(arg(0)[0])),
        "sl_chop" => {
            let mut v = arg(0);
            s::chop_trailing_hashtags(&mut v);
            ok(&v)
        }
        "sl_rtrim" => {
            let mut v = arg(0);
            let n = s::rtrim(&mut v);
            format!("ok {} {}", hex(&v), n)
        }
        "sl_ltrim" => {
            let mut v = arg(0);
            let n = s::ltrim(&mut v);
            format!("ok {} {}", hex(&v), n)
        }
        "sl_trim" => {
            let mut v = arg(0);
            s::trim(&mut v);
            ok(&v)
        }
        "sl_ltrim_slice" => ok(s::ltrim_slice(&arg(0))),
        "sl_rtrim_slice" => ok(s::rtrim_slice(&arg(0))),
        "sl_trim_slice" => ok(s::trim_slice(&arg(0))),
        "sl_shift" => {
            let mut v = arg(0);
            s::shift_buf_left(&mut v, num(a, 1));
            ok(&v)
        }
        "sl_clean_url" => ok(&s::clean_url(&arg(0))),
        "sl_clean_title" => ok(&s::clean_title(&arg(0))),
        "sl_is_blank" => okb(s::is_blank(&arg(0))),
        // sl_normalize_label <hex> <fold 0|1> -> ok <hex> F <hex unfolded> <hex folded>
        // (the pair after F is the case-folding oracle: default_case_fold_str on the collapsed label)
        "sl_normalize_label" => match utf8(arg(0)) {
            Ok(t) => {
                let r = s::normalize_label(&t, flag(a, 1));
                let plain = s::normalize_label(&t, false);
                let folded = s::normalize_label(&t, true);
                format!("ok {} F {} {}", hex(r.as_bytes()), hex(plain.as_bytes()), hex(folded.as_bytes()))
            }
            Err(e) => e,
        },
        "sl_trim_start_match" => match (utf8(arg(0)), utf8(arg(1))) {
            (Ok(t), Ok(pat)) => ok(s::trim_start_match(&t, &pat).as_bytes()),
            _ => "err nonutf8".to_string(),
        },
        "sl_entity_unescape" => match e::unescape(&arg(0)) {
            Some((v, n)) => format!("ok {} {}", hex(&v), n),
            None => "ok none".to_string(),
        },
        "sl_unescape_html" => ok(&e::unescape_html(&arg(0))),
        // entities_dump -> ok <min> <max> (<hexname> <hexchars>)*   in table order
        "entities_dump" => {
            let mut o = format!("ok {} {}", e::ENTITY_MIN_LENGTH, e::ENTITY_MAX_LENGTH);
            for (n, c) in e::table() {
                o.push_str(&format!(" {} {}", hex(n.as_bytes()), hex(c.as_bytes())));
            }
            o
        }
        "sl_scan_url" => match p::manual_scan_link_url(&arg(0)) {
            Some((u, n)) => format!("ok {} {}", hex(u), n),
            None => "ok none".to_string(),
        },
        "sl_scan_url2" => match p::manual_scan_link_url_2(&arg(0)) {
            Some((u, n)) => format!("ok {} {}", hex(u), n),
            None => "ok none".to_string(),
        },
        // sl_check_domain <hex utf-8> <allow_short> -> ok <n|none> H <oracle>
        "sl_check_domain" => match utf8(arg(0)) {
            Ok(t) => {
                let r = match p::check_domain(t.as_bytes(), flag(a, 1)) {
                    Some(n) => n.to_string(),
                    None => "none".to_string(),
                };
                format!("ok {}{}", r, host_oracle(&t))
            }
            Err(e) => e,
        },
        // sl_hostchar <hex of one encoded char> -> ok 0|1
        "sl_hostchar" => match utf8(arg(0)) {
            Ok(t) => {
                let c = t.chars().next().expect("one char");
                if width(t.as_bytes()[0]) != t.len() {
                    "err not-one-char".to_string()
                } else {
                    okb(p::is_valid_hostchar(c))
                }
            }
            Err(e) => e,
        },
        "sl_autolink_delim" => format!("ok {}", p::autolink_delim(&arg(0), num(a, 1), flag(a, 2))),
        "sl_validate_protocol" => match utf8(arg(0)) {
            Ok(pr) => okb(p::validate_protocol(&pr, &arg(1), num(a, 2))),
            Err(e) => e,
        },
        "sl_unescape_pipes" => ok(&p::unescape_pipes(&arg(0))),
        // sl_list_marker <hex line> <pos> <interrupts> -> ok none | ok <len> <b|o> <start> <.|)> <bullet byte>
        //   <marker_offset> <padding> <tight> <task>
        "sl_list_marker" => match p::parse_list_marker(&arg(0), num(a, 1), flag(a, 2)) {
            None => "ok none".to_string(),
            Some((n, nl)) => format!(
                "ok {} {} {} {} {} {} {} {} {}",
                n,
                match nl.list_type {
                    comrak::nodes::ListType::Bullet => "b",
                    comrak::nodes::ListType::Ordered => "o",
                },
                nl.start,
                match nl.delimiter {
                    comrak::nodes::ListDelimType::Period => ".",
                    comrak::nodes::ListDelimType::Paren => ")",
                },
                nl.bullet_char,
                nl.marker_offset,
                nl.padding,
                if nl.tight { 1 } else { 0 },
                if nl.is_task_list { 1 } else { 0 }
            ),
        },
        "sl_thematic" => {
            let (n, f) = p::scan_thematic_break_inner(&arg(0), num(a, 1));
            format!("ok {} {}", n, if f { 1 } else { 0 })
        }
        _ => return None,
    })
}
