// C15 component ops.
//   normalize_labels <hexlabel>*  ->  ok (<hex fold> <hex preserve>)*     (strings::normalize_label through the verif hook)
use crate::{hex, unhex};

pub fn dispatch(op: &str, a: &[String]) -> Option<String> {
    match op {
        "normalize_labels" => {
            let mut s = String::from("ok");
            for x in a {
                let l = String::from_utf8(unhex(x)).expect("utf-8");
                s.push(' ');
                s.push_str(&hex(comrak::verif::strings::normalize_label(&l, true).as_bytes()));
                s.push(' ');
                s.push_str(&hex(comrak::verif::strings::normalize_label(&l, false).as_bytes()));
            }
            Some(s)
        }
        _ => None,
    }
}
