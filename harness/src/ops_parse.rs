// Layer C tie, whole parser (coq/Model/Parse.v parse_document_model):
//   parseu <opts> <mdhex> -> ok <final tree of parse_document> | U <n> (<charhex> <wp> <foldhex>)*
// The tree is what the op `parse` prints.  The U table is the Unicode oracle of Model/Inlines.v, computed as in
// ops_inlines.rs: for every non-ASCII character of the document (and U+FFFD, which
// `feed` substitutes for NUL): w = char::is_whitespace, p = is_punctuation || is_symbol
// (= !is_valid_hostchar && !is_whitespace), fold = caseless::default_case_fold_str of the character
// (normalize_label(.., Fold) of a single non-whitespace character).
use crate::{hex, opts, tree, unhex};
use comrak::{parse_document, Arena};
use std::collections::BTreeSet;

pub fn dispatch(op: &str, a: &[String]) -> Option<String> {
    if op != "parseu" {
        return None;
    }
    let o = opts::decode(&a[0]);
    let md = String::from_utf8(unhex(&a[1])).expect("utf-8");
    let arena = Arena::new();
    let root = parse_document(&arena, &md, &o);
    let mut t = String::new();
    tree::dump(root, &mut t);
    let mut chars: BTreeSet<char> = md.chars().filter(|c| !c.is_ascii()).collect();
    chars.insert('\u{fffd}');
    let mut u = format!("U {}", chars.len());
    for c in chars {
        let s = c.to_string();
        let w = c.is_whitespace();
        let p = !comrak::verif::parser::is_valid_hostchar(c) && !w;
        let fold = if w { s.clone() } else { comrak::verif::strings::normalize_label(&s, true) };
        u.push_str(&format!(
            " {} {}{} {}",
            hex(s.as_bytes()),
            if w { 1 } else { 0 },
            if p { 1 } else { 0 },
            hex(fold.as_bytes())
        ));
    }
    Some(format!("ok {} | {}", t, u))
}
