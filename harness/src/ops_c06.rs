// C06 cost measurement ops.  Deterministic units:
//   steps  = comrak::verif::steps()  (guarded hook at the top of the scanning loop bodies; needs repo_hooks_c06.patch)
//   alloc  = bytes requested from the global allocator (alloc + realloc new sizes), calls = number of requests
//   peak   = peak of live heap bytes above the level at the start of the stage (retained + transient memory)
//   us     = thread CPU time in microseconds (CLOCK_THREAD_CPUTIME_ID; informational, not deterministic)
//
//   cost  <stage> <opts> <mdhex> [main]            stage in parse|html|xml|cm|all
//   costf <stage> <opts> <prefixhex> <bodyhex> <suffixhex> <n> [main]     input = prefix^n body suffix^n
//     -> ok hooks=<0|1> in=<len> nodes=<n> parse=<steps>,<alloc>,<calls>,<us>,<peak> [html=<steps>,<alloc>,<calls>,<us>,<peak>,<outlen>] [xml=..] [cm=..]
//   The measured work runs in a thread with a 256 MB stack unless the last argument is `main`
//   (then it runs on the calling thread: a stack overflow kills the process, which the supervisor sees).
//   A panicking stage is reported as  <stage>=panic:<hexmsg>.
use crate::opts;
use crate::unhex;
use comrak::{parse_document, Arena};
use std::alloc::{GlobalAlloc, Layout, System};
use std::panic::{self, AssertUnwindSafe};
use std::sync::atomic::{AtomicU64, Ordering::Relaxed};

pub struct Counting;
static BYTES: AtomicU64 = AtomicU64::new(0);
static CALLS: AtomicU64 = AtomicU64::new(0);
static LIVE: AtomicU64 = AtomicU64::new(0);
static PEAK: AtomicU64 = AtomicU64::new(0);
/// live-byte ceiling: beyond it the allocator refuses (the process aborts with "memory allocation
/// failed", which the supervisor reports as a dead worker) so that a blow-up cannot take the machine down
static LIVE_LIMIT: AtomicU64 = AtomicU64::new(3 << 30);

#[inline]
fn grow(n: u64) -> bool {
    let l = LIVE.fetch_add(n, Relaxed) + n;
    if l > PEAK.load(Relaxed) {
        PEAK.store(l, Relaxed);
    }
    l <= LIVE_LIMIT.load(Relaxed)
}

unsafe impl GlobalAlloc for Counting {
    unsafe fn alloc(&self, l: Layout) -> *mut u8 {
        BYTES.fetch_add(l.size() as u64, Relaxed);
        CALLS.fetch_add(1, Relaxed);
        if !grow(l.size() as u64) {
            LIVE.fetch_sub(l.size() as u64, Relaxed);
            return std::ptr::null_mut();
        }
        System.alloc(l)
    }
    unsafe fn dealloc(&self, p: *mut u8, l: Layout) {
        LIVE.fetch_sub(l.size() as u64, Relaxed);
        System.dealloc(p, l)
    }
    unsafe fn alloc_zeroed(&self, l: Layout) -> *mut u8 {
        BYTES.fetch_add(l.size() as u64, Relaxed);
        CALLS.fetch_add(1, Relaxed);
        if !grow(l.size() as u64) {
            LIVE.fetch_sub(l.size() as u64, Relaxed);
            return std::ptr::null_mut();
        }
        System.alloc_zeroed(l)
    }
    unsafe fn realloc(&self, p: *mut u8, l: Layout, new_size: usize) -> *mut u8 {
        BYTES.fetch_add(new_size as u64, Relaxed);
        CALLS.fetch_add(1, Relaxed);
        if new_size > l.size() {
            if !grow((new_size - l.size()) as u64) {
                LIVE.fetch_sub((new_size - l.size()) as u64, Relaxed);
                return std::ptr::null_mut();
            }
        } else {
            LIVE.fetch_sub((l.size() - new_size) as u64, Relaxed);
        }
        System.realloc(p, l, new_size)
    }
}

#[global_allocator]
static GLOBAL: Counting = Counting;

#[repr(C)]
struct Timespec {
    tv_sec: i64,
    tv_nsec: i64,
}
extern "C" {
    fn clock_gettime(clk: i32, ts: *mut Timespec) -> i32;
}
fn cpu_us() -> u64 {
    let mut t = Timespec { tv_sec: 0, tv_nsec: 0 };
    // CLOCK_THREAD_CPUTIME_ID = 3 on Linux
    unsafe { clock_gettime(3, &mut t) };
    (t.tv_sec as u64) * 1_000_000 + (t.tv_nsec as u64) / 1000
}

#[cfg(c06_hooks)]
fn steps() -> u64 {
    comrak::verif::steps()
}
#[cfg(c06_hooks)]
fn steps_reset() {
    comrak::verif::steps_reset()
}
#[cfg(not(c06_hooks))]
fn steps() -> u64 {
    0
}
#[cfg(not(c06_hooks))]
fn steps_reset() {}

struct Meter {
    b: u64,
    c: u64,
    t: u64,
    l: u64,
}
impl Meter {
    fn start() -> Meter {
        steps_reset();
        let l = LIVE.load(Relaxed);
        PEAK.store(l, Relaxed);
        Meter { b: BYTES.load(Relaxed), c: CALLS.load(Relaxed), t: cpu_us(), l }
    }
    fn stop(&self) -> String {
        format!(
            "{},{},{},{},{}",
            steps(),
            BYTES.load(Relaxed) - self.b,
            CALLS.load(Relaxed) - self.c,
            cpu_us() - self.t,
            PEAK.load(Relaxed).saturating_sub(self.l)
        )
    }
}

fn panic_hex(e: Box<dyn std::any::Any + Send>) -> String {
    let m = if let Some(s) = e.downcast_ref::<&str>() {
        s.to_string()
    } else if let Some(s) = e.downcast_ref::<String>() {
        s.clone()
    } else {
        "?".to_string()
    };
    crate::hex(m.as_bytes())
}

fn measure(stage: &str, optok: &str, md: Vec<u8>) -> String {
    let o = opts::decode(optok);
    let md = match String::from_utf8(md) {
        Ok(s) => s,
        Err(_) => return "err input-not-utf8".to_string(),
    };
    let arena = Arena::new();
    let m = Meter::start();
    let root = match panic::catch_unwind(AssertUnwindSafe(|| parse_document(&arena, &md, &o))) {
        Ok(r) => r,
        Err(e) => return format!("ok hooks={} in={} nodes=0 parse=panic:{}", cfg!(c06_hooks) as u8, md.len(), panic_hex(e)),
    };
    let pm = m.stop();
    let nodes = root.descendants().count();
    let mut s = format!("ok hooks={} in={} nodes={} parse={}", cfg!(c06_hooks) as u8, md.len(), nodes, pm);
    for fmt in ["html", "xml", "cm"] {
        if stage == fmt || stage == "all" {
            let m = Meter::start();
            match panic::catch_unwind(AssertUnwindSafe(|| crate::ops::render(fmt, root, &o))) {
                Ok(out) => {
                    let r = m.stop();
                    s.push_str(&format!(" {}={},{}", fmt, r, out.len()));
                }
                Err(e) => s.push_str(&format!(" {}=panic:{}", fmt, panic_hex(e))),
            }
        }
    }
    s
}

fn run(stage: String, optok: String, md: Vec<u8>, on_main: bool) -> String {
    // VH_LIVE_LIMIT_MB overrides the 3 GiB live-heap ceiling
    if let Ok(v) = std::env::var("VH_LIVE_LIMIT_MB") {
        if let Ok(n) = v.parse::<u64>() {
            LIVE_LIMIT.store(n << 20, Relaxed);
        }
    }
    if on_main {
        return measure(&stage, &optok, md);
    }
    let h = std::thread::Builder::new().stack_size(256 << 20).spawn(move || measure(&stage, &optok, md)).expect("spawn");
    match h.join() {
        Ok(s) => s,
        Err(_) => "err worker-thread-panicked".to_string(),
    }
}

pub fn dispatch(op: &str, a: &[String]) -> Option<String> {
    match op {
        "cost" => {
            let on_main = a.len() > 3 && a[3] == "main";
            Some(run(a[0].clone(), a[1].clone(), unhex(&a[2]), on_main))
        }
        "costf" => {
            let (p, b, s) = (unhex(&a[2]), unhex(&a[3]), unhex(&a[4]));
            let n: usize = a[5].parse().expect("n");
            let mut md = Vec::with_capacity(n * (p.len() + s.len()) + b.len());
            for _ in 0..n {
                md.extend_from_slice(&p);
            }
            md.extend_from_slice(&b);
            for _ in 0..n {
                md.extend_from_slice(&s);
            }
            let on_main = a.len() > 6 && a[6] == "main";
            Some(run(a[0].clone(), a[1].clone(), md, on_main))
        }
        // reflinks <opts> <mdhex> -> ok <0/1 per top-level paragraph: its first inline is a Link>
        "reflinks" => {
            let o = opts::decode(&a[0]);
            let md = String::from_utf8(unhex(&a[1])).expect("utf-8");
            let arena = Arena::new();
            let root = parse_document(&arena, &md, &o);
            let mut s = String::from("ok ");
            for p in root.children() {
                if let comrak::nodes::NodeValue::Paragraph = p.data.borrow().value {
                    let is_link = p.first_child().map_or(false, |c| matches!(c.data.borrow().value, comrak::nodes::NodeValue::Link(_)));
                    s.push(if is_link { '1' } else { '0' });
                }
            }
            Some(s)
        }
        // tablerows <opts> <mdhex> -> ok <rows of the first table incl. header> <cells> <cells without children>
        "tablerows6" => {
            let o = opts::decode(&a[0]);
            let md = String::from_utf8(unhex(&a[1])).expect("utf-8");
            let arena = Arena::new();
            let root = parse_document(&arena, &md, &o);
            for t in root.children() {
                if let comrak::nodes::NodeValue::Table(..) = t.data.borrow().value {
                    let (mut rows, mut cells, mut empty) = (0usize, 0usize, 0usize);
                    for r in t.children() {
                        rows += 1;
                        for c in r.children() {
                            cells += 1;
                            if c.first_child().is_none() {
                                empty += 1;
                            }
                        }
                    }
                    return Some(format!("ok {} {} {}", rows, cells, empty));
                }
            }
            Some("none".to_string())
        }
        _ => None,
    }
}
