// C04 component ops (containment / shape half).
//   validate <tree tokens>      -> ok 1 | ok 0 <parent>><child>      (Node::validate on a tree built by tree::build;
//                                  the names are xml_node_name of the offending pair)
//   kinds <single-node tree>*   -> ok <n> <matrix> <block> <contains_inlines>
//                                  matrix = n*n characters 0/1, row i column j = can_contain_type(node_i, value_j);
//                                  block / contains_inlines = n characters each
//   tablerows <opts> <md>       -> ok (T <alignments> <num_columns> <num_rows> <num_nonempty_cells> <cells of row>*)*
//                                  every Table of the parsed document in document order (cells = number of
//                                  children of each TableRow child, header first)
use crate::opts;
use crate::tree;
use crate::unhex;
use comrak::nodes::{can_contain_type, AstNode, NodeValue, ValidationError};
use comrak::{parse_document, Arena};

fn verdict<'a>(root: &'a AstNode<'a>) -> String {
    match root.validate() {
        Ok(()) => "ok 1".to_string(),
        Err(ValidationError::InvalidChildType { parent, child }) => format!(
            "ok 0 {}>{}",
            comrak::verif::nodes::xml_node_name(&parent.data.borrow().value),
            comrak::verif::nodes::xml_node_name(&child.data.borrow().value)
        ),
    }
}

pub fn dispatch(op: &str, a: &[String]) -> Option<String> {
    match op {
        "validate" => {
            let arena = Arena::new();
            let root = tree::build(&arena, a);
            Some(verdict(root))
        }
        "kinds" => {
            // split the argument list into top-level trees
            let arena = Arena::new();
            let mut nodes: Vec<&AstNode> = vec![];
            let mut depth = 0usize;
            let mut start = 0usize;
            for (i, t) in a.iter().enumerate() {
                if t == "(" {
                    if depth == 0 {
                        start = i;
                    }
                    depth += 1;
                } else if t == ")" {
                    depth -= 1;
                    if depth == 0 {
                        nodes.push(tree::build(&arena, &a[start..=i]));
                    }
                }
            }
            let n = nodes.len();
            let mut m = String::with_capacity(n * n);
            for p in &nodes {
                for c in &nodes {
                    let v: NodeValue = c.data.borrow().value.clone();
                    m.push(if can_contain_type(p, &v) { '1' } else { '0' });
                }
            }
            let blk: String = nodes.iter().map(|x| if x.data.borrow().value.block() { '1' } else { '0' }).collect();
            let inl: String = nodes.iter().map(|x| if x.data.borrow().value.contains_inlines() { '1' } else { '0' }).collect();
            Some(format!("ok {} {} {} {}", n, m, blk, inl))
        }
        "tablerows" => {
            let o = opts::decode(&a[0]);
            let md = String::from_utf8(unhex(&a[1])).expect("input must be utf-8");
            let arena = Arena::new();
            let root = parse_document(&arena, &md, &o);
            let mut s = String::from("ok");
            for n in root.descendants() {
                if let NodeValue::Table(ref t) = n.data.borrow().value {
                    s.push_str(&format!(" T {} {} {} {}", t.alignments.len(), t.num_columns, t.num_rows, t.num_nonempty_cells));
                    for r in n.children() {
                        s.push_str(&format!(" {}", r.children().count()));
                    }
                }
            }
            Some(s)
        }
        _ => None,
    }
}
