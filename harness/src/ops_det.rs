// C05: determinism of rendering.
//   det <opts> <mdhex> [syn|css]  ->  ok <fingerprint> | ok DIFF <which>
// (`css`: the syntect adapter in CSS-class mode, which writes the <pre> tag through another path)
// Renders html / xml / cm of the same parsed tree three times in this thread, then parses and
// renders the same input on 8 threads that share ONE Options value (and one SyntectAdapter when
// `syn` is given), and compares every output byte for byte with the first.  The fingerprint
// (lengths + FNV-1a of each of the three outputs) lets the caller compare across processes.
use crate::{hex, opts, unhex};
use comrak::plugins::syntect::SyntectAdapterBuilder;
use comrak::{format_commonmark_with_plugins, format_html_with_plugins, format_xml_with_plugins, parse_document, Arena, Options, Plugins};

fn fnv(b: &[u8]) -> u64 {
    let mut h: u64 = 0xcbf29ce484222325;
    for x in b {
        h ^= *x as u64;
        h = h.wrapping_mul(0x100000001b3);
    }
    h
}

fn render_all(md: &str, o: &Options, plugins: &Plugins) -> [Vec<u8>; 3] {
    let arena = Arena::new();
    let root = parse_document(&arena, md, o);
    let mut h = vec![];
    format_html_with_plugins(root, o, &mut h, plugins).unwrap();
    let mut x = vec![];
    format_xml_with_plugins(root, o, &mut x, plugins).unwrap();
    let mut c = vec![];
    format_commonmark_with_plugins(root, o, &mut c, plugins).unwrap();
    [h, x, c]
}

pub fn dispatch(op: &str, a: &[String]) -> Option<String> {
    if op != "det" {
        return None;
    }
    let o = opts::decode(&a[0]);
    let md = String::from_utf8(unhex(&a[1])).expect("utf-8");
    let css = a.len() > 2 && a[2] == "css";
    let syn = css || (a.len() > 2 && a[2] == "syn");
    let adapter = if css {
        SyntectAdapterBuilder::new().css().build()
    } else {
        SyntectAdapterBuilder::new().theme("base16-ocean.dark").build()
    };
    let mut plugins = Plugins::default();
    if syn {
        plugins.render.codefence_syntax_highlighter = Some(&adapter);
    }
    let first = render_all(&md, &o, &plugins);
    // same tree, rendered again twice (renderer-only nondeterminism)
    {
        let arena = Arena::new();
        let root = parse_document(&arena, &md, &o);
        for round in 0..2 {
            let mut h = vec![];
            format_html_with_plugins(root, &o, &mut h, &plugins).unwrap();
            let mut x = vec![];
            format_xml_with_plugins(root, &o, &mut x, &plugins).unwrap();
            let mut c = vec![];
            format_commonmark_with_plugins(root, &o, &mut c, &plugins).unwrap();
            if h != first[0] {
                return Some(format!("ok DIFF html-repeat-{}", round));
            }
            if x != first[1] {
                return Some(format!("ok DIFF xml-repeat-{}", round));
            }
            if c != first[2] {
                return Some(format!("ok DIFF cm-repeat-{}", round));
            }
        }
    }
    // history: other documents rendered on this thread in between must not change the result
    // ("no output byte depends on earlier documents")
    for other in ["plain words only\n", "\\_\\_hi \\* x\n", "```rust\nfn x() {}\n```\n\n    indented\n", "# h\n\n# h\n\nx[^a]\n\n[^a]: y\n", "| a |\n|---|\n| b |\n"] {
        let _ = render_all(other, &o, &plugins);
    }
    {
        let again = render_all(&md, &o, &plugins);
        for (i, name) in ["html", "xml", "cm"].iter().enumerate() {
            if again[i] != first[i] {
                return Some(format!("ok DIFF {}-after-other-documents", name));
            }
        }
    }
    // a FRESH adapter that has seen other documents first (same language token, different first lines; unknown
    // tokens) must give the same bytes as the fresh adapter above gave for this input alone
    {
        let adapter2 = if css {
            SyntectAdapterBuilder::new().css().build()
        } else {
            SyntectAdapterBuilder::new().theme("base16-ocean.dark").build()
        };
        let mut plugins2 = Plugins::default();
        if syn {
            plugins2.render.codefence_syntax_highlighter = Some(&adapter2);
        }
        for other in ["```myscript\n#!/bin/bash\necho 1\n```\n", "```myscript\n<?xml version=\"1.0\"?>\n<a/>\n```\n", "```x\n#!/usr/bin/env python\nprint(1)\n```\n", "```rust\nfn x() {}\n```\n"] {
            let _ = render_all(other, &o, &plugins2);
        }
        let again = render_all(&md, &o, &plugins2);
        for (i, name) in ["html", "xml", "cm"].iter().enumerate() {
            if again[i] != first[i] {
                return Some(format!("ok DIFF {}-fresh-adapter-after-other-documents", name));
            }
        }
    }
    // 8 threads sharing the same options and plugins
    let mut diff: Option<String> = None;
    std::thread::scope(|s| {
        let mut hs = vec![];
        for t in 0..8 {
            let (md, o, plugins, first) = (&md, &o, &plugins, &first);
            hs.push(s.spawn(move || {
                let mut worst = None;
                for _ in 0..2 {
                    let r = render_all(md, o, plugins);
                    for (i, name) in ["html", "xml", "cm"].iter().enumerate() {
                        if r[i] != first[i] {
                            worst = Some(format!("{}-thread-{}", name, t));
                        }
                    }
                }
                worst
            }));
        }
        for h in hs {
            if let Ok(Some(w)) = h.join() {
                diff = Some(w);
            }
        }
    });
    if let Some(w) = diff {
        return Some(format!("ok DIFF {}", w));
    }
    let _ = hex(&[]);
    Some(format!(
        "ok {}:{:016x}:{}:{:016x}:{}:{:016x}",
        first[0].len(),
        fnv(&first[0]),
        first[1].len(),
        fnv(&first[1]),
        first[2].len(),
        fnv(&first[2])
    ))
}
