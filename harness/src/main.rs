// vh — harness: runs the compiled comrak on one case per input line.
//   line:   <op> <hexarg>*          (an empty byte string is "-")
//   output: one line per case: ok <hex>* | panic <hexmsg> | none | err <msg>
use std::io::{self, BufRead, Write};
use std::panic;

thread_local! {
    pub static LAST_PANIC_LOC: std::cell::RefCell<String> = std::cell::RefCell::new(String::new());
}

pub fn last_panic_loc() -> String {
    LAST_PANIC_LOC.with(|c| c.borrow().clone())
}

mod ops;
mod opts;
mod tree;
mod ops_cli;
// component op modules: add `mod ops_<name>;` here and its dispatch function to COMPONENTS
// (signature: fn(op: &str, args: &[String]) -> Option<String>; None = not mine)
mod ops_anchors;
mod ops_arena;
mod ops_rt;
mod ops_det;
mod ops_blocks;
mod ops_c04;
mod ops_cm;
mod ops_scan;
mod ops_strleaf;
mod ops_c06;
mod ops_inlines;
mod ops_parse;

pub const COMPONENTS: &[fn(&str, &[String]) -> Option<String>] = &[
    ops_anchors::dispatch,
    ops_arena::dispatch,
    ops_det::dispatch,
    ops_blocks::dispatch,
    ops_c04::dispatch,
    ops_c06::dispatch,
    ops_cli::dispatch,
    ops_rt::dispatch,
    ops_cm::dispatch,
    ops_scan::dispatch,
    ops_strleaf::dispatch,
    ops_inlines::dispatch,
    ops_parse::dispatch,
];

#[allow(dead_code)]
pub fn unhex(s: &str) -> Vec<u8> {
    if s == "-" {
        return vec![];
    }
    let b = s.as_bytes();
    let mut out = Vec::with_capacity(b.len() / 2);
    let hv = |c: u8| -> u8 {
        match c {
            b'0'..=b'9' => c - 48,
            b'a'..=b'f' => c - 87,
            b'A'..=b'F' => c - 55,
            _ => panic!("bad hex"),
        }
    };
    let mut i = 0;
    while i + 1 < b.len() {
        out.push(hv(b[i]) * 16 + hv(b[i + 1]));
        i += 2;
    }
    out
}

pub fn hex(b: &[u8]) -> String {
    if b.is_empty() {
        return "-".to_string();
    }
    let mut s = String::with_capacity(b.len() * 2);
    for x in b {
        s.push_str(&format!("{:02x}", x));
    }
    s
}

fn main() {
    // silence the default panic message; we report panics on stdout
    panic::set_hook(Box::new(|info| {
        let loc = info.location().map(|l| format!("{}:{}", l.file(), l.line())).unwrap_or_default();
        LAST_PANIC_LOC.with(|c| *c.borrow_mut() = loc);
    }));
    let args: Vec<String> = std::env::args().collect();
    if args.len() > 1 && args[1] == "--version" {
        println!("vh {}", comrak::version());
        return;
    }
    let stdin = io::stdin();
    let stdout = io::stdout();
    let mut out = io::BufWriter::new(stdout.lock());
    let announce = args.iter().any(|a| a == "--announce");
    for (n, line) in stdin.lock().lines().enumerate() {
        let line = line.unwrap();
        let toks: Vec<&str> = line.split(' ').filter(|s| !s.is_empty()).collect();
        if toks.is_empty() {
            writeln!(out, "err empty").unwrap();
            continue;
        }
        if announce {
            // lets a supervisor know which case was running when the process died or hung
            writeln!(out, "#start {}", n).unwrap();
            out.flush().unwrap();
        }
        let op = toks[0].to_string();
        let a: Vec<String> = toks[1..].iter().map(|s| s.to_string()).collect();
        let r = panic::catch_unwind(move || ops::dispatch(&op, &a));
        match r {
            Ok(s) => writeln!(out, "{}", s).unwrap(),
            Err(e) => {
                let msg = if let Some(s) = e.downcast_ref::<&str>() {
                    s.to_string()
                } else if let Some(s) = e.downcast_ref::<String>() {
                    s.clone()
                } else {
                    "?".to_string()
                };
                writeln!(out, "panic {} {}", hex(msg.as_bytes()), last_panic_loc()).unwrap()
            }
        }
        if announce {
            out.flush().unwrap();
        }
    }
    out.flush().unwrap();
}
