// Layer C tie: the tree after the BLOCK phase only (hook stop_after_blocks), with the crate-private
// per-node fields the block parser keeps.
//   blocks <opts> <mdhex> -> ok <tree>
// tree: like tree.rs but every node carries, after its payload fields, the extra tokens
//   C<hex content> O<0/1 open> B<0/1 last_line_blank> I<internal_offset> L<comma separated line_offsets or ->
use crate::{hex, opts, tree, unhex};
use comrak::nodes::AstNode;
use comrak::{parse_document, Arena};

fn dump<'a>(n: &'a AstNode<'a>, out: &mut String) {
    enum Ev<'a> {
        Enter(&'a AstNode<'a>),
        Exit,
    }
    let mut stack = vec![Ev::Enter(n)];
    while let Some(ev) = stack.pop() {
        match ev {
            Ev::Exit => out.push_str(" )"),
            Ev::Enter(n) => {
                // one-node dump through the ordinary dumper, then strip its children/closing
                let mut one = String::new();
                tree::dump_one(n, &mut one);
                if !out.is_empty() {
                    out.push(' ');
                }
                out.push_str(&one);
                let (content, internal_offset, open, llb, _tv, lo) = comrak::verif::node_internals(n);
                let los: Vec<String> = lo.iter().map(|x| x.to_string()).collect();
                out.push_str(&format!(
                    " C{} O{} B{} I{} L{}",
                    hex(content.as_bytes()),
                    if open { 1 } else { 0 },
                    if llb { 1 } else { 0 },
                    internal_offset,
                    if los.is_empty() { "-".to_string() } else { los.join(",") }
                ));
                stack.push(Ev::Exit);
                let kids: Vec<_> = n.children().collect();
                for k in kids.into_iter().rev() {
                    stack.push(Ev::Enter(k));
                }
            }
        }
    }
}

pub fn dispatch(op: &str, a: &[String]) -> Option<String> {
    if op != "blocks" {
        return None;
    }
    let o = opts::decode(&a[0]);
    let md = String::from_utf8(unhex(&a[1])).expect("utf-8");
    let arena = Arena::new();
    comrak::verif::set_stop_after_blocks(true);
    let root = parse_document(&arena, &md, &o);
    comrak::verif::set_stop_after_blocks(false);
    let mut t = String::new();
    dump(root, &mut t);
    Some(format!("ok {}", t))
}
