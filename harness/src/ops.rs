use crate::{hex, unhex};

fn ok(b: &[u8]) -> String {
    format!("ok {}", hex(b))
}
fn okb(b: bool) -> String {
    format!("ok {}", if b { 1 } else { 0 })
}

pub fn dispatch(op: &str, a: &[String]) -> String {
    let arg = |i: usize| unhex(&a[i]);
    match op {
        "escape" => {
            let mut o = vec![];
            comrak::html::escape(&mut o, &arg(0)).unwrap();
            ok(&o)
        }
        "escape_href" => {
            let mut o = vec![];
            comrak::html::escape_href(&mut o, &arg(0)).unwrap();
            ok(&o)
        }
        "write_opening_tag" => {
            // tag and attributes must be str; the caller only sends valid UTF-8
            let tag = String::from_utf8(arg(0)).unwrap();
            let mut attrs: Vec<(String, String)> = vec![];
            let mut i = 1;
            while i + 1 < a.len() {
                attrs.push((String::from_utf8(arg(i)).unwrap(), String::from_utf8(arg(i + 1)).unwrap()));
                i += 2;
            }
            let mut o = vec![];
            comrak::html::write_opening_tag(&mut o, &tag, attrs).unwrap();
            ok(&o)
        }
        _ => format!("err unknown-op {}", op),
    }
}
