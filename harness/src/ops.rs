use crate::opts;
use crate::tree;
use crate::{hex, unhex};
use comrak::nodes::AstNode;
use comrak::{format_commonmark, format_html, format_xml, parse_document, Arena, Options};
use std::panic::{self, AssertUnwindSafe};

fn panic_msg(e: Box<dyn std::any::Any + Send>) -> String {
    if let Some(s) = e.downcast_ref::<&str>() {
        s.to_string()
    } else if let Some(s) = e.downcast_ref::<String>() {
        s.clone()
    } else {
        "?".to_string()
    }
}

/// run one render stage under catch_unwind: "<hex>" or "!<hexmsg>"
fn stage<F: FnOnce() -> Vec<u8>>(f: F) -> String {
    match panic::catch_unwind(AssertUnwindSafe(f)) {
        Ok(v) => hex(&v),
        Err(e) => format!("!{}@{}", hex(panic_msg(e).as_bytes()), crate::last_panic_loc()),
    }
}

pub fn render<'a>(fmt: &str, root: &'a AstNode<'a>, o: &Options) -> Vec<u8> {
    let mut out = vec![];
    match fmt {
        "html" => format_html(root, o, &mut out).unwrap(),
        "xml" => format_xml(root, o, &mut out).unwrap(),
        "cm" => format_commonmark(root, o, &mut out).unwrap(),
        _ => panic!("unknown format"),
    }
    out
}

/// (collect_text, slug) of every heading, slug = a fresh Anchorizer's answer (no uniqueness suffix):
/// the oracle the Coq model takes as its `slug` parameter
pub fn slugs<'a>(root: &'a AstNode<'a>) -> String {
    let mut s = String::new();
    for n in root.descendants() {
        if let comrak::nodes::NodeValue::Heading(_) = n.data.borrow().value {
            let mut t = vec![];
            comrak::html::collect_text(n, &mut t);
            let text = String::from_utf8(t).unwrap();
            let slug = comrak::Anchorizer::new().anchorize(text.clone());
            s.push_str(&format!(" {} {}", hex(text.as_bytes()), hex(slug.as_bytes())));
        }
    }
    s
}

/// parent/child/sibling links mutually consistent, via the public accessors only
fn links_ok<'a>(root: &'a AstNode<'a>) -> Result<(), String> {
    let mut stack = vec![root];
    let mut count = 0usize;
    if root.parent().is_some() || root.previous_sibling().is_some() || root.next_sibling().is_some() {
        return Err("root has parent or siblings".into());
    }
    while let Some(n) = stack.pop() {
        count += 1;
        let mut prev: Option<&'a AstNode<'a>> = None;
        let mut c = n.first_child();
        if let Some(f) = c {
            if f.previous_sibling().is_some() {
                return Err("first child has a previous sibling".into());
            }
        } else if n.last_child().is_some() {
            return Err("last_child without first_child".into());
        }
        let mut steps = 0usize;
        while let Some(ch) = c {
            steps += 1;
            if steps > 10_000_000 {
                return Err("sibling cycle".into());
            }
            match ch.parent() {
                Some(p) if p.same_node(n) => {}
                _ => return Err("child's parent is not the node".into()),
            }
            match (prev, ch.previous_sibling()) {
                (None, None) => {}
                (Some(a), Some(b)) if a.same_node(b) => {}
                _ => return Err("previous_sibling inconsistent with next_sibling".into()),
            }
            stack.push(ch);
            prev = Some(ch);
            c = ch.next_sibling();
        }
        match (prev, n.last_child()) {
            (None, None) => {}
            (Some(a), Some(b)) if a.same_node(b) => {}
            _ => return Err("last_child is not the end of the sibling chain".into()),
        }
    }
    let _ = count;
    Ok(())
}

fn ok(b: &[u8]) -> String {
    format!("ok {}", hex(b))
}
fn okb(b: bool) -> String {
    format!("ok {}", if b { 1 } else { 0 })
}

pub fn dispatch(op: &str, a: &[String]) -> String {
    let arg = |i: usize| unhex(&a[i]);
    match op {
        "escape" => {
            let mut o = vec![];
            comrak::html::escape(&mut o, &arg(0)).unwrap();
            ok(&o)
        }
        "escape_href" => {
            let mut o = vec![];
            comrak::html::escape_href(&mut o, &arg(0)).unwrap();
            ok(&o)
        }
        // the `Context::escape` / `Context::escape_href` convenience wrappers, reached the only way the public API
        // allows: from a custom formatter (the bytes travel in the user data)
        "ctx_escape" | "ctx_escape_href" => {
            fn f<'a>(
                ctx: &mut comrak::html::Context<(Vec<u8>, bool)>,
                node: &'a comrak::nodes::AstNode<'a>,
                entering: bool,
            ) -> std::io::Result<comrak::html::ChildRendering> {
                if entering && matches!(node.data.borrow().value, comrak::nodes::NodeValue::Document) {
                    let (bytes, href) = ctx.user.clone();
                    if href {
                        ctx.escape_href(&bytes)?;
                    } else {
                        ctx.escape(&bytes)?;
                    }
                }
                Ok(comrak::html::ChildRendering::Skip)
            }
            let arena = comrak::Arena::new();
            let o = comrak::Options::default();
            let root = comrak::parse_document(&arena, "", &o);
            let mut out = vec![];
            let plugins = comrak::Plugins::default();
            comrak::html::format_document_with_formatter(root, &o, &mut out, &plugins, f, (arg(0), op == "ctx_escape_href")).unwrap();
            ok(&out)
        }
        "write_opening_tag" => {
            // tag and attributes must be str; the caller only sends valid UTF-8
            let tag = String::from_utf8(arg(0)).unwrap();
            let mut attrs: Vec<(String, String)> = vec![];
            let mut i = 1;
            while i + 1 < a.len() {
                attrs.push((String::from_utf8(arg(i)).unwrap(), String::from_utf8(arg(i + 1)).unwrap()));
                i += 2;
            }
            let mut o = vec![];
            comrak::html::write_opening_tag(&mut o, &tag, attrs).unwrap();
            ok(&o)
        }
        // parse <opts> <md>  ->  ok <tree>
        "parse" => {
            let o = opts::decode(&a[0]);
            let md = String::from_utf8(arg(1)).expect("input must be utf-8");
            let arena = Arena::new();
            let root = parse_document(&arena, &md, &o);
            let mut t = String::new();
            tree::dump(root, &mut t);
            format!("ok {}", t)
        }
        // md <fmt> <opts> <md>  ->  ok <hex>
        "md" => {
            let o = opts::decode(&a[1]);
            let md = String::from_utf8(arg(2)).expect("input must be utf-8");
            let arena = Arena::new();
            let root = parse_document(&arena, &md, &o);
            ok(&render(&a[0], root, &o))
        }
        // pipe <opts> <md> -> ok <tree> | V <0/1> | L <0/1> <hexmsg> | H <hex|!msg> | X <..> | C <..>
        "pipe" => {
            let o = opts::decode(&a[0]);
            let md = String::from_utf8(arg(1)).expect("input must be utf-8");
            let arena = Arena::new();
            let root = parse_document(&arena, &md, &o);
            let mut t = String::new();
            tree::dump(root, &mut t);
            let v = match root.validate() {
                Ok(()) => "1".to_string(),
                Err(comrak::nodes::ValidationError::InvalidChildType { parent, child }) => format!(
                    "0 {}>{}",
                    comrak::verif::nodes::xml_node_name(&parent.data.borrow().value),
                    comrak::verif::nodes::xml_node_name(&child.data.borrow().value)
                ),
            };
            let l = links_ok(root);
            let h = stage(|| render("html", root, &o));
            let x = stage(|| render("xml", root, &o));
            let c = stage(|| render("cm", root, &o));
            format!(
                "ok {} | V {} | L {} {} | H {} | X {} | C {} | S{}",
                t,
                v,
                if l.is_ok() { 1 } else { 0 },
                hex(l.err().unwrap_or_default().as_bytes()),
                h,
                x,
                c,
                slugs(root)
            )
        }
        // render <fmt> <opts> <tree tokens...> -> ok <hex>
        "render" => {
            let o = opts::decode(&a[1]);
            let arena = Arena::new();
            let root = tree::build(&arena, &a[2..]);
            if a[0] == "html" {
                // the slug oracle is only needed by the HTML model (heading anchors)
                let s = slugs(root);
                format!("{} S{}", ok(&render(&a[0], root, &o)), s)
            } else {
                ok(&render(&a[0], root, &o))
            }
        }
        // rt <opts> <md> -> ok H1 | C1 | H2 | C2   (CommonMark round trip, each stage guarded)
        "rt" => {
            let o = opts::decode(&a[0]);
            let md = String::from_utf8(arg(1)).expect("input must be utf-8");
            let arena = Arena::new();
            let root = parse_document(&arena, &md, &o);
            let h1 = stage(|| render("html", root, &o));
            let c1v = panic::catch_unwind(AssertUnwindSafe(|| render("cm", root, &o)));
            match c1v {
                Err(e) => format!("ok {} | !{}@{} | - | -", h1, hex(panic_msg(e).as_bytes()), crate::last_panic_loc()),
                Ok(c1) => {
                    let c1s = String::from_utf8(c1.clone()).expect("cm output utf-8");
                    let arena2 = Arena::new();
                    let root2 = parse_document(&arena2, &c1s, &o);
                    let h2 = stage(|| render("html", root2, &o));
                    let c2 = stage(|| render("cm", root2, &o));
                    format!("ok {} | {} | {} | {}", h1, hex(&c1), h2, c2)
                }
            }
        }
        "tagfilter" => okb(comrak::html::verif_tagfilter(&arg(0))),
        "tagfilter_block" => {
            let mut o = vec![];
            comrak::html::verif_tagfilter_block(&arg(0), &mut o).unwrap();
            ok(&o)
        }
        "dangerous_url" => okb(comrak::html::verif_dangerous_url(&arg(0))),
        "shortest_unused_sequence" => format!("ok {}", comrak::verif::cm::shortest_unused_sequence(&arg(0), arg(1)[0])),
        "longest_char_sequence" => format!("ok {}", comrak::verif::cm::longest_char_sequence(&arg(0), arg(1)[0])),
        // split_fm <delimiter> <input>  ->  ok <front matter> <rest> | none
        "split_fm" => {
            let d = String::from_utf8(arg(0)).expect("utf-8");
            let s = String::from_utf8(arg(1)).expect("utf-8");
            match comrak::verif::strings::split_off_front_matter(&s, &d) {
                Some((fm, rest)) => format!("ok {} {}", hex(fm.as_bytes()), hex(rest.as_bytes())),
                None => "none".to_string(),
            }
        }
        // lines <opts> <md> -> ok <hexline>*   (every slice handed to process_line, in order)
        "lines" => {
            let o = opts::decode(&a[0]);
            let md = String::from_utf8(arg(1)).expect("input must be utf-8");
            let arena = Arena::new();
            comrak::verif::line_log_start();
            let _root = parse_document(&arena, &md, &o);
            let lines = comrak::verif::line_log_take();
            let mut s = String::from("ok");
            for l in lines {
                s.push(' ');
                s.push_str(&hex(&l));
            }
            s
        }
        // anchorize <header>* -> ok <id>*   (one Anchorizer, headers in order)
        "anchorize" => {
            let mut anc = comrak::Anchorizer::new();
            let mut s = String::from("ok");
            for i in 0..a.len() {
                let id = anc.anchorize(String::from_utf8(arg(i)).expect("utf-8"));
                s.push(' ');
                s.push_str(&hex(id.as_bytes()));
            }
            s
        }
        _ => {
            for f in crate::COMPONENTS {
                if let Some(r) = f(op, a) {
                    return r;
                }
            }
            format!("err unknown-op {}", op)
        }
    }
}
