// Layer C / scanners: the compiled re2c scanners through the verif hooks (comrak::verif::scanners).
//   scan <fn> <hex>  ->  ok <n> | none                 (Option<usize>; html_block_start* return the block type)
//                        ok 0|1                        (bool scanners html_block_end_*)
//                        ok <k> | none                 (alert_start: 0..4 = Note Tip Important Warning Caution;
//                                                       setext_heading_line: 0 = Equals, 1 = Hyphen)
//                        ok <n> <hexbyte> | none       (tasklist)
//                        err feature-off               (shortcode when comrak is built without `shortcodes`)
//   <fn> is the Rust function name; table_cell(s, true) is written table_cell_spoiler.
use crate::unhex;
use comrak::verif::scanners as sc;

fn ou(r: Option<usize>) -> String {
    match r {
        Some(n) => format!("ok {}", n),
        None => "none".to_string(),
    }
}

fn ob(r: Option<u8>) -> String {
    match r {
        Some(n) => format!("ok {}", n),
        None => "none".to_string(),
    }
}

pub fn dispatch(op: &str, a: &[String]) -> Option<String> {
    if op != "scan" {
        return None;
    }
    if a.len() != 2 {
        return Some("err usage: scan <fn> <hex>".to_string());
    }
    let s = unhex(&a[1]);
    let s = &s[..];
    Some(match a[0].as_str() {
        "atx_heading_start" => ou(sc::atx_heading_start(s)),
        "open_code_fence" => ou(sc::open_code_fence(s)),
        "close_code_fence" => ou(sc::close_code_fence(s)),
        "html_block_start" => ou(sc::html_block_start(s)),
        "html_block_start_7" => ou(sc::html_block_start_7(s)),
        "footnote_definition" => ou(sc::footnote_definition(s)),
        "scheme" => ou(sc::scheme(s)),
        "autolink_uri" => ou(sc::autolink_uri(s)),
        "autolink_email" => ou(sc::autolink_email(s)),
        "html_tag" => ou(sc::html_tag(s)),
        "html_comment" => ou(sc::html_comment(s)),
        "html_processing_instruction" => ou(sc::html_processing_instruction(s)),
        "html_declaration" => ou(sc::html_declaration(s)),
        "html_cdata" => ou(sc::html_cdata(s)),
        "spacechars" => ou(sc::spacechars(s)),
        "link_title" => ou(sc::link_title(s)),
        "dangerous_url" => ou(sc::dangerous_url(s)),
        "table_start" => ou(sc::table_start(s)),
        "table_cell_end" => ou(sc::table_cell_end(s)),
        "table_row_end" => ou(sc::table_row_end(s)),
        "open_multiline_block_quote_fence" => ou(sc::open_multiline_block_quote_fence(s)),
        "close_multiline_block_quote_fence" => ou(sc::close_multiline_block_quote_fence(s)),
        "description_item_start" => ou(sc::description_item_start(s)),
        "html_block_end_1" => format!("ok {}", sc::html_block_end_1(s) as u8),
        "html_block_end_2" => format!("ok {}", sc::html_block_end_2(s) as u8),
        "html_block_end_3" => format!("ok {}", sc::html_block_end_3(s) as u8),
        "html_block_end_4" => format!("ok {}", sc::html_block_end_4(s) as u8),
        "html_block_end_5" => format!("ok {}", sc::html_block_end_5(s) as u8),
        "table_cell" => ou(sc::table_cell(s, false)),
        "table_cell_spoiler" => ou(sc::table_cell(s, true)),
        "alert_start" => ob(sc::alert_start(s)),
        "setext_heading_line" => ob(sc::setext_heading_line(s)),
        "tasklist" => match sc::tasklist(s) {
            Some((n, b)) => format!("ok {} {:02x}", n, b),
            None => "none".to_string(),
        },
        "shortcode" => match sc::shortcode(s) {
            Some(r) => ou(r),
            None => "err feature-off".to_string(),
        },
        _ => "err unknown-scanner".to_string(),
    })
}
