// ops_arena — C04 (links): drive comrak::arena_tree::Node directly.
//   arena <n> <tok>*     n detached Node<u32> (payload = index) in a typed arena, then the operations
//                        a:i:j  node i .append(node j)        p:i:j   node i .prepend(node j)
//                        ia:i:j node i .insert_after(node j)  ib:i:j  node i .insert_before(node j)
//                        d:i    node i .detach()
//   output: ok <dump>*   one dump per step, after the step.  dump = nodes separated by ';', each node
//                        parent,previous,next,first,last  (payload of the target, '-' for None).
//                        A step that panics ends the history with the token  !<fn>:<kind>:<line>
//                        (kind = assert | unwrap | other; line = line in arena_tree.rs).
// Only the five public accessors are read, per node: no iterator is used (cyclic links would make
// every iterator of arena_tree diverge).
use comrak::arena_tree::Node;
use comrak::Arena;
use std::panic::{self, AssertUnwindSafe};

fn link<'a>(o: Option<&'a Node<'a, u32>>) -> String {
    match o {
        Some(n) => n.data.to_string(),
        None => "-".to_string(),
    }
}

fn dump<'a>(nodes: &[&'a Node<'a, u32>]) -> String {
    let mut s = String::new();
    for (k, n) in nodes.iter().enumerate() {
        if k > 0 {
            s.push(';');
        }
        s.push_str(&link(n.parent()));
        s.push(',');
        s.push_str(&link(n.previous_sibling()));
        s.push(',');
        s.push_str(&link(n.next_sibling()));
        s.push(',');
        s.push_str(&link(n.first_child()));
        s.push(',');
        s.push_str(&link(n.last_child()));
    }
    s
}

fn arena_case(a: &[String]) -> String {
    if a.is_empty() {
        return "err arena: missing n".into();
    }
    let n: usize = match a[0].parse() {
        Ok(v) if v <= 4096 => v,
        _ => return "err arena: bad n".into(),
    };
    let arena = Arena::new();
    let mut nodes: Vec<&Node<u32>> = Vec::with_capacity(n);
    for i in 0..n {
        nodes.push(arena.alloc(Node::new(i as u32)));
    }
    let mut out = String::from("ok");
    for tok in &a[1..] {
        let parts: Vec<&str> = tok.split(':').collect();
        let idx = |k: usize| -> Option<usize> { parts.get(k).and_then(|s| s.parse::<usize>().ok()).filter(|v| *v < n) };
        let (name, arity) = match parts[0] {
            "a" => ("append", 2),
            "p" => ("prepend", 2),
            "ia" => ("insert_after", 2),
            "ib" => ("insert_before", 2),
            "d" => ("detach", 1),
            _ => return format!("err arena: bad op {}", tok),
        };
        if parts.len() != arity + 1 {
            return format!("err arena: bad op {}", tok);
        }
        let i = match idx(1) {
            Some(v) => v,
            None => return format!("err arena: bad index in {}", tok),
        };
        let j = if arity == 2 {
            match idx(2) {
                Some(v) => v,
                None => return format!("err arena: bad index in {}", tok),
            }
        } else {
            0
        };
        let (ni, nj) = (nodes[i], nodes[j]);
        let r = panic::catch_unwind(AssertUnwindSafe(|| match parts[0] {
            "a" => ni.append(nj),
            "p" => ni.prepend(nj),
            "ia" => ni.insert_after(nj),
            "ib" => ni.insert_before(nj),
            _ => ni.detach(),
        }));
        match r {
            Ok(()) => {
                out.push(' ');
                out.push_str(&dump(&nodes));
            }
            Err(e) => {
                let msg = if let Some(s) = e.downcast_ref::<&str>() {
                    s.to_string()
                } else if let Some(s) = e.downcast_ref::<String>() {
                    s.clone()
                } else {
                    "?".to_string()
                };
                let kind = if msg.starts_with("assertion failed") {
                    "assert"
                } else if msg.contains("unwrap()") && msg.contains("None") {
                    "unwrap"
                } else {
                    "other"
                };
                let loc = crate::last_panic_loc();
                let line = loc.rsplit(':').next().unwrap_or("?").to_string();
                let file_ok = loc.contains("arena_tree.rs");
                out.push_str(&format!(" !{}:{}:{}{}", name, kind, line, if file_ok { "" } else { ":elsewhere" }));
                return out;
            }
        }
    }
    out
}

pub fn dispatch(op: &str, a: &[String]) -> Option<String> {
    match op {
        "arena" => Some(arena_case(a)),
        _ => None,
    }
}
