// Detects whether the comrak source tree the harness is built against carries the C06 step-counter
// hooks (comrak::verif::step / steps / steps_reset, see repo_hooks_c06.patch).  Without them the
// `cost` ops still work but report hooks=0 and steps=0 (the C06 check then reports a broken tie).
use std::fs;
fn main() {
    println!("cargo:rerun-if-changed=Cargo.toml");
    println!("cargo:rerun-if-changed=build.rs");
    let toml = fs::read_to_string("Cargo.toml").unwrap_or_default();
    let mut path = String::from("/repo");
    for l in toml.lines() {
        if l.trim_start().starts_with("comrak") {
            if let Some(i) = l.find("path") {
                let rest = &l[i..];
                if let Some(a) = rest.find('"') {
                    if let Some(b) = rest[a + 1..].find('"') {
                        path = rest[a + 1..a + 1 + b].to_string();
                    }
                }
            }
        }
    }
    let v = format!("{}/src/verif.rs", path);
    println!("cargo:rerun-if-changed={}", v);
    let src = fs::read_to_string(&v).unwrap_or_default();
    if src.contains("pub fn steps_reset") && src.contains("pub fn steps()") {
        println!("cargo:rustc-cfg=c06_hooks");
    }
}
