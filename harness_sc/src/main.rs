// vh_sc — same line protocol as vh, one op:  scan shortcode <hex>  ->  ok <n> | none
use std::io::{self, BufRead, Write};

fn unhex(s: &str) -> Vec<u8> {
    if s == "-" {
        return vec![];
    }
    let b = s.as_bytes();
    let hv = |c: u8| -> u8 {
        match c {
            b'0'..=b'9' => c - 48,
            b'a'..=b'f' => c - 87,
            b'A'..=b'F' => c - 55,
            _ => panic!("bad hex"),
        }
    };
    let mut out = Vec::with_capacity(b.len() / 2);
    let mut i = 0;
    while i + 1 < b.len() {
        out.push(hv(b[i]) * 16 + hv(b[i + 1]));
        i += 2;
    }
    out
}

fn main() {
    let stdin = io::stdin();
    let stdout = io::stdout();
    let mut out = io::BufWriter::new(stdout.lock());
    for line in stdin.lock().lines() {
        let line = line.unwrap();
        let t: Vec<&str> = line.split(' ').filter(|s| !s.is_empty()).collect();
        let r = if t.len() == 3 && t[0] == "scan" && t[1] == "shortcode" {
            match comrak::verif::scanners::shortcode(&unhex(t[2])) {
                Some(Some(n)) => format!("ok {}", n),
                Some(None) => "none".to_string(),
                None => "err feature-off".to_string(),
            }
        } else {
            "err unknown-op".to_string()
        };
        writeln!(out, "{}", r).unwrap();
    }
    out.flush().unwrap();
}
