(* d_pvalid.ml — C04 for the whole-parser model: Spec/ParseValidSpec.v parse_valid_report.
     pvalid <opts> <nchars> (<charhex> <wp> <foldhex>)* <mdhex>
        -> ok <c> <v>   c = bcells_ok of the block tree (premise of Parse_valid_partial2: no CR / LF in a TableCell content)
                        v = Spec.Valid.structurally_valid of the tree parse_document_model returns
         | none         the model does not return a tree (panic / out of scope) *)
open Dcore

let () =
  register "pvalid" (fun a ->
      match a with
      | otok :: rest ->
        let o = D_parse.parse_popts otok in
        let (u, rest) = D_inlines.take_oracle rest in
        (match rest with
         | [md] ->
           (match M.parse_valid_report o u (bytes_of_hex md) with
            | Some (c, v) -> "ok " ^ (if c then "1" else "0") ^ " " ^ (if v then "1" else "0")
            | None -> "none")
         | _ -> "err args")
      | _ -> "err args")
