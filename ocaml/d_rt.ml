(* d_rt.ml — C07 / C17: Spec/RoundTrip.v
   rt_strip <hexhtml>                 -> ok <hex>       strip_end_list_comments
   rt_collapse_shape <tree tokens>    -> ok k:n,k:n,..  preorder (kind index, child count) of collapse_nested_strong t
   rt_classes <ol_width> <tree tokens>-> ok <bits>      tree_classes (one 0/1 per class, order of Spec/RoundTrip.v)
   rt_unescape <hex> / rt_escape_all <hex> -> ok <hex> *)
open Dcore

let rec shape (n : M.node) (acc : string list) : string list =
  match n with
  | M.Node (v, _, ch) ->
    let k : int = Obj.magic (M.kind_of v) in
    let acc = (string_of_int k ^ ":" ^ string_of_int (List.length ch)) :: acc in
    List.fold_left (fun a c -> shape c a) acc ch

let () =
  register "rt_strip" (fun a -> "ok " ^ hex_of_bytes (M.strip_end_list_comments (arg a 0)));
  register "rt_collapse_shape" (fun a ->
      let (t, _) = D_0tree.parse_tree a in
      "ok " ^ String.concat "," (List.rev (shape (M.collapse_nested_strong t) [])));
  register "rt_classes" (fun a ->
      let w = n_of_int (int_of_string (List.hd a)) in
      let (t, _) = D_0tree.parse_tree (List.tl a) in
      "ok " ^ String.concat "" (List.map (fun b -> if b then "1" else "0") (M.tree_classes w t)));
  register "rt_unescape" (fun a -> "ok " ^ hex_of_bytes (M.unescape_backslashes (arg a 0)));
  register "rt_escape_all" (fun a -> "ok " ^ hex_of_bytes (M.escape_all (arg a 0)))
