(* d_strleaf.ml — Model/{Strings,Entity,LinkUrl,AutolinkLeaf,ListMarker}.v through Model/StrLeafApi.v.
   Answers have the token layout of harness/src/ops_strleaf.rs. *)
open Dcore

let rec int_of_nat = function M.O -> 0 | M.S n -> 1 + int_of_nat n
let rec nat_of_int i = if i <= 0 then M.O else M.S (nat_of_int (i - 1))
let num a i = nat_of_int (int_of_string (List.nth a i))
let flag a i = List.nth a i = "1"
let byte1 a i = match arg a i with b :: _ -> b | [] -> failwith "byte expected"
let pr_hex r = pr_res hex_of_bytes r
let pr_pair r = pr_res (fun (b, n) -> hex_of_bytes b ^ " " ^ string_of_int (int_of_nat n)) r
let opt_pair = function
  | Some (b, n) -> hex_of_bytes b ^ " " ^ string_of_int (int_of_nat n)
  | None -> "none"

(* oracle tables: tokens after a marker, pairs <hex key> <hex value> *)
let table_after (marker : string) (a : string list) : (string, string) Hashtbl.t =
  let tbl = Hashtbl.create 8 in
  let rec skip = function
    | m :: r when m = marker -> r
    | _ :: r -> skip r
    | [] -> [] in
  let rec go = function
    | k :: v :: r -> Hashtbl.replace tbl k v; go r
    | _ -> () in
  go (skip a); tbl

let () =
  register "sl_unescape" (fun a -> pr_hex (M.sl_unescape (arg a 0)));
  register "sl_clean_autolink" (fun a -> pr_hex (M.sl_clean_autolink (arg a 0) (flag a 1)));
  register "sl_normalize_code" (fun a -> pr_hex (M.sl_normalize_code (arg a 0)));
  register "sl_rtbl" (fun a -> pr_hex (M.sl_remove_trailing_blank_lines (arg a 0)));
  register "sl_is_line_end_char" (fun a -> pr_bool (M.sl_is_line_end_char (byte1 a 0)));
  register "sl_is_space_or_tab" (fun a -> pr_bool (M.sl_is_space_or_tab (byte1 a 0)));
  register "sl_chop" (fun a -> pr_hex (M.sl_chop_trailing_hashtags (arg a 0)));
  register "sl_rtrim" (fun a -> pr_pair (M.sl_rtrim (arg a 0)));
  register "sl_ltrim" (fun a -> pr_pair (M.sl_ltrim (arg a 0)));
  register "sl_trim" (fun a -> pr_hex (M.sl_trim (arg a 0)));
  register "sl_ltrim_slice" (fun a -> "ok " ^ hex_of_bytes (M.sl_ltrim_slice (arg a 0)));
  register "sl_rtrim_slice" (fun a -> "ok " ^ hex_of_bytes (M.sl_rtrim_slice (arg a 0)));
  register "sl_trim_slice" (fun a -> "ok " ^ hex_of_bytes (M.sl_trim_slice (arg a 0)));
  register "sl_shift" (fun a -> pr_hex (M.sl_shift_buf_left (arg a 0) (num a 1)));
  register "sl_clean_url" (fun a -> pr_hex (M.sl_clean_url (arg a 0)));
  register "sl_clean_title" (fun a -> pr_hex (M.sl_clean_title (arg a 0)));
  register "sl_is_blank" (fun a -> pr_bool (M.sl_is_blank (arg a 0)));
  (* sl_normalize_label <hex> <fold> F <hex unfolded> <hex folded>: the model's answer only *)
  register "sl_normalize_label" (fun a ->
      let tbl = table_after "F" a in
      let fold v = match Hashtbl.find_opt tbl (hex_of_bytes v) with
        | Some f -> bytes_of_hex f
        | None -> v (* no oracle entry: a wrong collapsed label shows up as a mismatch *) in
      "ok " ^ hex_of_bytes (M.sl_normalize_label fold (arg a 0) (flag a 1)));
  register "sl_trim_start_match" (fun a -> "ok " ^ hex_of_bytes (M.sl_trim_start_match (arg a 0) (arg a 1)));
  register "sl_entity_unescape" (fun a -> pr_res opt_pair (M.sl_entity_unescape (arg a 0)));
  register "sl_unescape_html" (fun a -> pr_hex (M.sl_unescape_html (arg a 0)));
  register "sl_scan_url" (fun a -> pr_res opt_pair (M.sl_manual_scan_link_url (arg a 0)));
  register "sl_scan_url2" (fun a -> "ok " ^ opt_pair (M.sl_manual_scan_link_url_2 (arg a 0)));
  (* sl_check_domain <hex> <allow_short> H (<hexchar> <0|1>)* *)
  register "sl_check_domain" (fun a ->
      let tbl = table_after "H" a in
      let hc ch = match Hashtbl.find_opt tbl (hex_of_bytes ch) with
        | Some v -> v = "1"
        | None -> failwith "host character oracle: missing entry" in
      pr_res (function Some n -> string_of_int (int_of_nat n) | None -> "none")
        (M.sl_check_domain hc (arg a 0) (flag a 1)));
  register "sl_hostchar" (fun a ->
      pr_bool (M.sl_is_valid_hostchar (fun _ -> failwith "oracle needed") (arg a 0)));
  register "sl_autolink_delim" (fun a ->
      pr_res (fun n -> string_of_int (int_of_nat n)) (M.sl_autolink_delim (arg a 0) (num a 1) (flag a 2)));
  register "sl_validate_protocol" (fun a ->
      pr_res (fun b -> if b then "1" else "0") (M.sl_validate_protocol (arg a 0) (arg a 1) (num a 2)));
  register "sl_unescape_pipes" (fun a -> "ok " ^ hex_of_bytes (M.sl_unescape_pipes (arg a 0)));
  register "sl_list_marker" (fun a ->
      pr_res (function
          | None -> "none"
          | Some (n, l) ->
            Printf.sprintf "%d %s %d %s %d %d %d %d %d" (int_of_nat n)
              (match l.M.l_type with M.Bullet -> "b" | M.Ordered -> "o")
              (int_of_n l.M.l_start)
              (match l.M.l_delim with M.Period -> "." | M.Paren -> ")")
              (int_of_n l.M.l_bullet) (int_of_n l.M.l_marker_offset) (int_of_n l.M.l_padding)
              (if l.M.l_tight then 1 else 0) (if l.M.l_task then 1 else 0))
        (M.sl_parse_list_marker (arg a 0) (num a 1) (flag a 2)));
  register "sl_thematic" (fun a ->
      let (n, f) = M.sl_scan_thematic_break_inner (arg a 0) (num a 1) in
      Printf.sprintf "ok %d %d" (int_of_nat n) (if f then 1 else 0))
