(* d_escape.ml — C19: escaping helpers *)
open Dcore

let rec pairs = function
  | a :: v :: r -> (bytes_of_hex a, bytes_of_hex v) :: pairs r
  | [] -> []
  | _ -> failwith "odd attribute list"

let () =
  register "escape" (fun a -> pr_res hex_of_bytes (M.escape (arg a 0)));
  register "escape_href" (fun a -> pr_res hex_of_bytes (M.escape_href (arg a 0)));
  register "write_opening_tag" (fun a -> pr_res hex_of_bytes (M.write_opening_tag (arg a 0) (pairs (List.tl a))));
  register "html_unescape" (fun a -> pr_opt hex_of_bytes (M.html_unescape (arg a 0)));
  register "href_decode" (fun a -> pr_opt hex_of_bytes (M.href_decode (arg a 0)));
  register "href_wf" (fun a -> pr_bool (M.href_wf (arg a 0)));
  register "no_pct_hex" (fun a -> pr_bool (M.no_pct_hex (arg a 0)));
  register "utf8_valid" (fun a -> pr_bool (M.utf8_valid (arg a 0)));
  register "lex_start_tag" (fun a ->
    match M.lex_start_tag (arg a 0) with
    | Some ((tag, attrs), rest) ->
      "ok " ^ hex_of_bytes tag ^ " " ^ hex_of_bytes rest ^
      String.concat "" (List.map (fun (n, v) -> " " ^ hex_of_bytes n ^ " " ^ hex_of_bytes v) attrs)
    | None -> "none")
