(* d_html.ml — Model/Html.v: html <opts> <nslugs> (<hexheader> <hexslug>)* <tree tokens> *)
open Dcore

let take_slugs (a : string list) : (M.byte list -> M.byte list) * string list =
  match a with
  | n :: rest ->
    let n = int_of_string n in
    let tbl = Hashtbl.create 8 in
    let rec go k l = if k = 0 then l else
        (match l with
         | h :: s :: r -> Hashtbl.replace tbl h s; go (k - 1) r
         | _ -> failwith "slug table") in
    let rest = go n rest in
    ((fun hdr -> match Hashtbl.find_opt tbl (hex_of_bytes hdr) with
        | Some s -> bytes_of_hex s
        | None -> []  (* no oracle entry (the implementation panicked before answering): any value will do,
                         a wrong one shows up as a byte mismatch *)), rest)
  | [] -> failwith "slug table missing"

let () =
  register "html" (fun a ->
      let o = D_0tree.parse_opts (List.hd a) in
      let (slug, rest) = take_slugs (List.tl a) in
      let (t, _) = D_0tree.parse_tree rest in
      pr_res hex_of_bytes (M.html slug o t))
