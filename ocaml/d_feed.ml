(* d_feed.ml — C08: line splitter model, process_line prologue, the rewrites and predicates of Spec/LineEndings.v *)
open Dcore

let hexlist (ls : M.byte list list) : string =
  String.concat "" (List.map (fun l -> " " ^ hex_of_bytes l) ls)

let () =
  (* feed_lines <x> -> ok <total_size> <hexline>* *)
  register "feed_lines" (fun a ->
    match M.feed_lines_res (arg a 0) with
    | M.Ok (ls, n) -> "ok " ^ string_of_int (int_of_n n) ^ hexlist ls
    | M.Panic s -> "panic " ^ ocaml_string_of_coq s
    | M.OutOfFuel -> "fuel");
  (* spec_lines <x> -> ok <hexline>*   (CommonMark 2.1 / 2.3, independent of the model) *)
  register "spec_lines" (fun a -> "ok" ^ hexlist (M.spec_lines (arg a 0)));
  register "seen_lines" (fun a -> "ok" ^ hexlist (M.seen_lines (arg a 0)));
  register "norm_line" (fun a -> "ok " ^ hex_of_bytes (M.norm_line (arg a 0)));
  (* bom_offset <line_number> <line> -> ok <n> *)
  register "bom_offset" (fun a -> pr_n (M.bom_offset (n_of_int (int_of_string (List.nth a 0))) (arg a 1)));
  register "max_ref_size" (fun a -> pr_n (M.max_ref_size (n_of_int (int_of_string (List.nth a 0)))));
  register "to_crlf" (fun a -> "ok " ^ hex_of_bytes (M.to_crlf (arg a 0)));
  register "to_cr" (fun a -> "ok " ^ hex_of_bytes (M.to_cr (arg a 0)));
  register "add_final_nl" (fun a -> "ok " ^ hex_of_bytes (M.add_final_nl (arg a 0)));
  register "nul_to_fffd" (fun a -> "ok " ^ hex_of_bytes (M.nul_to_fffd (arg a 0)));
  register "prepend_bom" (fun a -> "ok " ^ hex_of_bytes (M.prepend_bom (arg a 0)));
  register "no_cr" (fun a -> pr_bool (M.no_cr (arg a 0)));
  register "ends_nl" (fun a -> pr_bool (M.ends_nl (arg a 0)));
  register "has_bom" (fun a -> pr_bool (M.has_bom (arg a 0)));
  register "clean_line" (fun a -> pr_bool (M.clean_line (arg a 0)));
  register "known_above_floor" (fun a -> pr_bool (M.known_above_floor M.ref_budget_floor (arg a 0)));
  register "known_bom_on_bom" (fun a -> pr_bool (M.known_bom_on_bom (arg a 0)));
  (* c08_info <x> -> ok <no_cr> <ends_nl> <has_bom> <to_crlf> <to_cr> <add_final_nl> <nul_to_fffd> <prepend_bom>
     one call per document: the domains and the five rewritten copies *)
  register "c08_info" (fun a ->
    let x = arg a 0 in
    let b v = if v then "1" else "0" in
    String.concat " " ["ok"; b (M.no_cr x); b (M.ends_nl x); b (M.has_bom x);
                       hex_of_bytes (M.to_crlf x); hex_of_bytes (M.to_cr x); hex_of_bytes (M.add_final_nl x);
                       hex_of_bytes (M.nul_to_fffd x); hex_of_bytes (M.prepend_bom x)])
