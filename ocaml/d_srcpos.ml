(* d_srcpos.ml — Spec/SourcePos.v on a dumped tree, Model/Spx.v.
   sp_report <smart 0/1> <srchex> <tree tokens>
       -> ok <clause>:<path>:<class> ...     (one token per failing (node, clause); no token = all clauses hold)
          clause = B (in bounds) N (within parent) S (sibling order) V (slice); path = child indices joined by . (r = root)
          class = known-finding class of Spec/SourcePosKnown.v or -
   sp_slice <srchex> <sl> <sc> <el> <ec>   -> ok <hex> | none *)
open Dcore

let () =
  register "sp_report" (fun a ->
      let smart = List.hd a = "1" in
      let src = bytes_of_hex (List.nth a 1) in
      let (t, _) = D_0tree.parse_tree (List.tl (List.tl a)) in
      let l = M.lines_of src in
      let fs = M.fails_go l smart [] [] None t in
      let cl = function M.CBounds -> "B" | M.CNest -> "N" | M.CSibling -> "S" | M.CSlice -> "V" in
      let path p = if p = [] then "r" else String.concat "." (List.map (fun n -> string_of_int (int_of_n n)) p) in
      let cls f = match M.classify l f with Some s -> ocaml_string_of_coq s | None -> "-" in
      "ok" ^ String.concat "" (List.map (fun f -> " " ^ cl f.M.f_clause ^ ":" ^ path f.M.f_path ^ ":" ^ cls f) fs));
  register "sp_slice" (fun a ->
      let src = bytes_of_hex (List.hd a) in
      let n i = D_0tree.n_of_string (List.nth a i) in
      pr_opt hex_of_bytes (M.slice (M.lines_of src) { M.sl = n 1; sc = n 2; el = n 3; ec = n 4 }))

(* sp_cover <srchex> <tree tokens> -> ok <number of nodes> <class>=<nodes> ...
   the masking area of the known-finding classes: for every class the number of nodes of this tree that the
   class predicate of Spec/SourcePosKnown.v accepts for SOME clause (B N S V), whether or not the node fails
   anything; used by tools/sp_survey.py cover, not by the checks *)
let () =
  register "sp_cover" (fun a ->
      let src = bytes_of_hex (List.hd a) in
      let (t, _) = D_0tree.parse_tree (List.tl a) in
      let l = M.lines_of src in
      let names = List.map (fun (nm, _) -> ocaml_string_of_coq nm) M.classes in
      let counts = Array.make (List.length names) 0 in
      let total = ref 0 in
      let rec walk anc prev n =
        incr total;
        List.iteri (fun i (_, p) ->
            if List.exists (fun c -> p l { M.f_clause = c; f_path = []; f_node = n; f_anc = anc; f_prev = prev })
                 [M.CBounds; M.CNest; M.CSibling; M.CSlice]
            then counts.(i) <- counts.(i) + 1) M.classes;
        let ch = (match n with M.Node (_, _, ch) -> ch) in
        ignore (List.fold_left (fun pv c -> walk (n :: anc) pv c; Some c) None ch) in
      walk [] None t;
      "ok " ^ string_of_int !total ^
      String.concat "" (List.mapi (fun i nm -> if counts.(i) > 0 then " " ^ nm ^ "=" ^ string_of_int counts.(i) else "") names))
