(* d_valid.ml — C04: Spec/Valid.v predicates and the generated containment table (Gen/Nodes.v).
   c04tree <tree tokens>  -> ok <valid 0/1> <parent>><child>|- <s2><headings_ok><lists_ok><tables_ok><leaves_ok><s3>
                             (names = Gen.NodesXml.xml_node_name of the first pair Node::validate would report)
   kinds_table            -> ok <n> <matrix> <block> <contains_inlines> <accepts_lines>   over Ast.all_kinds, in order
   row_cells <blank> <cols> <rows> <nonempty> <aligns> <cells|n>  -> ok <k> <nonempty'> | none
   header_cells <h|n> <d|n> -> ok <aligns> <cols> <k> | none *)
open Dcore

let nat_of_int i = let rec go i acc = if i <= 0 then acc else go (i - 1) (M.S acc) in go i M.O
let int_of_nat n = let rec go n acc = match n with M.O -> acc | M.S m -> go m (acc + 1) in go n 0
let str_of_bytes (l : M.byte list) = String.concat "" (List.map (fun b -> String.make 1 (Char.chr (int_of_byte b))) l)

let () =
  register "c04tree" (fun a ->
      let (t, _) = D_0tree.parse_tree a in
      let b x = if x then "1" else "0" in
      let v = M.validate t in
      let pair = match v with
        | None -> "-"
        | Some (p, c) -> str_of_bytes (M.xml_node_name p) ^ ">" ^ str_of_bytes (M.xml_node_name c) in
      (* valid and validate are two definitions; print both so that a disagreement is visible *)
      "ok " ^ b (M.valid t) ^ " " ^ pair ^ " " ^ b (M.s2 t) ^ b (M.headings_ok t) ^ b (M.lists_ok t)
      ^ b (M.tables_ok t) ^ b (M.leaves_ok t) ^ b (M.s3 t));
  register "kinds_table" (fun _ ->
      let ks = M.all_kinds in
      let bit x = if x then "1" else "0" in
      let m = String.concat "" (List.concat_map (fun p -> List.map (fun c -> bit (M.can_contain p c)) ks) ks) in
      let col f = String.concat "" (List.map (fun k -> bit (f k)) ks) in
      Printf.sprintf "ok %d %s %s %s %s" (List.length ks) m (col M.block) (col M.contains_inlines) (col M.accepts_lines));
  register "kind_names" (fun _ ->
      "ok " ^ String.concat " " (List.map (fun k -> str_of_bytes (M.xml_node_name k)) M.all_kinds));
  register "row_cells" (fun a ->
      let i k = int_of_string (List.nth a k) in
      let this = if List.nth a 5 = "n" then None else Some (nat_of_int (i 5)) in
      match M.try_opening_row_cells (List.nth a 0 = "1") (n_of_int (i 1)) (n_of_int (i 2)) (n_of_int (i 3)) (nat_of_int (i 4)) this with
      | None -> "none"
      | Some (k, ne) -> Printf.sprintf "ok %d %d" (int_of_nat k) (int_of_n ne));
  register "header_cells" (fun a ->
      let o k = if List.nth a k = "n" then None else Some (nat_of_int (int_of_string (List.nth a k))) in
      match M.try_opening_header_cells (o 0) (o 1) with
      | None -> "none"
      | Some ((al, c), k) -> Printf.sprintf "ok %d %d %d" (int_of_nat al) (int_of_nat c) (int_of_nat k))
