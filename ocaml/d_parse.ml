(* d_parse.ml — Layer C, the whole parser: runs Model/Parse.v parse_document_model and prints the tree in EXACTLY the
   token format of the harness op `parse` (harness/src/tree.rs):
     parse_model <opts> <nchars> (<charhex> <wp> <foldhex>)* <mdhex>
        -> ok <tree>  |  oos <what>  |  panic <site>  |  fuel
   The oracle table (Unicode classes and the case fold of every non-ASCII character of the document) is the one the
   harness op `parseu` answers; ASCII is folded by lower-casing (see D_inlines.take_oracle). *)
open Dcore

let parse_popts (tok : string) : M.popts =
  let tbl = Hashtbl.create 16 in
  if tok <> "-" && tok <> "" then
    List.iter (fun kv ->
        match String.index_opt kv '=' with
        | Some i -> Hashtbl.replace tbl (String.sub kv 0 i) (String.sub kv (i + 1) (String.length kv - i - 1))
        | None -> Hashtbl.replace tbl kv "1") (String.split_on_char ',' tok);
  let b k = (match Hashtbl.find_opt tbl k with Some "1" -> true | _ -> false) in
  let s k = (match Hashtbl.find_opt tbl k with Some v -> Some (bytes_of_hex v) | None -> None) in
  { M.po_table = b "table"; po_footnotes = b "footnotes"; po_description_lists = b "description_lists";
    po_multiline_block_quotes = b "multiline_block_quotes"; po_alerts = b "alerts"; po_spoiler = b "spoiler";
    po_greentext = b "greentext"; po_ignore_setext = b "ignore_setext";
    po_front_matter_delimiter = s "front_matter_delimiter"; po_default_info_string = s "default_info_string";
    po_autolink = b "autolink"; po_strikethrough = b "strikethrough"; po_subscript = b "subscript";
    po_superscript = b "superscript"; po_underline = b "underline";
    po_math_dollars = b "math_dollars"; po_math_code = b "math_code";
    po_wikilinks_after = b "wikilinks_title_after_pipe"; po_wikilinks_before = b "wikilinks_title_before_pipe";
    po_tasklist = b "tasklist"; po_smart = b "smart";
    po_relaxed_autolinks = b "relaxed_autolinks"; po_relaxed_tasklist = b "relaxed_tasklist_matching";
    po_escaped_char_spans = b "escaped_char_spans"; po_ignore_empty_links = b "ignore_empty_links" }

(* one node header: the inline printer knows every kind but the payload of Alert, which the block printer has *)
let rec dump_tree (buf : Buffer.t) (M.Node (v, sp, ch)) =
  (match v with
   | M.Alert _ ->
     let (kind, fields) = D_blocks.value_fields v in
     let pn = D_inlines.pn in
     Buffer.add_string buf ("( " ^ kind ^ " " ^ String.concat " " [pn sp.M.sl; pn sp.M.sc; pn sp.M.el; pn sp.M.ec]);
     if fields <> "" then Buffer.add_string buf (" " ^ fields)
   | _ ->
     let b1 = Buffer.create 64 in
     D_inlines.dump_tree b1 (M.Node (v, sp, []));
     (* "( Kind .. fields )" without the closing " )" *)
     let s = Buffer.contents b1 in
     Buffer.add_string buf (String.sub s 0 (String.length s - 2)));
  List.iter (fun c -> Buffer.add_char buf ' '; dump_tree buf c) ch;
  Buffer.add_string buf " )"

let () =
  register "parse_model" (fun a ->
      match a with
      | otok :: rest ->
        let o = parse_popts otok in
        let (u, rest) = D_inlines.take_oracle rest in
        (match rest with
         | [md] ->
           (match M.parse_document_model o u (bytes_of_hex md) with
            | M.Ok t -> let b = Buffer.create 1024 in dump_tree b t; "ok " ^ Buffer.contents b
            | M.Panic s -> D_blocks.pr_site s
            | M.OutOfFuel -> "fuel")
         | _ -> "err args")
      | _ -> "err args")
