(* driver.ml — runs the extracted Coq models / spec predicates, one case per input line.
   line:   <fn> <hexarg>*        (an empty byte string is written "-")
   output: one line per case:    ok <hex>* | panic <site> | fuel | none | err <msg>
   Functions are registered by the d_*.ml component files (Dcore.register). *)
let () =
  Dcore.self_check ();
  (try
     while true do
       let line = input_line stdin in
       let toks = String.split_on_char ' ' line |> List.filter (fun s -> s <> "") in
       match toks with
       | [] -> print_endline "err empty"
       | fn :: args ->
         let out = (try
                      (match Hashtbl.find_opt Dcore.registry fn with
                       | Some f -> f args
                       | None -> "err unknown-fn")
                    with
                    | Stack_overflow -> "err stack_overflow"
                    | e -> "err " ^ Printexc.to_string e) in
         print_endline out
     done
   with End_of_file -> ())
