(* d_arena.ml — C04 (links): the arena_tree model.
   arena <n> <tok>*       (dbg = true: debug_assert! evaluated)     arena_rel <n> <tok>*   (dbg = false)
        tokens a:i:j p:i:j ia:i:j ib:i:j d:i ; output as harness/src/ops_arena.rs:
        ok <dump>* [!<site>]
   arena_wf <n> <dump>        Arena.wf_b on a dump (of the implementation)      -> ok 1 | ok 0
   arena_acyclic <n> <dump>   Arena.acyclic_b                                   -> ok 1 | ok 0 *)
open Dcore

let rec nat_of_int i = if i <= 0 then M.O else M.S (nat_of_int (i - 1))
let rec int_of_nat = function M.O -> 0 | M.S n -> 1 + int_of_nat n

let pr_link = function None -> "-" | Some i -> string_of_int (int_of_nat i)
let pr_dump (d : M.id option list list) : string =
  String.concat ";" (List.map (fun c -> String.concat "," (List.map pr_link c)) d)

let parse_link s = if s = "-" then None else Some (nat_of_int (int_of_string s))
let parse_dump (s : string) : M.id option list list =
  List.map (fun c -> List.map parse_link (String.split_on_char ',' c)) (String.split_on_char ';' s)

let parse_op (n : int) (tok : string) : M.op =
  let ix s = let v = int_of_string s in if v < 0 || v >= n then failwith "index" else nat_of_int v in
  match String.split_on_char ':' tok with
  | ["a"; i; j] -> M.Append (ix i, ix j)
  | ["p"; i; j] -> M.Prepend (ix i, ix j)
  | ["ia"; i; j] -> M.InsertAfter (ix i, ix j)
  | ["ib"; i; j] -> M.InsertBefore (ix i, ix j)
  | ["d"; i] -> M.Detach (ix i)
  | _ -> failwith "bad op"

let arena dbg args =
  match args with
  | [] -> "err arena: missing n"
  | ns :: toks ->
    let n = int_of_string ns in
    let ops = List.map (parse_op n) toks in
    let (hs, e) = M.trace dbg M.init ops in
    let nn = nat_of_int n in
    let b = Buffer.create 256 in
    Buffer.add_string b "ok";
    List.iter (fun h -> Buffer.add_char b ' '; Buffer.add_string b (pr_dump (M.dump nn h))) hs;
    (match e with Some s -> Buffer.add_string b (" !" ^ ocaml_string_of_coq s) | None -> ());
    Buffer.contents b

let () =
  register "arena" (arena true);
  register "arena_rel" (arena false);
  register "arena_wf" (fun a -> pr_bool (M.wf_b (nat_of_int (int_of_string (List.nth a 0))) (M.heap_of_dump (parse_dump (List.nth a 1)))));
  register "arena_acyclic" (fun a -> pr_bool (M.acyclic_b (nat_of_int (int_of_string (List.nth a 0))) (M.heap_of_dump (parse_dump (List.nth a 1)))))
