(* d_xml.ml — C09: the XML renderer model, the XML reader and the mirror of a node tree *)
open Dcore

let rec int_of_nat = function M.O -> 0 | M.S n -> 1 + int_of_nat n
let int_of_nat n = let rec go acc = function M.O -> acc | M.S m -> go (acc + 1) m in go 0 n

let rec show_xtree (b : Buffer.t) (x : M.xtree) : unit =
  let attrs l = List.iter (fun (k, v) -> Buffer.add_string b (" " ^ hex_of_bytes k ^ "=" ^ hex_of_bytes v)) l in
  match x with
  | M.XElem (n, a, cs) ->
    Buffer.add_string b ("( E " ^ hex_of_bytes n); attrs a;
    List.iter (fun c -> Buffer.add_char b ' '; show_xtree b c) cs;
    Buffer.add_string b " )"
  | M.XText (n, a, t) ->
    Buffer.add_string b ("( T " ^ hex_of_bytes n); attrs a;
    Buffer.add_string b (" : " ^ hex_of_bytes t ^ " )")

let str_xtree x = let b = Buffer.create 256 in show_xtree b x; Buffer.contents b

(* first difference between two element trees, as a path of child indices *)
let rec diff (path : string) (a : M.xtree) (b : M.xtree) : string option =
  let name = function M.XElem (n, _, _) | M.XText (n, _, _) -> n in
  let att = function M.XElem (_, l, _) | M.XText (_, l, _) -> l in
  if name a <> name b then Some (path ^ ":name:" ^ hex_of_bytes (name a) ^ "/" ^ hex_of_bytes (name b))
  else if att a <> att b then
    Some (path ^ ":attrs:" ^ String.concat "," (List.map (fun (k, v) -> hex_of_bytes k ^ "=" ^ hex_of_bytes v) (att a))
          ^ "/" ^ String.concat "," (List.map (fun (k, v) -> hex_of_bytes k ^ "=" ^ hex_of_bytes v) (att b)))
  else match a, b with
    | M.XText (_, _, t), M.XText (_, _, u) -> if t = u then None else Some (path ^ ":text:" ^ hex_of_bytes t ^ "/" ^ hex_of_bytes u)
    | M.XElem (_, _, cs), M.XElem (_, _, ds) ->
      if List.length cs <> List.length ds then Some (path ^ ":arity:" ^ string_of_int (List.length cs) ^ "/" ^ string_of_int (List.length ds))
      else
        let rec go i = function
          | c :: cr, d :: dr -> (match diff (path ^ "." ^ string_of_int i) c d with Some s -> Some s | None -> go (i + 1) (cr, dr))
          | _ -> None in
        go 0 (cs, ds)
    | _ -> Some (path ^ ":content-kind")

let () =
  (* xml <opts> <tree tokens> *)
  register "xml" (fun a ->
      let o = D_0tree.parse_opts (List.hd a) in
      let (t, _) = D_0tree.parse_tree (List.tl a) in
      pr_res hex_of_bytes (M.xml o t));
  (* render xml <opts> <tree tokens>: same line as the harness op, so that ./check replay can run one
     case on both sides; other formats are left to whoever registered them before *)
  let prev = Hashtbl.find_opt registry "render" in
  register "render" (fun a ->
      match a with
      | "xml" :: o :: toks ->
        let (t, _) = D_0tree.parse_tree toks in
        pr_res hex_of_bytes (M.xml (D_0tree.parse_opts o) t)
      | _ -> (match prev with Some f -> f a | None -> "err unknown-fn"));
  register "xml_escape" (fun a -> pr_res hex_of_bytes (M.xml_escape (arg a 0)));
  register "xml_read" (fun a -> match M.xml_read (arg a 0) with Some x -> "ok " ^ str_xtree x | None -> "none");
  register "tree_to_xtree" (fun a ->
      let o = D_0tree.parse_opts (List.hd a) in
      let (t, _) = D_0tree.parse_tree (List.tl a) in
      "ok " ^ str_xtree (M.tree_to_xtree o t));
  (* xml_check <opts> <xml hex> <tree tokens> -> ok read=? mirror=? cells=? leaves=? indent=? [diff] *)
  register "xml_check" (fun a ->
      let o = D_0tree.parse_opts (List.nth a 0) in
      let x = arg a 1 in
      let (t, _) = D_0tree.parse_tree (List.tl (List.tl a)) in
      let cells = M.cells_ok t and leaves = M.literal_leaves t in
      let ind = int_of_nat (M.max_tag_indent x) in
      let b01 v = if v then "1" else "0" in
      let (rd, mir, d) = match M.xml_read x with
        | None -> (false, false, "")
        | Some r -> (match diff "r" r (M.tree_to_xtree o t) with None -> (true, true, "") | Some s -> (true, false, " diff=" ^ s)) in
      Printf.sprintf "ok read=%s mirror=%s cells=%s leaves=%s indent=%d%s" (b01 rd) (b01 mir) (b01 cells) (b01 leaves) ind d)
