(* d_scan.ml — Layer C / scanners: scan <fn> <hex>  (same answers as harness/src/ops_scan.rs) *)
open Dcore

let rec int_of_nat = function M.O -> 0 | M.S n -> 1 + int_of_nat n
let ou = function Some n -> "ok " ^ string_of_int (int_of_nat n) | None -> "none"
let alert = function
  | Some M.Note -> "ok 0" | Some M.Tip -> "ok 1" | Some M.Important -> "ok 2"
  | Some M.Warning -> "ok 3" | Some M.Caution -> "ok 4" | None -> "none"
let setext = function Some M.SetextEquals -> "ok 0" | Some M.SetextHyphen -> "ok 1" | None -> "none"

let table : (string * (M.byte list -> string)) list = [
  "atx_heading_start", (fun s -> ou (M.scan_atx_heading_start s));
  "open_code_fence", (fun s -> ou (M.scan_open_code_fence s));
  "close_code_fence", (fun s -> ou (M.scan_close_code_fence s));
  "html_block_start", (fun s -> ou (M.scan_html_block_start s));
  "html_block_start_7", (fun s -> ou (M.scan_html_block_start_7 s));
  "footnote_definition", (fun s -> ou (M.scan_footnote_definition s));
  "scheme", (fun s -> ou (M.scan_scheme s));
  "autolink_uri", (fun s -> ou (M.scan_autolink_uri s));
  "autolink_email", (fun s -> ou (M.scan_autolink_email s));
  "html_tag", (fun s -> ou (M.scan_html_tag s));
  "html_comment", (fun s -> ou (M.scan_html_comment s));
  "html_processing_instruction", (fun s -> ou (M.scan_html_processing_instruction s));
  "html_declaration", (fun s -> ou (M.scan_html_declaration s));
  "html_cdata", (fun s -> ou (M.scan_html_cdata s));
  "spacechars", (fun s -> ou (M.scan_spacechars s));
  "link_title", (fun s -> ou (M.scan_link_title s));
  "dangerous_url", (fun s -> ou (M.scan_dangerous_url s));
  "table_start", (fun s -> ou (M.scan_table_start s));
  "table_cell_end", (fun s -> ou (M.scan_table_cell_end s));
  "table_row_end", (fun s -> ou (M.scan_table_row_end s));
  "open_multiline_block_quote_fence", (fun s -> ou (M.scan_open_multiline_block_quote_fence s));
  "close_multiline_block_quote_fence", (fun s -> ou (M.scan_close_multiline_block_quote_fence s));
  "description_item_start", (fun s -> ou (M.scan_description_item_start s));
  "shortcode", (fun s -> ou (M.scan_shortcode s));
  "html_block_end_1", (fun s -> pr_bool (M.scan_html_block_end_1 s));
  "html_block_end_2", (fun s -> pr_bool (M.scan_html_block_end_2 s));
  "html_block_end_3", (fun s -> pr_bool (M.scan_html_block_end_3 s));
  "html_block_end_4", (fun s -> pr_bool (M.scan_html_block_end_4 s));
  "html_block_end_5", (fun s -> pr_bool (M.scan_html_block_end_5 s));
  "table_cell", (fun s -> ou (M.scan_table_cell s false));
  "table_cell_spoiler", (fun s -> ou (M.scan_table_cell s true));
  "alert_start", (fun s -> alert (M.scan_alert_start s));
  "setext_heading_line", (fun s -> setext (M.scan_setext_heading_line s));
  "tasklist", (fun s -> match M.scan_tasklist s with
    | M.Ok (Some (n, b)) -> Printf.sprintf "ok %d %02x" (int_of_nat n) (int_of_byte b)
    | M.Ok None -> "none"
    | M.Panic site -> "panic " ^ ocaml_string_of_coq site
    | M.OutOfFuel -> "fuel");
]

let () =
  register "scan" (fun a ->
    match a with
    | [fn; h] -> (match List.assoc_opt fn table with
        | Some f -> f (bytes_of_hex h)
        | None -> "err unknown-scanner")
    | _ -> "err usage: scan <fn> <hex>");
  (* size of the derivative term after reading the input: watch for term growth *)
  register "scan_size" (fun a ->
    match a with
    | [fn; h] ->
      (match List.find_opt (fun (k, _) -> ocaml_string_of_coq k = fn) M.scanner_rules with
       | Some (_, rules) ->
         let s = bytes_of_hex h in
         "ok " ^ String.concat " " (List.map (fun r -> string_of_int (int_of_nat (M.re_size (M.deriv_all (M.rule_re r) s)))) rules)
       | None -> "err unknown-scanner")
    | _ -> "err usage")
