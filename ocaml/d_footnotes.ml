(* d_footnotes.ml — C15: footnote pass.  Trees arrive in the harness's token format
   ( Kind sl sc el ec field* child* ).  Only the kinds the footnote pass looks at keep their payload
   (FootnoteDefinition, FootnoteReference, Text, Code, HtmlInline, Heading); payload-free kinds map to
   themselves; every other kind with a payload is read as BlockQuote (the pass treats all of them alike:
   descend into the children).  Results are compared on the footnote skeleton only. *)
open Dcore

let sp_of a b c d = { M.sl = n_of_int a; M.sc = n_of_int b; M.el = n_of_int c; M.ec = n_of_int d }

let value_of kind (f : string list) : M.node_value =
  match kind, f with
  | "Document", _ -> M.Document
  | "BlockQuote", _ -> M.BlockQuote
  | "DescriptionList", _ -> M.DescriptionList
  | "DescriptionTerm", _ -> M.DescriptionTerm
  | "DescriptionDetails", _ -> M.DescriptionDetails
  | "Paragraph", _ -> M.Paragraph
  | "ThematicBreak", _ -> M.ThematicBreak
  | "TableCell", _ -> M.TableCell
  | "SoftBreak", _ -> M.SoftBreak
  | "LineBreak", _ -> M.LineBreak
  | "Emph", _ -> M.Emph
  | "Strong", _ -> M.Strong
  | "Strikethrough", _ -> M.Strikethrough
  | "Superscript", _ -> M.Superscript
  | "Escaped", _ -> M.Escaped
  | "Underline", _ -> M.Underline
  | "Subscript", _ -> M.Subscript
  | "SpoileredText", _ -> M.SpoileredText
  | "Text", [l] -> M.Text (bytes_of_hex l)
  | "HtmlInline", [l] -> M.HtmlInline (bytes_of_hex l)
  | "Code", [k; l] -> M.Code (n_of_int (int_of_string k), bytes_of_hex l)
  | "Heading", [l; s] -> M.Heading (n_of_int (int_of_string l), s = "1")
  | "FootnoteDefinition", [name; t] -> M.FootnoteDefinition (bytes_of_hex name, n_of_int (int_of_string t))
  | "FootnoteReference", [name; r; i] ->
    M.FootnoteReference (bytes_of_hex name, n_of_int (int_of_string r), n_of_int (int_of_string i))
  | _ -> M.BlockQuote

(* returns (node, rest) *)
let rec parse_node (toks : string list) : M.node * string list =
  match toks with
  | "(" :: kind :: a :: b :: c :: d :: rest ->
    let rec fields acc = function
      | (("(" | ")") :: _) as r -> (List.rev acc, r)
      | x :: r -> fields (x :: acc) r
      | [] -> failwith "unterminated node" in
    let f, rest = fields [] rest in
    let rec kids acc = function
      | ")" :: r -> (List.rev acc, r)
      | r -> let k, r' = parse_node r in kids (k :: acc) r' in
    let ch, rest = kids [] rest in
    (M.Node (value_of kind f, sp_of (int_of_string a) (int_of_string b) (int_of_string c) (int_of_string d), ch), rest)
  | _ -> failwith "expected ("

let parse_tree toks = let t, r = parse_node toks in if r <> [] then failwith "trailing tokens"; t

(* footnote skeleton, document order: D <name> <total> <depth>  /  R <name> <ref_num> <ix> *)
let skeleton (t : M.node) : string =
  let b = Buffer.create 256 in
  let rec go depth (M.Node (v, _, ch)) =
    (match v with
     | M.FootnoteDefinition (name, tot) ->
       Buffer.add_string b (Printf.sprintf " D %s %d %d" (hex_of_bytes name) (int_of_n tot) depth)
     | M.FootnoteReference (name, r, i) ->
       Buffer.add_string b (Printf.sprintf " R %s %d %d" (hex_of_bytes name) (int_of_n r) (int_of_n i))
     | _ -> ());
    List.iter (go (depth + 1)) ch in
  go 0 t; Buffer.contents b

(* <raw> <fold> <pres> triples up to "|" *)
let rec split_table acc = function
  | "|" :: r -> (List.rev acc, r)
  | a :: f :: p :: r -> split_table ((bytes_of_hex a, bytes_of_hex f, bytes_of_hex p) :: acc) r
  | _ -> failwith "bad label table"

let fns table =
  let fold x = match List.find_opt (fun (a, _, _) -> a = x) table with Some (_, f, _) -> f | None -> x in
  let pres x = match List.find_opt (fun (a, _, _) -> a = x) table with Some (_, _, p) -> p | None -> x in
  (fold, pres)

let bit b = if b then "1" else "0"

let () =
  (* fn_process <table> | <tree>  ->  ok <skeleton of process with into_values order = map order>
                                       | <same with the reversed order> *)
  register "fn_process" (fun a ->
    let table, toks = split_table [] a in
    let fold, pres = fns table in
    let t = parse_tree toks in
    let r1 = M.process fold pres (fun l -> l) t in
    let r2 = M.process fold pres List.rev t in
    "ok" ^ skeleton r1 ^ " |" ^ skeleton r2);
  (* fn_classes <table> | <pre-tree> -> ok <no_ref_in_dropped_def> <no_nested_defs> *)
  register "fn_classes" (fun a ->
    let table, toks = split_table [] a in
    let fold, _ = fns table in
    let t = parse_tree toks in
    "ok " ^ bit (M.no_ref_in_dropped_def fold t) ^ " " ^ bit (M.no_nested_defs t));
  (* fn_spec <tree> -> ok <defs_at_root_tail> <refs_resolve> <defs_once_and_referenced> <backrefs_exact> <nested_def> <backrefs_subset> *)
  register "fn_spec" (fun a ->
    let t = parse_tree a in
    "ok " ^ String.concat " " (List.map bit
      [M.defs_at_root_tail t; M.refs_resolve t; M.defs_once_and_referenced t; M.backrefs_exact t; M.nested_def t; M.backrefs_subset t]));
  (* fn_skeleton <tree> -> ok <skeleton> *)
  register "fn_skeleton" (fun a -> "ok" ^ skeleton (parse_tree a))
