(* d_shape.ml — Spec/Shape.v tree-shape clauses on a dumped tree, and the event-level C10 predicate
   on the model's events.
   shape <tree tokens>                          -> ok <s2><s3><s6><s6w>   (one byte 00/01 each)
   events_nested <opts> <nslugs> (<hexheader> <hexslug>)* <tree tokens>  -> ok 1 | ok 0 | panic .. *)
open Dcore

let () =
  register "shape" (fun a ->
      let (t, _) = D_0tree.parse_tree a in
      let b x = if x then "01" else "00" in
      "ok " ^ b (M.s2 t) ^ b (M.s3 t) ^ b (M.s6 t) ^ b (M.s6w t));
  register "events_nested" (fun a ->
      let o = D_0tree.parse_opts (List.hd a) in
      let (slug, rest) = D_html.take_slugs (List.tl a) in
      let (t, _) = D_0tree.parse_tree rest in
      pr_res (fun e -> if M.well_nested e then "1" else "0") (M.events slug o t))
