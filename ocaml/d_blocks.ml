(* d_blocks.ml — Layer C, block phase: runs Model/Blocks.v parse_blocks and prints the tree in EXACTLY the token
   format of harness/src/ops_blocks.rs:
     blocks <opts> <mdhex> -> ok <tree>      every node: ( Kind sl sc el ec fields.. C<hex> O<0/1> B<0/1> I<n> L<a,b,..|-> kids.. )
     blocks_refs <opts> <mdhex> -> ok <max_ref_size> (<label> <url> <title>)*      (the reference map, insertion order)
   The case-fold oracle of normalize_label is instantiated by ASCII lower-casing (exact on ASCII labels; the
   reference map is not visible in the block-phase tree). *)
open Dcore

let rec int_of_nat = function M.O -> 0 | M.S n -> 1 + int_of_nat n

let b01 b = if b then "1" else "0"
let pn n = string_of_int (int_of_n n)
let pnat n = string_of_int (int_of_nat n)
let hb = hex_of_bytes

let parse_bopts (tok : string) : M.bopts =
  let tbl = Hashtbl.create 16 in
  if tok <> "-" && tok <> "" then
    List.iter (fun kv ->
        match String.index_opt kv '=' with
        | Some i -> Hashtbl.replace tbl (String.sub kv 0 i) (String.sub kv (i + 1) (String.length kv - i - 1))
        | None -> Hashtbl.replace tbl kv "1") (String.split_on_char ',' tok);
  let b k = (match Hashtbl.find_opt tbl k with Some "1" -> true | _ -> false) in
  let s k = (match Hashtbl.find_opt tbl k with Some v -> Some (bytes_of_hex v) | None -> None) in
  let fold (v : M.byte list) : M.byte list =
    List.map (fun x -> let i = int_of_byte x in if i >= 65 && i <= 90 then byte_of_int (i + 32) else x) v in
  { M.bo_table = b "table"; bo_footnotes = b "footnotes"; bo_description_lists = b "description_lists";
    bo_multiline_block_quotes = b "multiline_block_quotes"; bo_alerts = b "alerts"; bo_spoiler = b "spoiler";
    bo_greentext = b "greentext"; bo_ignore_setext = b "ignore_setext";
    bo_front_matter_delimiter = s "front_matter_delimiter"; bo_default_info_string = s "default_info_string";
    bo_fold = fold }

let list_fields (l : M.node_list) =
  String.concat " " [ (match l.M.l_type with M.Ordered -> "o" | M.Bullet -> "b"); pn l.M.l_marker_offset; pn l.M.l_padding;
                      pn l.M.l_start; (match l.M.l_delim with M.Paren -> "r" | M.Period -> "p"); pn l.M.l_bullet;
                      b01 l.M.l_tight; b01 l.M.l_task ]

let value_fields (v : M.node_value) : string * string =
  match v with
  | M.Document -> ("Document", "")
  | M.FrontMatter s -> ("FrontMatter", hb s)
  | M.BlockQuote -> ("BlockQuote", "")
  | M.NList l -> ("List", list_fields l)
  | M.Item l -> ("Item", list_fields l)
  | M.DescriptionList -> ("DescriptionList", "")
  | M.DescriptionItem (mo, pad, t) -> ("DescriptionItem", String.concat " " [pn mo; pn pad; b01 t])
  | M.DescriptionTerm -> ("DescriptionTerm", "")
  | M.DescriptionDetails -> ("DescriptionDetails", "")
  | M.CodeBlock cb -> ("CodeBlock", String.concat " " [b01 cb.M.cb_fenced; pn cb.M.cb_fence_char; pn cb.M.cb_fence_length;
                                                        pn cb.M.cb_fence_offset; hb cb.M.cb_info; hb cb.M.cb_literal])
  | M.HtmlBlock (t, l) -> ("HtmlBlock", pn t ^ " " ^ hb l)
  | M.Paragraph -> ("Paragraph", "")
  | M.Heading (l, s) -> ("Heading", pn l ^ " " ^ b01 s)
  | M.ThematicBreak -> ("ThematicBreak", "")
  | M.FootnoteDefinition (n, t) -> ("FootnoteDefinition", hb n ^ " " ^ pn t)
  | M.Table t -> ("Table", String.concat " " [pn t.M.t_cols; pn t.M.t_rows; pn t.M.t_nonempty;
                                               (if t.M.t_aligns = [] then "-" else
                                                  String.concat "" (List.map (function M.ALeft -> "l" | M.ACenter -> "c" | M.ARight -> "r" | M.ANone -> "n") t.M.t_aligns))])
  | M.TableRow h -> ("TableRow", b01 h)
  | M.TableCell -> ("TableCell", "")
  | M.MultilineBlockQuote (a, b) -> ("MultilineBlockQuote", pn a ^ " " ^ pn b)
  | M.Alert a ->
    ("Alert", String.concat " " [ (match a.M.a_type with M.Note -> "0" | M.Tip -> "1" | M.Important -> "2" | M.Warning -> "3" | M.Caution -> "4");
                                  (match a.M.a_title with None -> "n" | Some t -> "s" ^ hb t);
                                  b01 a.M.a_multiline; pn a.M.a_fence_length; pn a.M.a_fence_offset ])
  | _ -> ("Other", "")

let rec dump (buf : Buffer.t) (M.BNode (i, ch)) =
  let (kind, fields) = value_fields i.M.bi_val in
  if Buffer.length buf > 0 then Buffer.add_char buf ' ';
  Buffer.add_string buf ("( " ^ kind ^ " " ^ String.concat " " [pnat i.M.bi_sl; pnat i.M.bi_sc; pnat i.M.bi_el; pnat i.M.bi_ec]);
  if fields <> "" then Buffer.add_string buf (" " ^ fields);
  Buffer.add_string buf (Printf.sprintf " C%s O%s B%s I%s L%s" (hb i.M.bi_content) (b01 i.M.bi_open) (b01 i.M.bi_llb)
                           (pnat i.M.bi_ioff)
                           (if i.M.bi_lo = [] then "-" else String.concat "," (List.map pnat i.M.bi_lo)));
  List.iter (dump buf) ch;
  Buffer.add_string buf " )"

let pr_site s =
  let s = ocaml_string_of_coq s in
  let p = "OutOfScope:" in
  if String.length s >= String.length p && String.sub s 0 (String.length p) = p
  then "oos " ^ String.sub s (String.length p) (String.length s - String.length p)
  else "panic " ^ s

let () =
  register "blocks" (fun a ->
      let o = parse_bopts (List.nth a 0) in
      match M.parse_blocks o (arg a 1) with
      | M.Ok r -> let b = Buffer.create 1024 in dump b r.M.br_root; "ok " ^ Buffer.contents b
      | M.Panic s -> pr_site s
      | M.OutOfFuel -> "fuel");
  register "blocks_refs" (fun a ->
      let o = parse_bopts (List.nth a 0) in
      match M.parse_blocks o (arg a 1) with
      | M.Ok r ->
        "ok " ^ pn r.M.br_max_ref_size ^
        String.concat "" (List.map (fun (k, (u, t)) -> " " ^ hb k ^ " " ^ hb u ^ " " ^ hb t) r.M.br_refmap)
      | M.Panic s -> pr_site s
      | M.OutOfFuel -> "fuel")
