(* d_sp.ml — C18: Spec/SpSpec.v deletions and comparisons, run on the implementation's real output *)
open Dcore

let () =
  register "strip_sp_pat" (fun a -> "ok " ^ hex_of_bytes (M.strip_sp_pat (arg a 0)));
  register "sp_deleted" (fun a -> pr_bool (M.sp_deleted (arg a 0) (arg a 1)));
  register "strip_xml_sourcepos" (fun a -> pr_opt hex_of_bytes (M.strip_xml_sourcepos (arg a 0)));
  (* html_sp_check <on> <off> -> ok <code>   (codes: Spec/SpSpec.v) *)
  register "html_sp_check" (fun a -> pr_n (M.html_sp_check (arg a 0) (arg a 1)));
  register "xml_sp_check" (fun a -> pr_n (M.xml_sp_check (arg a 0) (arg a 1)));
  register "xml_sp_tree_check" (fun a -> pr_n (M.xml_sp_tree_check (arg a 0) (arg a 1)))
