(* d_caps.ml — C06: the cap models of Model/Caps.v
   ref_lookups <total> <k> (<label> <url> <title>){k} <lab>*   ->  ok <0/1 per lookup> <ref_size>
   tbl_rows <ncols> <cells of row>*                            ->  ok <rows accepted incl. header> <autocompleted cells created> *)
open Dcore

let () =
  register "ref_lookups" (fun a ->
    let total = n_of_int (int_of_string (List.nth a 0)) in
    let k = int_of_string (List.nth a 1) in
    let rec ents i = if i = k then [] else
        (bytes_of_hex (List.nth a (2 + 3*i)), (bytes_of_hex (List.nth a (3 + 3*i)), bytes_of_hex (List.nth a (4 + 3*i)))) :: ents (i + 1) in
    let rec drop n l = if n = 0 then l else drop (n - 1) (List.tl l) in
    let labs = List.map bytes_of_hex (drop (2 + 3*k) a) in
    match M.document_lookups (ents 0) total labs with
    | M.Ok (ans, r) ->
      "ok " ^ (if ans = [] then "-" else String.concat "" (List.map (function Some _ -> "1" | None -> "0") ans))
      ^ " " ^ string_of_int (int_of_n r.M.rm_size)
    | M.Panic s -> "panic " ^ ocaml_string_of_coq s
    | M.OutOfFuel -> "fuel");
  register "tbl_rows" (fun a ->
    let ncols = n_of_int (int_of_string (List.hd a)) in
    let rows = List.map (fun x -> n_of_int (int_of_string x)) (List.tl a) in
    let (t, created) = M.feed_rows (M.open_header ncols) rows M.N0 in
    "ok " ^ string_of_int (int_of_n t.M.tb_rows) ^ " " ^ string_of_int (int_of_n created))
