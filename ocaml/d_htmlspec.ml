(* d_htmlspec.ml — Spec/HtmlSpec.v byte-level checks, run on the implementation's real output *)
open Dcore

let () =
  register "html_safe_check" (fun a -> pr_n (M.html_safe_check (arg a 0)));
  register "html_balanced_check" (fun a -> pr_n (M.html_balanced_check (arg a 0)));
  register "strip_sourcepos" (fun a -> pr_opt hex_of_bytes (M.strip_sourcepos (arg a 0)));
  register "relex_identity" (fun a -> pr_bool (M.relex_identity (arg a 0)));
  register "dangerous_spec" (fun a -> pr_bool (M.dangerous_spec (arg a 0)));
  register "dangerous_model" (fun a -> pr_bool (M.dangerous_url (arg a 0)));
  (* treepred <tree tokens> -> ok <s2><s3><s4><s6><s6w><s7> : the shape clauses the HTML theorems assume *)
  register "treepred" (fun a ->
      let (t, _) = D_0tree.parse_tree a in
      let b x = if x then "1" else "0" in
      "ok " ^ b (M.s2 t) ^ b (M.s3 t) ^ b (M.s4 t) ^ b (M.s6 t) ^ b (M.s6w t) ^ b (M.s7 t))
