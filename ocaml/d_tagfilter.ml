(* d_tagfilter.ml — C14: tagfilter models and the GFM filter spec *)
open Dcore

let flag a i = List.nth a i = "1"

let () =
  register "tagfilter" (fun a -> pr_res (fun b -> if b then "1" else "0") (M.tagfilter (arg a 0)));
  register "tagfilter_block" (fun a -> pr_res hex_of_bytes (M.tagfilter_block (arg a 0)));
  (* block_payload <escape> <unsafe> <tagfilter> <literal> *)
  register "block_payload" (fun a -> pr_res hex_of_bytes (M.html_block_payload (flag a 0) (flag a 1) (flag a 2) (arg a 3)));
  register "inline_payload" (fun a -> pr_res hex_of_bytes (M.html_inline_payload (flag a 0) (flag a 1) (flag a 2) (arg a 3)));
  register "disallowed_at" (fun a -> pr_bool (M.disallowed_at (arg a 0)));
  register "gfm_filter" (fun a -> "ok " ^ hex_of_bytes (M.gfm_filter (arg a 0)));
  register "lt_escape_first" (fun a -> "ok " ^ hex_of_bytes (M.lt_escape_first (arg a 0)));
  register "any_disallowed" (fun a -> pr_bool (M.any_disallowed (arg a 0)));
  register "lt_expansion" (fun a -> pr_bool (M.lt_expansion (arg a 0) (arg a 1)))
