(* dcore.ml — helpers and the dispatch registry of the driver.
   line:   <fn> <hexarg>*        (an empty byte string is written "-")
   output: one line per case:    ok <hex>* | panic <site> | fuel | none | err <msg>            *)
module M = Model

let byte_of_int (i : int) : M.byte = Obj.magic i
let int_of_byte (b : M.byte) : int = Obj.magic b

(* N -> int *)
let rec int_of_pos = function
  | M.XH -> 1
  | M.XO p -> 2 * int_of_pos p
  | M.XI p -> 2 * int_of_pos p + 1
let int_of_n = function M.N0 -> 0 | M.Npos p -> int_of_pos p
let rec pos_of_int i = if i = 1 then M.XH else if i land 1 = 0 then M.XO (pos_of_int (i lsr 1)) else M.XI (pos_of_int (i lsr 1))
let n_of_int i = if i = 0 then M.N0 else M.Npos (pos_of_int i)

let self_check () =
  for i = 0 to 255 do
    if int_of_n (M.to_N (byte_of_int i)) <> i then (prerr_endline "driver: byte mapping self-check failed"; exit 3)
  done

let hexval c = match c with
  | '0'..'9' -> Char.code c - 48
  | 'a'..'f' -> Char.code c - 87
  | 'A'..'F' -> Char.code c - 55
  | _ -> failwith "bad hex"

let bytes_of_hex (s : string) : M.byte list =
  if s = "-" then [] else begin
    let n = String.length s / 2 in
    let rec go i acc = if i < 0 then acc else
        go (i - 1) (byte_of_int (hexval s.[2*i] * 16 + hexval s.[2*i+1]) :: acc) in
    go (n - 1) []
  end

let hex_of_bytes (l : M.byte list) : string =
  if l = [] then "-" else begin
    let b = Buffer.create 64 in
    List.iter (fun x -> Buffer.add_string b (Printf.sprintf "%02x" (int_of_byte x))) l;
    Buffer.contents b
  end

let ocaml_string_of_coq (s : M.string) : string =
  let b = Buffer.create 16 in
  let rec go = function
    | M.EmptyString -> ()
    | M.String (a, r) ->
      (match a with M.Ascii (b0,b1,b2,b3,b4,b5,b6,b7) ->
         let v = (if b0 then 1 else 0) lor (if b1 then 2 else 0) lor (if b2 then 4 else 0) lor (if b3 then 8 else 0)
                 lor (if b4 then 16 else 0) lor (if b5 then 32 else 0) lor (if b6 then 64 else 0) lor (if b7 then 128 else 0) in
         Buffer.add_char b (Char.chr v));
      go r in
  go s; Buffer.contents b

let pr_res (f : 'a -> string) (r : 'a M.res) : string =
  match r with
  | M.Ok a -> "ok " ^ f a
  | M.Panic s -> "panic " ^ ocaml_string_of_coq s
  | M.OutOfFuel -> "fuel"

let pr_opt f = function Some a -> "ok " ^ f a | None -> "none"
let pr_bool b = if b then "ok 1" else "ok 0"


let pr_n (n : M.n) = "ok " ^ string_of_int (int_of_n n)

let registry : (string, string list -> string) Hashtbl.t = Hashtbl.create 64
let register (name : string) (f : string list -> string) = Hashtbl.replace registry name f
let arg (args : string list) (i : int) : M.byte list = bytes_of_hex (List.nth args i)
