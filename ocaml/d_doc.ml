(* d_doc.ml — C03: parser of the doc token format (tools/checks/c03.py writes it) into the extracted
   Spec/Doc.v `doc`, and the operations of the check:
     c03_doc <doc tokens>                 -> ok <canonical 0/1> <hex write d> <hex ref_html d> <model: 1 | 0 | panic...> <wf_doc 0/1>
                                             (last field: html std_opts (tree_of d) = Ok (ref_html d), evaluated)
     c03_tree <doc tokens> | <tree tokens> -> ok <0/1>   norm (tree_of d) = norm (parsed tree)
     c03_tree_dump <doc tokens>            -> ok <tree tokens of norm (tree_of d)>
     c03_norm_dump <tree tokens>           -> ok <tree tokens of norm t>
   token grammar (bytes in hex, "-" = empty):
     doc    ::= ( Doc first ( Defs def* ) block* )          def ::= ( Def label dest )
     dest   ::= url angle title          title ::= n | t<q><hex>
     inline ::= ( Str w ) | ( Esc c ) | ( Ent k ) | ( Sp ) | ( Soft ) | ( Hard b ) | ( Em us inline* )
              | ( Strong us inline* ) | ( Del inline* ) | ( Code t ) | ( Link dest inline* ) | ( Img dest inline* )
              | ( Ref img style label inline* ) | ( Auto email url ) | ( Foot label )
     block  ::= ( Para inline* ) | ( Atx lvl closing inline* ) | ( Setext lvl2 inline* ) | ( Hr c n sp )
              | ( Fence tilde len info line* ) | ( Indent line* ) | ( Quote block* ) | ( Bullet tight m block* )
              | ( Ordered tight start paren block* ) | ( Item task block* ) | ( Html k )
              | ( Table aligns row+ ) | ( Fn label block* )       row ::= ( Row cell* )   cell ::= ( Cell inline* ) *)
open Dcore

exception Doc_error of string

let rec nat_of_int i : M.nat = if i <= 0 then M.O else M.S (nat_of_int (i - 1))

let parse_doc (toks : string list) : M.doc * string list =
  let toks = ref toks in
  let next () = match !toks with [] -> raise (Doc_error "unexpected end") | t :: r -> toks := r; t in
  let peek () = match !toks with [] -> raise (Doc_error "unexpected end") | t :: _ -> t in
  let expect s = let t = next () in if t <> s then raise (Doc_error ("expected " ^ s ^ " got " ^ t)) in
  let bytes () = bytes_of_hex (next ()) in
  let boolean () = next () = "1" in
  let nat () = nat_of_int (int_of_string (next ())) in
  let dest () =
    let url = bytes () in let angle = boolean () in
    let t = next () in
    let title = if t = "n" then None else
        let q = Char.code t.[1] - 48 in
        let h = String.sub t 2 (String.length t - 2) in
        Some (nat_of_int q, bytes_of_hex (if h = "" then "-" else h)) in
    { M.d_url = url; d_angle = angle; d_title = title } in
  let rec many f acc = if peek () = ")" then (ignore (next ()); List.rev acc) else let x = f () in many f (x :: acc) in
  let rec inline () : M.inline =
    expect "(";
    let k = next () in
    match k with
    | "Str" -> let w = bytes () in expect ")"; M.IStr w
    | "Esc" -> let w = bytes () in expect ")"; M.IEsc (List.hd w)
    | "Ent" -> let n = nat () in expect ")"; M.IEnt n
    | "Sp" -> expect ")"; M.ISp
    | "Soft" -> expect ")"; M.ISoft
    | "Hard" -> let b = boolean () in expect ")"; M.IHard b
    | "Em" -> let us = boolean () in M.IEm (us, many inline [])
    | "Strong" -> let us = boolean () in M.IStrong (us, many inline [])
    | "Del" -> M.IDel (many inline [])
    | "Code" -> let t = bytes () in expect ")"; M.ICode t
    | "Link" -> let d = dest () in let l = many inline [] in M.ILink (l, d)
    | "Img" -> let d = dest () in let l = many inline [] in M.IImg (l, d)
    | "Ref" ->
      let img = boolean () in
      let st = (match next () with "f" -> M.RFull | "c" -> M.RCollapsed | _ -> M.RShortcut) in
      let lb = bytes () in
      let l = many inline [] in M.IRef (img, st, l, lb)
    | "Auto" -> let e = boolean () in let u = bytes () in expect ")"; M.IAuto (e, u)
    | "Foot" -> let lb = bytes () in expect ")"; M.IFoot lb
    | k -> raise (Doc_error ("unknown inline " ^ k)) in
  let cell () = expect "("; expect "Cell"; many inline [] in
  let row () = expect "("; expect "Row"; many cell [] in
  let rec block () : M.block0 =
    expect "(";
    let k = next () in
    match k with
    | "Para" -> M.BPara (many inline [])
    | "Atx" -> let l = nat () in let c = nat () in M.BAtx (l, c, many inline [])
    | "Setext" -> let l2 = boolean () in M.BSetext (l2, many inline [])
    | "Hr" -> let c = bytes () in let n = nat () in let sp = boolean () in expect ")"; M.BHr (List.hd c, n, sp)
    | "Fence" -> let t = boolean () in let len = nat () in let info = bytes () in
      let lines = many bytes [] in M.BFence (t, len, info, lines)
    | "Indent" -> M.BIndent (many bytes [])
    | "Quote" -> M.BQuote (many block [])
    | "Bullet" -> let t = boolean () in let m = bytes () in M.BBullet (t, List.hd m, many block [])
    | "Ordered" -> let t = boolean () in let s = n_of_int (int_of_string (next ())) in let p = boolean () in
      M.BOrdered (t, s, p, many block [])
    | "Item" -> let t = (match next () with "n" -> None | "1" -> Some true | _ -> Some false) in
      M.BItem (t, many block [])
    | "Html" -> let n = nat () in expect ")"; M.BHtml n
    | "Table" ->
      let al = next () in
      let aligns = if al = "-" then [] else
          List.init (String.length al) (fun i -> match al.[i] with
              | 'l' -> M.ALeft | 'c' -> M.ACenter | 'r' -> M.ARight | _ -> M.ANone) in
      (match many row [] with
       | [] -> raise (Doc_error "table without header")
       | h :: rows -> M.BTable (aligns, h, rows))
    | "Fn" -> let lb = bytes () in M.BFn (lb, many block [])
    | k -> raise (Doc_error ("unknown block " ^ k)) in
  let def () = expect "("; expect "Def"; let lb = bytes () in let d = dest () in expect ")";
    { M.rd_label = lb; rd_dest = d } in
  expect "("; expect "Doc";
  let first = boolean () in
  expect "("; expect "Defs";
  let defs = many def [] in
  let body = many block [] in
  ({ M.defs = defs; defs_first = first; body = body }, !toks)

(* ---- tree printer, same format as harness/src/tree.rs ---- *)
let b01 b = if b then "1" else "0"
let pn n = string_of_int (int_of_n n)
let list_fields (l : M.node_list) =
  String.concat " " [ (match l.M.l_type with M.Ordered -> "o" | M.Bullet -> "b"); pn l.M.l_marker_offset; pn l.M.l_padding;
                      pn l.M.l_start; (match l.M.l_delim with M.Paren -> "r" | M.Period -> "p"); pn l.M.l_bullet;
                      b01 l.M.l_tight; b01 l.M.l_task ]
let rec dump_tree (buf : Buffer.t) (M.Node (v, sp, ch)) =
  let hb = hex_of_bytes in
  let (kind, fields) = match v with
    | M.Document -> ("Document", "")
    | M.BlockQuote -> ("BlockQuote", "")
    | M.NList l -> ("List", list_fields l)
    | M.Item l -> ("Item", list_fields l)
    | M.CodeBlock cb -> ("CodeBlock", String.concat " " [b01 cb.M.cb_fenced; pn cb.M.cb_fence_char; pn cb.M.cb_fence_length;
                                                          pn cb.M.cb_fence_offset; hb cb.M.cb_info; hb cb.M.cb_literal])
    | M.HtmlBlock (t, l) -> ("HtmlBlock", pn t ^ " " ^ hb l)
    | M.Paragraph -> ("Paragraph", "")
    | M.Heading (l, s) -> ("Heading", pn l ^ " " ^ b01 s)
    | M.ThematicBreak -> ("ThematicBreak", "")
    | M.FootnoteDefinition (n, t) -> ("FootnoteDefinition", hb n ^ " " ^ pn t)
    | M.Table t -> ("Table", String.concat " " [pn t.M.t_cols; pn t.M.t_rows; pn t.M.t_nonempty;
                                                 (if t.M.t_aligns = [] then "-" else
                                                    String.concat "" (List.map (function M.ALeft -> "l" | M.ACenter -> "c" | M.ARight -> "r" | M.ANone -> "n") t.M.t_aligns))])
    | M.TableRow h -> ("TableRow", b01 h)
    | M.TableCell -> ("TableCell", "")
    | M.Text l -> ("Text", hb l)
    | M.TaskItem s -> ("TaskItem", (match s with None -> "n" | Some x -> "s" ^ (if x = [] then "" else hb x)))
    | M.SoftBreak -> ("SoftBreak", "")
    | M.LineBreak -> ("LineBreak", "")
    | M.Code (n, l) -> ("Code", pn n ^ " " ^ hb l)
    | M.HtmlInline l -> ("HtmlInline", hb l)
    | M.Emph -> ("Emph", "")
    | M.Strong -> ("Strong", "")
    | M.Strikethrough -> ("Strikethrough", "")
    | M.Link (u, t) -> ("Link", hb u ^ " " ^ hb t)
    | M.Image (u, t) -> ("Image", hb u ^ " " ^ hb t)
    | M.FootnoteReference (n, r, i) -> ("FootnoteReference", hb n ^ " " ^ pn r ^ " " ^ pn i)
    | _ -> ("Other", "") in
  Buffer.add_string buf ("( " ^ kind ^ " " ^ String.concat " " [pn sp.M.sl; pn sp.M.sc; pn sp.M.el; pn sp.M.ec]);
  if fields <> "" then Buffer.add_string buf (" " ^ fields);
  List.iter (fun c -> Buffer.add_char buf ' '; dump_tree buf c) ch;
  Buffer.add_string buf " )"
let tree_string t = let b = Buffer.create 256 in dump_tree b t; Buffer.contents b

let rec split_bar acc = function
  | "|" :: r -> (List.rev acc, r)
  | x :: r -> split_bar (x :: acc) r
  | [] -> (List.rev acc, [])

let () =
  register "c03_doc" (fun a ->
      let (d, _) = parse_doc a in
      let c = M.canonical d in
      let w = M.write d in
      let h = M.ref_html d in
      let m = (match M.html (fun _ -> []) M.std_opts (M.tree_of d) with
          | M.Ok x -> if x = h then "1" else "0:" ^ hex_of_bytes x
          | M.Panic s -> "panic:" ^ ocaml_string_of_coq s
          | M.OutOfFuel -> "fuel") in
      Printf.sprintf "ok %s %s %s %s %s" (b01 c) (hex_of_bytes w) (hex_of_bytes h) m (b01 (M.wf_doc d)));
  register "c03_tree" (fun a ->
      let (dt, tt) = split_bar [] a in
      let (d, _) = parse_doc dt in
      let (t, _) = D_0tree.parse_tree tt in
      pr_bool (M.norm (M.tree_of d) = M.norm t));
  register "c03_tree_dump" (fun a -> let (d, _) = parse_doc a in "ok " ^ tree_string (M.norm (M.tree_of d)));
  register "c03_norm_dump" (fun a -> let (t, _) = D_0tree.parse_tree a in "ok " ^ tree_string (M.norm t))
