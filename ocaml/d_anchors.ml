(* d_anchors.ml — C15: heading anchors.  `slug` of Model/Anchor.v is instantiated with the ASCII-only
   slug_ascii; callers send ASCII headers only. *)
open Dcore

let () =
  (* anchorize <header>* -> ok <id>*   (one Anchorizer, headers in order) *)
  register "anchorize" (fun a ->
    match M.anchorize_all M.slug_ascii [] (List.map bytes_of_hex a) with
    | M.Ok (_, ids) -> "ok" ^ String.concat "" (List.map (fun i -> " " ^ hex_of_bytes i) ids)
    | M.Panic s -> "panic " ^ ocaml_string_of_coq s
    | M.OutOfFuel -> "fuel");
  (* anchorize_fuel <fuel> <issued>* | <header> -> ok <id> : one call with explicit fuel *)
  register "anchorize_fuel" (fun a ->
    let fuel = int_of_string (List.hd a) in
    let rec nat_of_int i = if i = 0 then M.O else M.S (nat_of_int (i - 1)) in
    let rest = List.tl a in
    let rec split acc = function
      | "|" :: [h] -> (List.rev acc, h)
      | x :: r -> split (x :: acc) r
      | [] -> failwith "missing |" in
    let issued, h = split [] rest in
    pr_res (fun (_, id) -> hex_of_bytes id)
      (M.anchorize_fuel M.slug_ascii (nat_of_int fuel) (List.map bytes_of_hex issued) (bytes_of_hex h)));
  register "slug_ascii" (fun a -> "ok " ^ hex_of_bytes (M.slug_ascii (arg a 0)));
  register "dec" (fun a -> "ok " ^ hex_of_bytes (M.dec (n_of_int (int_of_string (List.hd a)))))
