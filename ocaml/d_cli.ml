(* d_cli.ml — C16: the generated model of src/main.rs (Gen/Cli.v), the documented contract
   (Spec/CliDoc.v) and the config-splice model (Model/CliModel.v).
   cli token: comma separated key=value over the Cli field names of Gen.cli_flags;
     bool: 1 | 0      num: decimal      string / optstring / optpath: hex ("-" = empty; key absent = None/default)
     extensions: kebab-case names joined by +      format, list_style: the clap value name
     files: hex names joined by + (key absent = standard input)
   "-" alone = no argument given. *)
open Dcore

let coq_string_of_ocaml (s : string) : M.string =
  let r = ref M.EmptyString in
  for i = String.length s - 1 downto 0 do
    let v = Char.code s.[i] in
    let b k = v land (1 lsl k) <> 0 in
    r := M.String (M.Ascii (b 0, b 1, b 2, b 3, b 4, b 5, b 6, b 7), !r)
  done;
  !r

let cs = coq_string_of_ocaml
let os = ocaml_string_of_coq

let int_of_z = function M.Z0 -> 0 | M.Zpos p -> int_of_pos p | M.Zneg p -> - (int_of_pos p)

let find_by name all f =
  match List.find_opt (fun x -> os (name x) = f) all with
  | Some x -> x
  | None -> failwith ("unknown value " ^ f)

let split_on c s = if s = "" then [] else String.split_on_char c s

let parse_cli (tok : string) : M.cli =
  let assoc =
    if tok = "-" then [] else
      List.map (fun kv ->
          let k, v = match String.index_opt kv '=' with
            | Some i -> String.sub kv 0 i, String.sub kv (i + 1) (String.length kv - i - 1)
            | None -> kv, "1" in
          let fl = match List.find_opt (fun fl -> os fl.M.fl_field = k) M.cli_flags with
            | Some fl -> fl | None -> failwith ("unknown cli field " ^ k) in
          let cv = match fl.M.fl_kind with
            | M.K_bool -> M.CBool (v = "1")
            | M.K_num -> M.CNum (n_of_int (int_of_string v))
            | M.K_string -> M.CStr (bytes_of_hex v)
            | M.K_optstring | M.K_optpath -> M.COptStr (Some (bytes_of_hex v))
            | M.K_multi -> M.CExts (List.map (find_by M.extension_name M.all_extensions) (split_on '+' v))
            | M.K_files -> M.CFiles (Some (List.map bytes_of_hex (split_on '+' v)))
            | M.K_enum ->
              (match List.find_opt (fun x -> os (M.format_name x) = v) M.all_formats with
               | Some f when k = "format" -> M.CFormat f
               | _ -> M.CListStyle (find_by M.list_style_name M.all_list_styles v)) in
          (cs k, cv)) (String.split_on_char ',' tok) in
  M.cli_of_assoc (bytes_of_hex "2f6e6f6e65786973742f636f6e666967") assoc

(* copts -> the option token of the harness (harness/src/opts.rs); a trailing underscore of a Rust
   field name is dropped (unsafe_ -> unsafe) *)
let opts_token (o : M.copts) : string =
  let parts = List.filter_map (fun (k, v) ->
      let k = os k in
      let k = if String.length k > 0 && k.[String.length k - 1] = '_' then String.sub k 0 (String.length k - 1) else k in
      match v with
      | M.CBool true -> Some (k ^ "=1")
      | M.CBool false -> None
      | M.CNum n -> Some (k ^ "=" ^ string_of_int (int_of_n n))
      | M.COptStr (Some s) | M.CStr s -> Some (k ^ "=" ^ hex_of_bytes s)
      | M.COptStr None -> None
      | M.CListStyleType l -> Some (k ^ "=" ^ os (M.list_style_type_name l))
      | _ -> failwith "unexpected option value") (M.copts_to_assoc o) in
  if parts = [] then "-" else String.concat "," (List.sort compare parts)

let sink_s = function M.S_stdout -> "stdout" | M.S_file f -> "file:" ^ hex_of_bytes f | M.S_first_input -> "first_input"
let hl_s = function None -> "none" | Some t -> "theme:" ^ hex_of_bytes t
let kind_s = function
  | M.K_bool -> "bool" | M.K_num -> "num" | M.K_string -> "string" | M.K_optstring -> "optstring"
  | M.K_optpath -> "optpath" | M.K_enum -> "enum" | M.K_multi -> "multi" | M.K_files -> "files"

let fields_of s = List.map cs (split_on ',' (if s = "-" then "" else s))

let () =
  (* cli_plan <cli> -> ok <opts model> <opts documented> <renderer model> <renderer documented> <sink model>
                          <sink documented> <highlighter model> <highlighter documented> <installs 0/1> <precheck none|code> *)
  register "cli_plan" (fun a ->
      let c = parse_cli (List.nth a 0) in
      String.concat " " [
        "ok"; opts_token (M.options_of_cli c); opts_token (M.documented_options c);
        os (M.renderer_name (M.formatter_of c)); os (M.renderer_name (M.documented_renderer c));
        sink_s (M.sink_of c); sink_s (M.documented_sink c);
        hl_s (M.highlighter_of c); hl_s (M.documented_highlighter c);
        (if M.installs_highlighter c then "1" else "0");
        (match M.inplace_precheck c with None -> "none" | Some z -> string_of_int (int_of_z z)) ]);
  (* cli_tables -> ok flags=<field:long:short:kind:default:append;...> exts=.. formats=.. styles=.. unset=.. gfm=.. conflicts=.. gated=.. exits=read:config:success:usage *)
  register "cli_tables" (fun _ ->
      let flags = String.concat ";" (List.map (fun f ->
          String.concat ":" [os f.M.fl_field; os f.M.fl_long; os f.M.fl_short; kind_s f.M.fl_kind; os f.M.fl_default;
                             (if f.M.fl_append then "1" else "0")]) M.cli_flags) in
      let names f l = String.concat "," (List.map (fun x -> os (f x)) l) in
      String.concat " " [
        "ok"; "flags=" ^ flags;
        "exts=" ^ names M.extension_name M.all_extensions;
        "formats=" ^ names M.format_name M.all_formats;
        "styles=" ^ names M.list_style_name M.all_list_styles;
        "optfields=" ^ String.concat "," (List.map (fun (k, _) ->
            let k = os k in if k.[String.length k - 1] = '_' then String.sub k 0 (String.length k - 1) else k)
            (M.copts_to_assoc (M.options_of_cli (parse_cli "-"))));
        "unset=" ^ String.concat "," (List.map (fun (g, n) -> os g ^ "." ^ os n) M.unset_option_fields);
        "gfm=" ^ String.concat "," (List.map os M.gfm_fields);
        "conflicts=" ^ String.concat "," (List.map os M.inplace_conflicts);
        "gated=" ^ String.concat "," (List.map (fun (f, g) -> os f ^ "/" ^ os g) M.gated_flags);
        "exits=" ^ String.concat ":" (List.map (fun z -> string_of_int (int_of_z z))
                                        [M.read_error_exit; M.config_parse_error_exit; M.success_exit; M.clap_usage_error_exit]) ]);
  (* cli_config <config_file hex> <unreadable|badquotes|words> <nreal> <real word hex | !>* <config word hex>*
     -> ok once | ok twice <hex>* | ok exit <n> | panic <site> *)
  register "cli_config" (fun a ->
      let cf = arg a 0 in
      let nreal = int_of_string (List.nth a 2) in
      let rest = List.tl (List.tl (List.tl a)) in
      let real = List.filteri (fun i _ -> i < nreal) rest in
      let conf = List.filteri (fun i _ -> i >= nreal) rest in
      let real = List.map (fun s -> if s = "!" then None else Some (bytes_of_hex s)) real in
      let src = match List.nth a 1 with
        | "unreadable" -> M.Cfg_unreadable
        | "badquotes" -> M.Cfg_bad_quotes
        | "words" -> M.Cfg_words (List.map bytes_of_hex conf)
        | s -> failwith ("bad source " ^ s) in
      pr_res (function
          | M.Parse_once _ -> "once"
          | M.Parse_twice (_, l) -> String.concat " " ("twice" :: List.map hex_of_bytes l)
          | M.Exit_with z -> "exit " ^ string_of_int (int_of_z z))
        (M.cli_with_config_model real cf src));
  (* cli_overlap <real fields> <config fields> -> ok <overlapping 0/1> <clap_accepts(real ++ config) 0/1> *)
  register "cli_overlap" (fun a ->
      let r = fields_of (List.nth a 0) and c = fields_of (List.nth a 1) in
      Printf.sprintf "ok %d %d" (if M.overlapping_config r c then 1 else 0) (if M.clap_accepts (r @ c) then 1 else 0))
;;
(* cli_known nonutf8 <config read 0/1> <real word hex | !>*          -> ok 0/1
   cli_known ddash <nreal> <real word hex>* <config word hex>*       -> ok 0/1
   cli_known theme <cli token> <shipped theme hex>*                  -> ok 0/1 *)
let () =
  register "cli_known" (fun a ->
      match a with
      | "nonutf8" :: rd :: real ->
        pr_bool (M.nonutf8_argv_with_config (List.map (fun s -> if s = "!" then None else Some (bytes_of_hex s)) real) (rd = "1"))
      | "ddash" :: n :: rest ->
        let n = int_of_string n in
        pr_bool (M.double_dash_config (List.map bytes_of_hex (List.filteri (fun i _ -> i < n) rest))
                   (List.map bytes_of_hex (List.filteri (fun i _ -> i >= n) rest)))
      | "theme" :: tok :: shipped -> pr_bool (M.unknown_theme (List.map bytes_of_hex shipped) (parse_cli tok))
      | _ -> "err bad cli_known")

