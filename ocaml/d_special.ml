(* d_special.ml — C13: trigger strings / free_of of Spec/Triggers.v; tables, scan and arm selection of Model/Special.v.
   Option sets: one token, comma separated option paths that are on (extension.autolink,parse.smart), "-" = none. *)
open Dcore

let coq_bytes_of_string (s : string) : M.byte list =
  List.init (String.length s) (fun i -> byte_of_int (Char.code s.[i]))

let on_of_token (t : string) : M.byte list list =
  if t = "-" then [] else List.map coq_bytes_of_string (String.split_on_char ',' t)

let rec int_of_nat = function M.O -> 0 | M.S n -> 1 + int_of_nat n

let () =
  register "c13_features" (fun _ -> "ok " ^ String.concat " " (List.map hex_of_bytes M.c13_feature_names));
  register "c13_triggers" (fun a ->
    match M.c13_triggers (arg a 0) with
    | Some l -> "ok " ^ String.concat " " (List.map hex_of_bytes l)
    | None -> "none");
  register "c13_free_of" (fun a -> match M.c13_free_of (arg a 0) (arg a 1) with Some b -> pr_bool b | None -> "none");
  register "c13_free_of_heads" (fun a -> match M.c13_free_of_heads (arg a 0) (arg a 1) with Some b -> pr_bool b | None -> "none");
  (* c13_find_special <on> <wb 0/1> <input> <pos> *)
  register "c13_find_special" (fun a ->
    pr_n (M.c13_find_special (on_of_token (List.nth a 0)) (List.nth a 1 = "1") (arg a 2) (n_of_int (int_of_string (List.nth a 3)))));
  (* c13_select_arm <on> <wb> <byte hex> *)
  register "c13_select_arm" (fun a ->
    match M.c13_select_arm (on_of_token (List.nth a 0)) (List.nth a 1 = "1") (List.hd (arg a 2)) with
    | Some n -> "ok " ^ string_of_int (int_of_nat n)
    | None -> "none");
  (* c13_tables <on>  ->  768 flags *)
  register "c13_tables" (fun a ->
    "ok " ^ String.concat "" (List.map (fun b -> if b then "1" else "0") (M.c13_tables (on_of_token (List.nth a 0)))))
