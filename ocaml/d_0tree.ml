(* d_0tree.ml — parser of the harness's tree token format into the extracted Coq `node`
   (see harness/src/tree.rs):   ( Kind sl sc el ec field* child* )
   and of the option token into the extracted `opts` record.  (Named d_0* so that it is linked
   before the components that use it.) *)
open Dcore

(* decimal numbers beyond OCaml's 63-bit int (usize::MAX in synthetic trees): halve the digit string *)
let big_n_of_string (s : string) : M.n =
  let d = Array.init (String.length s) (fun i -> Char.code s.[i] - 48) in
  let is_zero () = Array.for_all (fun x -> x = 0) d in
  let halve () = let r = ref 0 in
    Array.iteri (fun i x -> let v = !r * 10 + x in d.(i) <- v / 2; r := v mod 2) d; !r in
  let rec bits () = if is_zero () then [] else let b = halve () in b :: bits () in
  let rec pos = function
    | [] -> failwith "zero" | [_] -> M.XH
    | b :: r -> if b = 1 then M.XI (pos r) else M.XO (pos r) in
  match bits () with [] -> M.N0 | l -> M.Npos (pos l)
let n_of_string (s : string) : M.n =
  match int_of_string_opt s with Some i -> n_of_int i | None -> big_n_of_string s
let bool_of_tok s = s = "1"

exception Tree_error of string

let parse_tree (toks : string list) : M.node * string list =
  let toks = ref toks in
  let next () = match !toks with
    | [] -> raise (Tree_error "unexpected end")
    | t :: r -> toks := r; t in
  let num () = n_of_string (next ()) in
  let boolean () = bool_of_tok (next ()) in
  let bytes () = bytes_of_hex (next ()) in
  let opt_bytes () = let s = next () in
    if s = "n" then None else Some (bytes_of_hex (let r = String.sub s 1 (String.length s - 1) in if r = "" then "-" else r)) in
  let list_fields () =
    let ty = if next () = "o" then M.Ordered else M.Bullet in
    let mo = num () in let pad = num () in let start = num () in
    let delim = if next () = "r" then M.Paren else M.Period in
    let bullet = num () in let tight = boolean () in let task = boolean () in
    { M.l_type = ty; l_marker_offset = mo; l_padding = pad; l_start = start; l_delim = delim;
      l_bullet = bullet; l_tight = tight; l_task = task } in
  let rec node () : M.node =
    let t = next () in
    if t <> "(" then raise (Tree_error ("expected ( got " ^ t));
    let kind = next () in
    let sl = num () in let sc = num () in let el = num () in let ec = num () in
    let sp = { M.sl = sl; sc = sc; el = el; ec = ec } in
    let v : M.node_value = match kind with
      | "Document" -> M.Document
      | "FrontMatter" -> M.FrontMatter (bytes ())
      | "BlockQuote" -> M.BlockQuote
      | "List" -> M.NList (list_fields ())
      | "Item" -> M.Item (list_fields ())
      | "DescriptionList" -> M.DescriptionList
      | "DescriptionItem" -> let a = num () in let b = num () in let c = boolean () in M.DescriptionItem (a, b, c)
      | "DescriptionTerm" -> M.DescriptionTerm
      | "DescriptionDetails" -> M.DescriptionDetails
      | "CodeBlock" ->
        let fenced = boolean () in let fc = num () in let fl = num () in let fo = num () in
        let info = bytes () in let lit = bytes () in
        M.CodeBlock { M.cb_fenced = fenced; cb_fence_char = fc; cb_fence_length = fl; cb_fence_offset = fo;
                      cb_info = info; cb_literal = lit }
      | "HtmlBlock" -> let bt = num () in let lit = bytes () in M.HtmlBlock (bt, lit)
      | "Paragraph" -> M.Paragraph
      | "Heading" -> let l = num () in let s = boolean () in M.Heading (l, s)
      | "ThematicBreak" -> M.ThematicBreak
      | "FootnoteDefinition" -> let n = bytes () in let t = num () in M.FootnoteDefinition (n, t)
      | "Table" ->
        let c = num () in let r = num () in let ne = num () in
        let al = next () in
        let aligns = if al = "-" then [] else
            List.init (String.length al) (fun i -> match al.[i] with
                | 'l' -> M.ALeft | 'c' -> M.ACenter | 'r' -> M.ARight | _ -> M.ANone) in
        M.Table { M.t_cols = c; t_rows = r; t_nonempty = ne; t_aligns = aligns }
      | "TableRow" -> M.TableRow (boolean ())
      | "TableCell" -> M.TableCell
      | "Text" -> M.Text (bytes ())
      | "TaskItem" -> M.TaskItem (opt_bytes ())
      | "SoftBreak" -> M.SoftBreak
      | "LineBreak" -> M.LineBreak
      | "Code" -> let n = num () in let lit = bytes () in M.Code (n, lit)
      | "HtmlInline" -> M.HtmlInline (bytes ())
      | "Raw" -> M.Raw (bytes ())
      | "Emph" -> M.Emph
      | "Strong" -> M.Strong
      | "Strikethrough" -> M.Strikethrough
      | "Superscript" -> M.Superscript
      | "Link" -> let u = bytes () in let t = bytes () in M.Link (u, t)
      | "Image" -> let u = bytes () in let t = bytes () in M.Image (u, t)
      | "FootnoteReference" -> let n = bytes () in let r = num () in let i = num () in M.FootnoteReference (n, r, i)
      | "Math" -> let d = boolean () in let dm = boolean () in let lit = bytes () in M.Math (d, dm, lit)
      | "MultilineBlockQuote" -> let a = num () in let b = num () in M.MultilineBlockQuote (a, b)
      | "Escaped" -> M.Escaped
      | "WikiLink" -> M.WikiLink (bytes ())
      | "Underline" -> M.Underline
      | "Subscript" -> M.Subscript
      | "SpoileredText" -> M.SpoileredText
      | "EscapedTag" -> M.EscapedTag (bytes ())
      | "Alert" ->
        let ty = (match int_of_string (next ()) with
            | 0 -> M.Note | 1 -> M.Tip | 2 -> M.Important | 3 -> M.Warning | _ -> M.Caution) in
        let title = opt_bytes () in let ml = boolean () in let fl = num () in let fo = num () in
        M.Alert { M.a_type = ty; a_title = title; a_multiline = ml; a_fence_length = fl; a_fence_offset = fo }
      | k -> raise (Tree_error ("unknown kind " ^ k)) in
    let rec children acc =
      match !toks with
      | ")" :: r -> toks := r; List.rev acc
      | _ -> let c = node () in children (c :: acc) in
    let ch = children [] in
    M.Node (v, sp, ch) in
  let n = node () in
  (n, !toks)

(* option token (same syntax as harness/src/opts.rs) -> the fields the Coq opts record has *)
let parse_opts (tok : string) : M.opts =
  let tbl = Hashtbl.create 16 in
  if tok <> "-" && tok <> "" then
    List.iter (fun kv ->
        match String.index_opt kv '=' with
        | Some i -> Hashtbl.replace tbl (String.sub kv 0 i) (String.sub kv (i + 1) (String.length kv - i - 1))
        | None -> Hashtbl.replace tbl kv "1") (String.split_on_char ',' tok);
  let b k = (match Hashtbl.find_opt tbl k with Some "1" -> true | _ -> false) in
  let s k = (match Hashtbl.find_opt tbl k with Some v -> Some (bytes_of_hex v) | None -> None) in
  let n k d = (match Hashtbl.find_opt tbl k with Some v -> n_of_int (int_of_string v) | None -> n_of_int d) in
  let ls = (match Hashtbl.find_opt tbl "list_style" with Some "plus" -> 43 | Some "star" -> 42 | _ -> 45) in
  { M.o_tagfilter = b "tagfilter"; o_header_ids = s "header_ids"; o_footnotes = b "footnotes";
    o_wikilinks_after = b "wikilinks_title_after_pipe"; o_wikilinks_before = b "wikilinks_title_before_pipe";
    o_relaxed_autolinks = b "relaxed_autolinks";
    o_hardbreaks = b "hardbreaks"; o_github_pre_lang = b "github_pre_lang"; o_full_info_string = b "full_info_string";
    o_width = n "width" 0; o_unsafe = b "unsafe"; o_escape = b "escape"; o_list_style = n_of_int ls;
    o_sourcepos = b "sourcepos"; o_escaped_char_spans = b "escaped_char_spans"; o_gfm_quirks = b "gfm_quirks";
    o_prefer_fenced = b "prefer_fenced"; o_figure_with_caption = b "figure_with_caption";
    o_tasklist_classes = b "tasklist_classes"; o_ol_width = n "ol_width" 0;
    o_ignore_empty_links = b "ignore_empty_links"; o_experimental_minimize = b "experimental_minimize_commonmark" }

let rec size_of (M.Node (_, _, ch)) = List.fold_left (fun a c -> a + size_of c) 1 ch

let () =
  (* tree_size <tree tokens> : sanity op for the tree parser *)
  register "tree_size" (fun a -> let (t, _) = parse_tree a in "ok " ^ string_of_int (size_of t))
