(* d_inlines.ml — Model/Inlines.v: the inline parser of one block followed by postprocess_text_nodes.
   inl <opts> <contenthex> <line_offsets a,b,..|-> <start_line> <maxref> <refsize0> <ctx n|col> <footnotes 0/1> <ndefs> (<namehex>)*
       <nrefs> (<labelhex> <urlhex> <titlehex>)* <nchars> (<charhex> <wp> <foldhex>)*
   -> ok <refsize> <effect -|T<n|shex>:<detach 0/1>:<col>> | <postprocessed children> | <children before postprocess>
      | scope <what> | panic <site> | fuel
   refdefs <nchars> (<charhex> <wp> <foldhex>)* <contenthex>
   -> ok <rest hex> <n> (<label> <url> <title>)*      (resolve_reference_link_definitions on a paragraph content) *)
open Dcore

let pn n = string_of_int (int_of_n n)
let b01 b = if b then "1" else "0"
let list_fields (l : M.node_list) =
  String.concat " " [ (match l.M.l_type with M.Ordered -> "o" | M.Bullet -> "b"); pn l.M.l_marker_offset; pn l.M.l_padding;
                      pn l.M.l_start; (match l.M.l_delim with M.Paren -> "r" | M.Period -> "p"); pn l.M.l_bullet;
                      b01 l.M.l_tight; b01 l.M.l_task ]

let rec dump_tree (buf : Buffer.t) (M.Node (v, sp, ch)) =
  let hb = hex_of_bytes in
  let (kind, fields) = match v with
    | M.Document -> ("Document", "")
    | M.FrontMatter l -> ("FrontMatter", hb l)
    | M.BlockQuote -> ("BlockQuote", "")
    | M.NList l -> ("List", list_fields l)
    | M.Item l -> ("Item", list_fields l)
    | M.DescriptionList -> ("DescriptionList", "")
    | M.DescriptionItem (a, b, c) -> ("DescriptionItem", pn a ^ " " ^ pn b ^ " " ^ b01 c)
    | M.DescriptionTerm -> ("DescriptionTerm", "")
    | M.DescriptionDetails -> ("DescriptionDetails", "")
    | M.CodeBlock cb -> ("CodeBlock", String.concat " " [b01 cb.M.cb_fenced; pn cb.M.cb_fence_char; pn cb.M.cb_fence_length;
                                                          pn cb.M.cb_fence_offset; hb cb.M.cb_info; hb cb.M.cb_literal])
    | M.HtmlBlock (t, l) -> ("HtmlBlock", pn t ^ " " ^ hb l)
    | M.Paragraph -> ("Paragraph", "")
    | M.Heading (l, s) -> ("Heading", pn l ^ " " ^ b01 s)
    | M.ThematicBreak -> ("ThematicBreak", "")
    | M.FootnoteDefinition (n, t) -> ("FootnoteDefinition", hb n ^ " " ^ pn t)
    | M.Table t -> ("Table", String.concat " " [pn t.M.t_cols; pn t.M.t_rows; pn t.M.t_nonempty;
                                                 (if t.M.t_aligns = [] then "-" else
                                                    String.concat "" (List.map (function M.ALeft -> "l" | M.ACenter -> "c" | M.ARight -> "r" | M.ANone -> "n") t.M.t_aligns))])
    | M.TableRow h -> ("TableRow", b01 h)
    | M.TableCell -> ("TableCell", "")
    | M.Text l -> ("Text", hb l)
    | M.TaskItem s -> ("TaskItem", (match s with None -> "n" | Some x -> "s" ^ (if x = [] then "" else hb x)))
    | M.SoftBreak -> ("SoftBreak", "")
    | M.LineBreak -> ("LineBreak", "")
    | M.Code (n, l) -> ("Code", pn n ^ " " ^ hb l)
    | M.HtmlInline l -> ("HtmlInline", hb l)
    | M.Raw l -> ("Raw", hb l)
    | M.Emph -> ("Emph", "")
    | M.Strong -> ("Strong", "")
    | M.Strikethrough -> ("Strikethrough", "")
    | M.Superscript -> ("Superscript", "")
    | M.Link (u, t) -> ("Link", hb u ^ " " ^ hb t)
    | M.Image (u, t) -> ("Image", hb u ^ " " ^ hb t)
    | M.FootnoteReference (n, r, i) -> ("FootnoteReference", hb n ^ " " ^ pn r ^ " " ^ pn i)
    | M.Math (d, dm, l) -> ("Math", b01 d ^ " " ^ b01 dm ^ " " ^ hb l)
    | M.MultilineBlockQuote (a, b) -> ("MultilineBlockQuote", pn a ^ " " ^ pn b)
    | M.Escaped -> ("Escaped", "")
    | M.WikiLink u -> ("WikiLink", hb u)
    | M.Underline -> ("Underline", "")
    | M.Subscript -> ("Subscript", "")
    | M.SpoileredText -> ("SpoileredText", "")
    | M.EscapedTag l -> ("EscapedTag", hb l)
    | M.Alert _ -> ("Alert", "?") in
  Buffer.add_string buf ("( " ^ kind ^ " " ^ String.concat " " [pn sp.M.sl; pn sp.M.sc; pn sp.M.el; pn sp.M.ec]);
  if fields <> "" then Buffer.add_string buf (" " ^ fields);
  List.iter (fun c -> Buffer.add_char buf ' '; dump_tree buf c) ch;
  Buffer.add_string buf " )"

let trees_string (l : M.node list) =
  if l = [] then "-" else begin
    let b = Buffer.create 256 in
    List.iteri (fun i t -> if i > 0 then Buffer.add_char b ' '; dump_tree b t) l; Buffer.contents b end

let parse_iopts (tok : string) : M.iopts =
  let tbl = Hashtbl.create 16 in
  if tok <> "-" && tok <> "" then
    List.iter (fun kv ->
        match String.index_opt kv '=' with
        | Some i -> Hashtbl.replace tbl (String.sub kv 0 i) (String.sub kv (i + 1) (String.length kv - i - 1))
        | None -> Hashtbl.replace tbl kv "1") (String.split_on_char ',' tok);
  let b k = (match Hashtbl.find_opt tbl k with Some "1" -> true | _ -> false) in
  { M.io_autolink = b "autolink"; io_strikethrough = b "strikethrough"; io_subscript = b "subscript";
    io_superscript = b "superscript"; io_underline = b "underline"; io_spoiler = b "spoiler";
    io_math_dollars = b "math_dollars"; io_math_code = b "math_code";
    io_wikilinks_after = b "wikilinks_title_after_pipe"; io_wikilinks_before = b "wikilinks_title_before_pipe";
    io_footnotes = b "footnotes"; io_tasklist = b "tasklist"; io_smart = b "smart";
    io_relaxed_autolinks = b "relaxed_autolinks"; io_relaxed_tasklist = b "relaxed_tasklist_matching";
    io_escaped_char_spans = b "escaped_char_spans"; io_ignore_empty_links = b "ignore_empty_links" }

(* the Unicode oracle from the per-character table *)
let take_oracle (a : string list) : M.oracle * string list =
  match a with
  | n :: rest ->
    let n = int_of_string n in
    let tbl = Hashtbl.create 8 in
    let rec go k l = if k = 0 then l else
        (match l with
         | c :: wp :: f :: r -> Hashtbl.replace tbl c (wp.[0] = '1', wp.[1] = '1', f); go (k - 1) r
         | _ -> failwith "oracle table") in
    let rest = go n rest in
    let look c = Hashtbl.find_opt tbl (hex_of_bytes c) in
    let width b = let i = int_of_byte b in if i < 192 then 1 else if i < 224 then 2 else if i < 240 then 3 else 4 in
    let rec take k l = if k = 0 then ([], l) else (match l with [] -> ([], []) | x :: r -> let (a, b) = take (k - 1) r in (x :: a, b)) in
    let rec fold (s : M.byte list) : M.byte list =
      match s with
      | [] -> []
      | b :: _ ->
        let i = int_of_byte b in
        if i < 128 then (byte_of_int (if i >= 65 && i <= 90 then i + 32 else i)) :: fold (List.tl s)
        else begin
          let (c, r) = take (width b) s in
          (match look c with Some (_, _, f) -> bytes_of_hex f | None -> c) @ fold r
        end in
    ({ M.u_ws = (fun c -> match look c with Some (w, _, _) -> w | None -> false);
       u_ps = (fun c -> match look c with Some (_, p, _) -> p | None -> false);
       u_fold = fold }, rest)
  | [] -> failwith "oracle table missing"

let rec take_refs k l acc =
  if k = 0 then (List.rev acc, l) else
    match l with
    | lab :: url :: title :: r -> take_refs (k - 1) r ((bytes_of_hex lab, (bytes_of_hex url, bytes_of_hex title)) :: acc)
    | _ -> failwith "ref table"

let () =
  register "inl" (fun a ->
      match a with
      | o :: content :: lo :: sl :: maxref :: refsize0 :: ctx :: fnon :: ndefs :: rest0 ->
        let rec take k l acc = if k = 0 then (List.rev acc, l) else (match l with x :: r -> take (k - 1) r (bytes_of_hex x :: acc) | [] -> failwith "defs") in
        let (defs, rest1) = take (int_of_string ndefs) rest0 [] in
        let (nrefs, rest) = (match rest1 with x :: r -> (x, r) | [] -> failwith "nrefs") in
        let o = parse_iopts o in
        let lo = if lo = "-" then [] else List.map D_0tree.n_of_string (String.split_on_char ',' lo) in
        let (refs, rest) = take_refs (int_of_string nrefs) rest [] in
        let (u, _) = take_oracle rest in
        (* the reference map is given with raw labels: the key is normalize_label(label, Fold) *)
        let refs = List.map (fun (l, v) -> (M.sl_normalize_label u.M.u_fold l true, v)) refs in
        let ctx = if ctx = "n" then None else Some (D_0tree.n_of_string ctx) in
        (match M.run_inlines o u (bytes_of_hex content) lo (D_0tree.n_of_string sl) refs
                 (D_0tree.n_of_string maxref) (D_0tree.n_of_string refsize0) with
         | M.Panic s -> "panic " ^ ocaml_string_of_coq s
         | M.OutOfFuel -> "fuel"
         | M.Ok (M.OutOfScope w) -> "scope " ^ ocaml_string_of_coq w
         | M.Ok (M.Done (ch, rs)) ->
           let ch = if fnon = "1" then List.map (M.fn_resolve u.M.u_fold defs) ch else ch in
           (match M.postprocess_block o ctx ch with
            | M.Panic s -> "panic " ^ ocaml_string_of_coq s ^ " | " ^ trees_string ch
            | M.OutOfFuel -> "fuel post"
            | M.Ok (post, eff) ->
              let e = (match eff with
                  | None -> "-"
                  | Some t -> Printf.sprintf "T%s:%s:%s"
                                (match t.M.tl_symbol with None -> "n" | Some x -> "s" ^ hex_of_bytes x)
                                (b01 t.M.tl_detach_parent) (pn t.M.tl_parent_sc)) in
              Printf.sprintf "ok %s %s | %s | %s" (pn rs) e (trees_string post) (trees_string ch)))
      | _ -> "err args")

(* refdefs <contenthex> <nrefs> (<rawlabel> <url> <title>)* <nchars> (<charhex> <wp> <foldhex>)*
   -> ok <rest hex> <entries of the model> <harness entries checked> <disagreeing>
   every (raw label, url, title) the compiled parser resolves must be what the model's map holds (first
   definition wins) for the normalized label *)
let () =
  register "refdefs" (fun a ->
      match a with
      | content :: nrefs :: rest ->
        let (refs, rest) = take_refs (int_of_string nrefs) rest [] in
        let (u, _) = take_oracle rest in
        (match M.refdefs u.M.u_fold (bytes_of_hex content) with
         | M.Panic s -> "panic " ^ ocaml_string_of_coq s
         | M.OutOfFuel -> "fuel"
         | M.Ok (rest, entries) ->
           let tbl = Hashtbl.create 8 in
           List.iter (fun (k, v) -> if not (Hashtbl.mem tbl k) then Hashtbl.add tbl k v) entries;
           let bad = List.filter (fun (l, v) ->
               match Hashtbl.find_opt tbl (M.sl_normalize_label u.M.u_fold l true) with
               | Some v' -> v <> v'
               | None -> true) refs in
           Printf.sprintf "ok %s %d %d %d" (hex_of_bytes rest) (Hashtbl.length tbl) (List.length refs) (List.length bad))
      | _ -> "err args")
