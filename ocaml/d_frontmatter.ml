(* d_frontmatter.ml — C20: front-matter splitter model, line-based spec, the classes of the repaired defects *)
open Dcore

let pr_pair_opt = function
  | Some (a, b) -> "ok " ^ hex_of_bytes a ^ " " ^ hex_of_bytes b
  | None -> "none"

let rec int_of_nat = function M.O -> 0 | M.S n -> 1 + int_of_nat n

let () =
  (* split_fm <delimiter> <input>  (same argument order as the harness op) *)
  register "split_fm" (fun a ->
    match M.split_off_front_matter (arg a 1) (arg a 0) with
    | M.Ok r -> pr_pair_opt r
    | M.Panic s -> "panic " ^ ocaml_string_of_coq s
    | M.OutOfFuel -> "fuel");
  register "spec_split" (fun a -> pr_pair_opt (M.spec_split (arg a 1) (arg a 0)));
  register "spec_split_doc" (fun a -> pr_pair_opt (M.spec_split_doc (arg a 1) (arg a 0)));
  register "fm_class" (fun a -> pr_n (M.fm_class (arg a 1) (arg a 0)));
  register "delim_ok" (fun a -> pr_bool (M.delim_ok (arg a 0)));
  register "count_lf" (fun a -> "ok " ^ string_of_int (int_of_nat (M.count_lf (arg a 0))));
  register "count_line_endings" (fun a -> "ok " ^ string_of_int (int_of_nat (M.count_line_endings (arg a 0))));
  register "lf_count" (fun a -> pr_n (M.lf_count (arg a 0)));
  register "spec_line_count" (fun a -> pr_n (M.spec_line_count (arg a 0)));
  register "rest_has_bom" (fun a -> pr_bool (M.rest_has_bom (arg a 0)))
