(* d_cm.ml — Model/Cm.v:
     cm <dbg 0|1> <opts> <tree tokens>     -> ok <hex> | panic <site> | fuel | outofscope
     cm_sus <literal> <byte>               -> ok <n>      shortest_unused_sequence
     cm_lcs <literal> <byte>               -> ok <n>      longest_char_sequence
     cm_scheme <bytes>                     -> ok 0|1      scanners::scheme(..).is_some() *)
open Dcore

let () =
  register "cm" (fun a ->
      match a with
      | dbg :: o :: rest ->
        let o = D_0tree.parse_opts o in
        let (t, _) = D_0tree.parse_tree rest in
        (match M.format_document o (dbg = "1") t with
         | M.CmOk b -> "ok " ^ hex_of_bytes b
         | M.CmPanic s -> "panic " ^ ocaml_string_of_coq s
         | M.CmFuel -> "fuel"
         | M.CmOutOfScope -> "outofscope")
      | _ -> "err args");
  register "cm_sus" (fun a ->
      match M.shortest_unused_sequence (arg a 0) (List.hd (arg a 1)) with
      | M.Ok n -> pr_n n | M.Panic s -> "panic " ^ ocaml_string_of_coq s | M.OutOfFuel -> "fuel");
  register "cm_lcs" (fun a -> pr_n (M.longest_char_sequence (arg a 0) (List.hd (arg a 1))));
  (* cm_shape <tree tokens> -> ok <K1-K3 0|1> <K4 0|1> *)
  register "cm_shape" (fun a ->
      let (t, _) = D_0tree.parse_tree a in
      Printf.sprintf "ok %d %d" (if M.cm_shape [] None t then 1 else 0) (if M.cm_no_ol_overflow t then 1 else 0));
  register "cm_has_run" (fun a ->
      pr_bool (M.has_run (arg a 0) (List.hd (arg a 1)) (int_of_string (List.nth a 2) |> fun k -> let rec nat i = if i = 0 then M.O else M.S (nat (i - 1)) in nat k)));
  register "cm_scheme" (fun a -> pr_bool (M.scheme_matches (arg a 0)))
