"""C13 — extensions are inert on documents that do not use their syntax.

Theorems: coq/Props/C13.v (tables of Subject::new, find_special_char, parse_inline arm selection; option read
audit; and, about the parser MODEL: inline phase -- parse_inline step, inline_loop, process_emphasis, parse_inlines
with a feature on = off on content without the feature's trigger bytes; block phase -- parse_blocks with an opener
on refines off on documents without its trigger byte; refutations for greentext, description lists (tilde), the
specification's string form under smart punctuation, and the post-processing hooks on decoded text).
Ties: translator item `special` (Gen/Special.v, Gen/AuditOptions.v regenerated from src/parser/*.rs and
src/html.rs on every run), inlines_tie and blocks_tie (model vs compiled parser).  The composition of the phases up
to the HTML is NOT proved: the full statement (C13_full_statement) is evaluated on the compiled library by a
metamorphic search:

    for every feature F, every document d with  free_of F d  (extracted Spec/Triggers.v predicate) and every
    base option set B without F:      md html B d  ==  md html (B + F) d        byte for byte

over (a) every document of length <= 3 (quick) / <= 4 (thorough) on a 29-byte alphabet of Markdown-significant
bytes, under the bases {none, GFM, every extension}, and (b) grammar documents (tools/docgen.py) from which F's
trigger strings were removed, under random bases.  Failures are classified into the known classes C13-a..f
(known_findings.json); anything else is shrunk and reported as a violation."""
import itertools, os, re, subprocess
import vlib, docgen, shrink
from vlib import hx, unhx

ALPHABET = "a \n*_[]()>-~|:^$`!<#w.@\\'\"=1+"
ALPHABET2 = "a \n-:~|["
PARSE = ("smart", "relaxed_tasklist_matching", "relaxed_autolinks")
STRINGY = {"header_ids": "", "front_matter_delimiter": "---"}


# witnesses of the known classes and other hand-written probes: (feature, base, document free of the feature's triggers)
CORPUS = [
    ("greentext", {}, "- a\nb"), ("greentext", {"footnotes": True}, "[^a]: foo\nbar\n\nx[^a]"), ("greentext", {"description_lists": True}, "t\n\n: d\nlazy"),
    ("description_lists", {}, "a\n~ b"), ("description_lists", {}, "- x\n\n  ~\ty"),
    ("spoiler", {}, "|_|_"), ("spoiler", {}, "![|?|]()"), ("spoiler", {"table": True}, "a|b\n-|-\nc|d"),
    ("footnotes", {}, "[\\^*[*]]"), ("footnotes", {}, "[&#94;a] [&#x5E;b] [&Hat;c]"),
    ("relaxed_autolinks", {}, "[[a](b)[c]](d)"), ("relaxed_autolinks", {"autolink": True}, "[[a](b)[c]](d)"),
    ("table", {}, "a\n=\nb"), ("table", {"ignore_setext": True}, "a\n=\n\n: :"), ("autolink", {}, "ww.a.b wwwa.b http//x.y a.b/c"),
    ("tasklist", {}, "- (x) a\n- x] b"), ("alerts", {}, "> [ !NOTE]\n> a\n\n> ![NOTE]\n> b"), ("multiline_block_quotes", {}, ">>\na\n>>\n\n> > > b"),
    ("math_dollars", {"math_code": False}, "a `x` b\n\n```\nc\n```"), ("math_code", {"math_dollars": True}, "$x$ $$y$$\n\n``` mat h\nz\n```"),
    ("wikilinks_title_after_pipe", {}, "[ [a|b]] [a][ [] ![ [x]]"), ("underline", {}, "_a_ *_b_* _ _c_ _"), ("superscript", {}, "a<sup>b</sup> [a]: /u\n\n[a]"),
    ("smart", {}, "a - b . c .. d - - e"), ("header_ids", {}, "a\n\n    b\n\n<h1>c</h1>"), ("front_matter_delimiter", {}, "--\na: b\n--\n\n- -\nc"),
    ("tagfilter", {"unsafe": True}, "&lt;script&gt; `script` \\script"), ("strikethrough", {"subscript": False}, "a - b -- c"), ("subscript", {"strikethrough": True}, "H2O ^2^"),
    ("relaxed_tasklist_matching", {"tasklist": True}, "- (~) a\n- ~ b"),
    # C13-f: postprocess_text_nodes reads the decoded text (witnesses of Props/C13.v: C13_postprocess_*_refuted)
    ("autolink", {}, "a&#64;b.co"), ("autolink", {}, "x&commat;y.zz foo"), ("tasklist", {}, "- &#91;x] a"), ("tasklist", {}, "- &#x5B;x&#93; a"),
    ("relaxed_tasklist_matching", {"tasklist": True}, "- &lsqb;~] a"),
    # the witnesses of Props/C13.v C13_parse_refuted (whole parser model; same class C13-f)
    ("relaxed_tasklist_matching", {"tasklist": True}, "- &#91;~] a"), ("relaxed_autolinks", {"autolink": True}, "&#91;a&#64;b.co"),
    # C13-g (Props/C13.v C13_second_round): a bar next to an apostrophe does not separate table cells under spoiler;
    # the first has ONE bar (outside C13-c), the second is the model's witness (inside C13-c as well)
    ("spoiler", {"table": True}, "a\n:-\nc'|d"), ("spoiler", {"table": True}, "a'|b\n-|-\n"),
]


def fval(F):
    return STRINGY.get(F, True)


def with_f(o, F):
    o2 = dict(o)
    o2[F] = fval(F)
    return o2


def path_of(F):
    return ("parse." if F in PARSE else "extension.") + F


# --------------------------------------------------------------------------- known classes (predicates)
def tree_parse(s):
    """harness tree dump -> nested [kind, sl, sc, el, ec, fields, children]"""
    toks = s.split()
    pos = [0]

    def node():
        assert toks[pos[0]] == "("
        pos[0] += 1
        kind = toks[pos[0]]
        sl, sc, el, ec = (int(x) for x in toks[pos[0] + 1:pos[0] + 5])
        pos[0] += 5
        fields = []
        while toks[pos[0]] not in ("(", ")"):
            fields.append(toks[pos[0]])
            pos[0] += 1
        kids = []
        while toks[pos[0]] == "(":
            kids.append(node())
        pos[0] += 1
        return [kind, sl, sc, el, ec, fields, kids]

    return node()


def line_indent(line):
    col = 0
    for ch in line:
        if ch == " ":
            col += 1
        elif ch == "\t":
            col += 4 - col % 4
        else:
            break
    return col


def lazy_line_under_document(doc, tree):
    """C13-a: in the parse WITHOUT greentext there is a paragraph nested in a list item, footnote definition or
    description item of the document's top level, and one of the paragraph's continuation lines is indented less
    than that container's continuation prefix requires (so the line matched no container but the document and
    was appended by lazy continuation).  With greentext the lazy-continuation test in add_text_to_container is
    switched off whenever the last matched container is the document (or a block quote)."""
    lines = re.split(r"\r\n|\n|\r", doc)

    def paragraphs(n, out):
        if n[0] == "Paragraph":
            out.append(n)
        for k in n[6]:
            paragraphs(k, out)

    for top in tree[6]:
        needs = []  # (node whose subtree is concerned, required indent)
        if top[0] == "FootnoteDefinition":
            needs.append((top, 4))
        elif top[0] == "List":
            for it in top[6]:
                if it[0] in ("Item", "TaskItem") and len(it[5]) >= 3:
                    try:
                        needs.append((it, int(it[5][1]) + int(it[5][2])))
                    except ValueError:
                        needs.append((it, 2))
                else:
                    needs.append((it, 2))
        elif top[0] == "DescriptionList":
            for it in top[6]:
                if it[0] == "DescriptionItem":
                    needs.append((it, int(it[5][0]) + int(it[5][1])))
        for sub, need in needs:
            ps = []
            paragraphs(sub, ps)
            for p in ps:
                for ln in range(p[1] + 1, p[3] + 1):
                    if ln - 1 < len(lines) and lines[ln - 1].strip(" \t") != "" and line_indent(lines[ln - 1]) < need:
                        return True
    return False


def link_in_link(n, parent=None):
    """C13-e: the tree holds a Link node whose parent is a Link node"""
    if n[0] == "Link" and parent == "Link":
        return True
    return any(link_in_link(k, n[0]) for k in n[6])


RE_FOOTDEF = re.compile(r"\[\^([^\]\r\n\x00\t ]+)\]:")
RE_FOOTDEF_LINE = re.compile(r"[ ]{0,3}([-+*]|\d+[.)])?[ \t]*\[\^[^\]\r\n\x00\t ]+\]:")
RE_TILDE_ITEM = re.compile(r"~[ \t]")
RE_ESC_CARET = re.compile(r"\[(\\\^|&#0*94;|&#[xX]0*5[eE];|&Hat;)")
RE_REF_AT = re.compile(r"&#0*64;|&#[xX]0*40;|&commat;")
RE_REF_LBRACKET = re.compile(r"&#0*91;|&#[xX]0*5[bB];|&lsqb;|&lbrack;")


def classify(F, doc, base, vh):
    """name of the known class the failing case (F toggled on doc under base) belongs to, or None"""
    if F == "greentext":
        # unreferenced footnote definitions are dropped from the tree: keep them alive with references appended
        # after a blank line (line numbers of the original part are unchanged)
        names = RE_FOOTDEF.findall(doc)
        probe = doc + ("\n\n" + " ".join(f"[^{n}]" for n in dict.fromkeys(names)) if names else "")
        r = vlib.run_one(vh, f"parse {docgen.opts_token(base)} {hx(probe)}")
        if r.startswith("ok "):
            try:
                if lazy_line_under_document(doc, tree_parse(r[3:])):
                    return "lazy_line_under_document"
            except Exception:
                pass
        # textual form of the same predicate for footnote definitions the probe could not keep (document ending
        # inside a code or HTML block): a footnote definition line, and later a non-blank line indented less than
        # four columns directly below a non-blank line
        if base.get("footnotes"):
            lines = re.split(r"\r\n|\n|\r", doc)
            seen = False
            for i, l in enumerate(lines):
                if seen and i > 0 and l.strip(" \t") and lines[i - 1].strip(" \t") and line_indent(l) < 4:
                    return "lazy_line_under_document"
                if RE_FOOTDEF_LINE.match(l):
                    seen = True
        return None
    if F == "relaxed_autolinks":
        r = vlib.run_one(vh, f"parse {docgen.opts_token(base)} {hx(doc)}")
        if r.startswith("ok "):
            try:
                if link_in_link(tree_parse(r[3:])):
                    return "link_child_of_link"
            except Exception:
                pass
        # C13-f for this switch: the e-mail matcher's bracket-depth test (skipped under relaxed_autolinks) also runs on
        # decoded text -- witness of Props/C13.v C13_parse_refuted: `&#91;a&#64;b.co` under autolink
        return "postprocess_decoded_trigger" if RE_REF_AT.search(doc) else None
    if F == "description_lists" and RE_TILDE_ITEM.search(doc):
        return "description_item_tilde"
    if F == "spoiler" and doc.count("|") >= 2:
        return "spoiler_single_bar"
    # C13-g: scanners.re table_spoiler is a two-byte CLASS {apostrophe, bar}: one bar next to an apostrophe is enough
    if F == "spoiler" and ("'|" in doc or "|'" in doc):
        return "spoiler_quote_bar"
    if F == "footnotes" and RE_ESC_CARET.search(doc):
        return "footnote_escaped_caret"
    if F in ("autolink", "relaxed_autolinks") and RE_REF_AT.search(doc):
        return "postprocess_decoded_trigger"
    if F in ("tasklist", "relaxed_tasklist_matching") and RE_REF_LBRACKET.search(doc):
        return "postprocess_decoded_trigger"
    return None


# --------------------------------------------------------------------------- documents
def is_free(doc, trig):
    return not any(t in doc for t in trig)


def strip_triggers(rng, doc, trig):
    """remove / overwrite one byte of every occurrence of a trigger string until the document is free of them"""
    while not is_free(doc, trig):
        for t in trig:
            while t in doc:
                i = doc.index(t)
                j = i + rng.randrange(len(t))
                k = rng.random()
                if k < 0.5:
                    doc = doc[:j] + doc[j + 1:]
                elif k < 0.8:
                    doc = doc[:j] + "z" + doc[j + 1:]
                else:
                    doc = doc[:j] + rng.choice(" *_`]()!\\&+") + doc[j + 1:]
    return doc


def nontrivial(doc):
    return any(not (ch.isalnum() or ch == " ") for ch in doc)


def replay(r):
    """./check replay <file>: render the document with the feature off and on"""
    case = r.get("case") or {}
    if "feature" not in case:
        return
    vlib.build_harness("debug")
    F, d, tok = case["feature"], unhx(case["doc"]).decode("utf-8"), case["base"]
    base = {}
    for kv in ([] if tok == "-" else tok.split(",")):
        k, _, v = kv.partition("=")
        base[k] = True if v == "1" and k not in STRINGY and k not in ("width", "ol_width") else (int(v) if k in ("width", "ol_width") else (v if k == "list_style" else unhx(v).decode()))
    for label, o in (("off", base), ("on ", with_f(base, F))):
        line = f"md html {docgen.opts_token(o)} {hx(d)}"
        out = vlib.run_one(vlib.VH["debug"], line)
        print(f"{F} {label}: {line}\n      -> {unhx(out[3:]).decode('utf-8', 'replace')!r}" if out.startswith("ok ") else f"{F} {label}: {line}\n      -> {out}")


def main(tier):
    c = vlib.Check("C13", tier)
    rng = c.rng
    c.phase_translator(["special"])
    c.phase_proofs()
    profile = "release" if tier == "thorough" else "debug"
    if not c.phase_builds((profile,)):
        c.finish(rule="build failed")
    vh, drv = vlib.VH[profile], vlib.DRIVER
    # the inline dispatcher: the model of parse_inline (Model/Inlines.v) reads the generated special-character
    # table; its tie to the compiled parser makes "a byte outside the table is literal text" a fact about the code
    from checks import layerc
    import time as _time
    _t0 = _time.time()
    layerc.inlines(c, tier, 0.2 if tier == "quick" else 0.1, profile=profile, proofs=(tier != "quick"))   # Props/Inlines.v is re-checked in C01 and INLINES_TIE
    _t1 = _time.time()
    # the block openers: Props/C13.v states their inertness about Model/Blocks.v (parse_blocks); the tie makes it a
    # statement about the compiled block parser
    layerc.blocks(c, tier, 0.08 if tier == "quick" else 0.1, proofs=(tier != "quick"))   # Props/Blocks.v is re-checked in C01, C20 and BLOCKS_TIE
    _t2 = _time.time()
    # the whole parser as one function: the composition theorems of Props/C13.v (C13_parse_*, C13_html_*) are about
    # Model/Parse.v parse_document_model; its end-to-end tie to the compiled parse_document makes them statements about the
    # code (the theorems of Props/Parse.v themselves are obligations of PARSE_TIE / C04 / C08, not repeated here)
    layerc.whole(c, tier, 0.1 if tier == "quick" else 0.05, proofs=False, profile=profile)
    c.cov["tie_wall_s"] = {"inlines": round(_t1 - _t0, 1), "blocks": round(_t2 - _t1, 1), "whole": round(_time.time() - _t2, 1)}

    # ------------------------------------------------------------------ the specification's features and triggers
    feats = [unhx(x).decode() for x in vlib.run_one(drv, "c13_features").split()[1:]]
    TRIG = {}
    for F in feats:
        r = vlib.run_one(drv, f"c13_triggers {hx(F)}")
        TRIG[F] = [unhx(x).decode("utf-8") for x in r.split()[1:]]
    known_opts = set(docgen.BOOL_EXT + docgen.BOOL_PARSE + list(STRINGY))
    if not feats or set(feats) - known_opts:
        c.problem("spec", "spec:features", f"features of Spec/Triggers.v not understood by the harness: {sorted(set(feats) - known_opts)}")
        c.finish(rule="spec/harness mismatch")
    c.cov["features"] = {F: TRIG[F] for F in feats}
    c.cov["features_not_in_scope"] = sorted(known_opts - set(feats))

    # model sanity against the generated tables: default options give exactly the unconditional bytes, and the
    # scan / arm selection run (the theorems are about these functions; no hook exposes the Rust tables)
    t0 = vlib.run_one(drv, "c13_tables -")
    tall = vlib.run_one(drv, "c13_tables " + ",".join(path_of(F) for F in feats))
    c.cov["model_tables"] = {"special_default": t0[3:259].count("1"), "special_all": tall[3:259].count("1"),
                             "skip_all": tall[259:515].count("1"), "smart": tall[515:771].count("1")}
    if t0[3:259].count("1") < 10 or tall[3:259].count("1") <= t0[3:259].count("1"):
        c.problem("model", "model:tables", f"implausible tables: {c.cov['model_tables']}")

    all_on = {k: True for k in docgen.BOOL_EXT + docgen.BOOL_PARSE}
    BASES = {"none": {}, "gfm": {k: True for k in docgen.GFM}, "all": all_on}
    stats = {F: {"cases": 0, "exhaustive_docs": 0, "random_docs": 0, "known": 0, "fail": 0} for F in feats}
    failures = []  # (F, doc, base, off, on)

    counted = {"distinct_exhaustive": 0}

    def run_cases(cases, exhaustive=False):
        """cases: list of (F, doc, base dict without F).  Shares the `off` render between features.
        Exhaustive cases are distinct by construction (each (F, base, document) is enumerated once): they are counted
        arithmetically; the others go through Check.count (hash set) when longer than every enumerated document."""
        off_ix, lines = {}, []
        plan = []
        for F, d, b in cases:
            tb = docgen.opts_token(b)
            key = (tb, d)
            if key not in off_ix:
                off_ix[key] = len(lines)
                lines.append(f"md html {tb} {hx(d)}")
            plan.append((off_ix[key], len(lines)))
            lines.append(f"md html {docgen.opts_token(with_f(b, F))} {hx(d)}")
        out = vlib.run_lines(vh, lines, timeout=1800)
        for (F, d, b), (i, j) in zip(cases, plan):
            stats[F]["cases"] += 1
            if exhaustive:
                c.cov["evaluations"] += 1
                if nontrivial(d):
                    counted["distinct_exhaustive"] += 1
            elif len(d) > 6:
                c.count(f"{F}|{docgen.opts_token(b)}|".encode() + d.encode("utf-8", "surrogatepass"), nontrivial(d))
            else:
                c.cov["evaluations"] += 1
            if out[i] != out[j]:
                failures.append((F, d, b, out[i], out[j]))
        return len(lines)

    # ------------------------------------------------------------------ (a) exhaustive small documents
    maxlen = 4 if tier == "thorough" else 3
    renders = 0
    sample_free = []
    n_exh = 0
    # chunk = (documents, names of the bases it is run under)
    chunks = [(["".join(t) for n in range(0, 4) for t in itertools.product(ALPHABET, repeat=n)], list(BASES))]
    if maxlen >= 4:
        # length 4 on the large alphabet: under every extension only (the base with the most interactions)
        chunks += [([pre + "".join(t) for t in itertools.product(ALPHABET, repeat=3)], ["all"]) for pre in ALPHABET]
    # second domain: longer documents over the bytes that drive block structure
    maxlen2 = 6 if tier == "thorough" else 5
    small = ["".join(t) for n in range(4, maxlen2 + 1) for t in itertools.product(ALPHABET2, repeat=n)]
    chunks += [(small[i:i + 60000], list(BASES)) for i in range(0, len(small), 60000)]
    for ci, (docs, bnames) in enumerate(chunks):
        n_exh += len(docs)
        for bname in bnames:
            base = BASES[bname]
            cases = []
            for F in feats:
                b = {k: v for k, v in base.items() if k != F}
                tr = TRIG[F]
                fd = [d for d in docs if not any(t in d for t in tr)]
                stats[F]["exhaustive_docs"] += len(fd) if bname == bnames[0] else 0
                cases.extend((F, d, b) for d in fd)
                if bname == "none" and ci == 0:
                    sample_free.extend((F, d) for d in fd[::53])
            renders += run_cases(cases, exhaustive=True)
    c.cov["exhaustive"] = True
    c.cov["exhaustive_domain"] = (f"all documents of length <= {maxlen} over the {len(ALPHABET)}-byte alphabet {ALPHABET!r} and all documents of length 4..{maxlen2} over {ALPHABET2!r} ({n_exh} documents), minus those containing a trigger "
                                  f"string of F, for each of the {len(feats)} features under the bases none / GFM / every extension and parse switch (without F)" + (" (length 4 on the large alphabet: under the last base only); " if maxlen >= 4 else "; ") +
                                  "the grammar documents are a random sample, not exhaustive")

    # ------------------------------------------------------------------ (b) grammar documents with F's triggers removed
    nper = 1500 if tier == "quick" else 15000
    cases = []
    census = {F: {} for F in feats}
    for F in feats:
        for _ in range(nper):
            d = docgen.gen_malformed(rng) if rng.random() < 0.1 else docgen.gen_doc(rng)
            # NUL first: removing it after the stripping could join two halves of a trigger again
            d = strip_triggers(rng, d.replace("\x00", ""), TRIG[F])
            o = docgen.gen_opts(rng, exclude=(F,))
            o.pop("experimental_minimize_commonmark", None)
            # the relaxed switches only act with their parent extension on
            if F == "relaxed_autolinks" and rng.random() < 0.7:
                o["autolink"] = True
            if F == "relaxed_tasklist_matching" and rng.random() < 0.7:
                o["tasklist"] = True
            cases.append((F, d, o))
            stats[F]["random_docs"] += 1
            sample_free.append((F, d))
            for G in feats:
                if G != F and not is_free(d, TRIG[G]):
                    census[F][G] = census[F].get(G, 0) + 1
    ncorpus = 0
    for F, b, d in CORPUS:
        if F in TRIG and is_free(d, TRIG[F]):
            cases.append((F, d, {k: v for k, v in b.items() if k != F}))
            sample_free.append((F, d))
            ncorpus += 1
        else:
            c.problem("spec", "spec:corpus", f"corpus document for {F} is not free of its triggers {TRIG.get(F)}: {d!r}")
    for i in range(0, len(cases), 40000):
        renders += run_cases(cases[i:i + 40000])
    c.cov["renders"] = renders
    c.cov["other_syntax_present_in_stripped_docs"] = {F: {"docs": stats[F]["random_docs"], "with_other_feature_syntax": census[F]} for F in feats}

    # ------------------------------------------------------------------ the extracted free_of decides the scope
    chk = vlib.run_lines(drv, [f"c13_free_of {hx(F)} {hx(d)}" for F, d in sample_free])
    bad = [(F, d, r) for (F, d), r in zip(sample_free, chk) if r != "ok 1"]
    for F, d, r in bad[:3]:
        c.problem("spec", "spec:free_of", f"document built as free of {F} is not free_of by the extracted predicate: {d!r} -> {r}", {"feature": F, "doc": hx(d)})
    # and it does reject documents with a trigger
    neg = [(F, t + "x") for F in feats for t in TRIG[F]] + [(F, "a\n" + t) for F in feats for t in TRIG[F]]
    chk2 = vlib.run_lines(drv, [f"c13_free_of {hx(F)} {hx(d)}" for F, d in neg])
    for (F, d), r in zip(neg, chk2):
        if r != "ok 0":
            c.problem("spec", "spec:free_of", f"free_of {F} accepts a document containing a trigger: {d!r} -> {r}")
    c.cov["spec_checks"]["extracted free_of F d = true on the searched documents (all grammar documents, 1 in 53 of the exhaustive ones)"] = len(sample_free)
    c.cov["spec_checks"]["extracted free_of F d = false on documents with a trigger string"] = len(neg)

    # ------------------------------------------------------------------ classify the failures
    def differs(F, d, b):
        inp = f"md html {docgen.opts_token(b)} {hx(d)}\nmd html {docgen.opts_token(with_f(b, F))} {hx(d)}\n"
        p = subprocess.run([vh], input=inp.encode(), stdout=subprocess.PIPE, stderr=subprocess.DEVNULL, env=vlib.ENV)
        l = p.stdout.decode().split("\n")
        return len(l) >= 2 and l[0] != l[1], l

    unknown = []
    cache = {}
    for F, d, b, off, on in failures:
        cls = classify(F, d, b, vh)
        stats[F]["fail"] += 1
        if cls and any(e["class"] == cls for e in c.known):
            stats[F]["known"] += 1
            c.known_hit(cls, {"feature": F, "doc": hx(d), "doc_text": d, "base": docgen.opts_token(b), "off": off[:400], "on": on[:400]})
        else:
            unknown.append((F, d, b, off, on, cls))
    unknown.sort(key=lambda u: len(u[1]))
    for F, d, b, off, on, cls in unknown[:5]:
        tr = TRIG[F]
        try:
            d2 = shrink.ddmin(d, lambda s: is_free(s, tr) and "\x00" not in s and differs(F, s, b)[0] and classify(F, s, b, vh) is None) if len(d) > 1 else d
            b2 = shrink.shrink_opts(b, lambda t: differs(F, d2, t)[0])
        except (AssertionError, UnicodeEncodeError):
            d2, b2 = d, b
        _, l = differs(F, d2, b2)
        c.violation(f"enabling {F} changes the HTML of a document that contains none of its trigger strings {tr}",
                    {"feature": F, "doc": hx(d2), "doc_text": d2, "base": docgen.opts_token(b2), "html_off": l[0][:600], "html_on": l[1][:600],
                     "unshrunk_doc": hx(d), "unshrunk_base": docgen.opts_token(b), "class_without_known_entry": cls})
    c.cov["failures_total"] = len(failures)
    c.cov["failures_in_known_classes"] = len(failures) - len(unknown)
    c.cov["per_feature"] = stats
    for F, d in sample_free[:400:40]:
        c.cov["samples"].append({"feature": F, "triggers": TRIG[F], "doc": d})
    for F, d, b in cases[:6]:
        c.cov["samples"].append({"feature": F, "doc": d, "base": docgen.opts_token(b)})
    c.cov["input_distribution"] = {"exhaustive_documents": n_exh, "bases_exhaustive": list(BASES), "grammar_documents_per_feature": nper, "corpus": ncorpus,
                                   "grammar_constructs": docgen.feature_counts("\n".join(d for _, d, _ in cases[:3000]))}
    c.cov["partial_clauses"] = ["C13_full_statement (byte-identical HTML under the specification's free_of, trigger STRINGS) is not proved; it is what the search evaluates on the implementation. Proved on the whole parser model (Props/C13.v C13_parse_inert + C13_second_round, hypothesis free_of_heads = none of the first bytes of the trigger strings) for 17 of 23 features: strikethrough, subscript, superscript, underline, math_dollars, math_code, both wikilinks switches, smart, spoiler (equality of the two runs), alerts, multiline_block_quotes, table, footnotes, front_matter_delimiter (whenever the run with the feature succeeds, the run without gives the same tree; front matter also with equality for any delimiter when the splitter / the line-based specification of C20 finds no front matter), description_lists only with the tilde excluded as well; tagfilter / header_ids at the parser (it has no such switch); HTML corollary for a renderer record held fixed (C13_html_inert, C13_second_round part 5)",
                                "refuted on the whole parser model (C13_parse_refuted, C13_second_round part 4): greentext (C13-a), description_lists with the colon only (C13-b), autolink, tasklist, relaxed_tasklist_matching, relaxed_autolinks (C13-f); none open. Under the documented trigger STRING (two bars) spoiler is refuted on the model as well: single bars (C13-c) and a bar next to an apostrophe in a table row (C13-g, scanners.re table_spoiler is a two-byte class)",
                                "the block theorems for footnotes / alerts / multiline_block_quotes / table / description_lists are in the okle form (equality when the run with the feature panics is not proved); for spoiler and front_matter_delimiter the block phase is proved EQUAL",
                                "the HTML renderer's own record: o_footnotes and the two wikilinks fields are never read (html_blind3); o_tagfilter is read at HtmlBlock / HtmlInline nodes only, o_header_ids at Heading nodes only, o_relaxed_autolinks at a Link whose parent is a Link only (C13-e) -- C13_second_round part 5; that a trigger-free DOCUMENT yields a tree without such nodes is not proved (tagfilter, header_ids, relaxed_autolinks stay with the search for the renderer's switch)",
                                "find_special_char inertness under free_of fails at the scan level for autolink (w), spoiler (single bar) and smart (single hyphen / full stop): C13_find_special_free_refuted_*; the text nodes are merged later (not modelled)",
                                "known classes C13-a (greentext switches lazy continuation off), C13-b (description item introduced by a tilde), C13-c (spoiler pairs single bars), C13-d (escaped caret still opens a footnote reference), C13-e (relaxed_autolinks drops the start tag of a link nested directly in a link), C13-f (post-pass reads decoded text), C13-g (a bar next to an apostrophe is cell content under spoiler) are excluded from the search verdict"]
    c.assumptions = ["Gen/Special.v and Gen/AuditOptions.v are regenerated from src/parser/*.rs and src/html.rs on every run; the find_special_char loop is compared verbatim with the loop Model/Special.v transcribes",
                     "no hook exposes Subject's tables or find_special_char of the compiled library: the model of the tables is tied by the translator only, not by a run-time correspondence",
                     "the trigger strings of Spec/Triggers.v are read from the options' documentation; header_ids is exercised with the empty prefix and front_matter_delimiter with ---",
                     "class C13-a is recognised on the parse tree of the run without greentext (sourcepos + list metadata), not by a model of the block parser"]
    extra = {"distinct_nontrivial": len(c.distinct) + counted["distinct_exhaustive"], "distinct_nontrivial_exhaustive": counted["distinct_exhaustive"]}
    c.finish(extra=extra, rule="a case is (feature F, base option set without F, document free of F's trigger strings); evaluations count cases (two renders each, the off render shared); "
                  "distinct by (F, base token, document bytes): the enumerated cases are distinct by construction and counted as such, the generated ones are counted through a hash set and only when longer than 6 characters (so that none coincides with an enumerated one); non-trivial = the document contains at least one byte that is not alphanumeric or a space",
             trusted_base=["Coq 8.16.1 kernel (vm_compute for the finite checks over 23 features x 256 bytes x 19 arms)", "no axioms (Print Assumptions: closed for every theorem)",
                           "tools/gen_model.py recognisers of item `special` (statement grammar of Subject::new, guard grammar, arm splitter, option-read regex)",
                           "extraction (ExtrOcamlBasic only) + ocaml/d_special.ml", "harness/src (hex protocol, option token decoding)", "tools/docgen.py grammar"])
