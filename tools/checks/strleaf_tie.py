"""STRLEAF_TIE — tie of the leaf models (coq/Model/Strings.v, Entity.v, LinkUrl.v, AutolinkLeaf.v, ListMarker.v)
to the compiled functions of /repo (strings.rs, entity.rs, inlines.rs manual_scan_link_url*, autolink.rs helpers,
table.rs unescape_pipes, parser/mod.rs parse_list_marker / scan_thematic_break_inner).

`tie_strleaf(c, tier)` is meant to be called from other checks (it adds correspondences `strleaf.<fn>` to the
check's coverage and reports disagreements through c.problem / c.violation).  `./check STRLEAF_TIE quick` runs it
alone together with the theorems of coq/Props/StrLeaf.v and writes evidence/STRLEAF_tie.json.

Per function: exhaustive over all strings up to a small length on the function's own alphabet (the bytes its
code distinguishes, a multi-byte character, NUL) and random longer strings.  Panics: the implementation's panic
must be the model's `Panic` (and the other way round); inputs on which both panic are counted apart and named in
the evidence (they are outside the callers' preconditions, see Props/StrLeaf.v `*_refuted`)."""
import itertools, os
import vlib
from vlib import hx, unhx

ITEMS = ["ctype", "strleaf", "entities"]
MB = "é".encode()       # 2 bytes
MB3 = "漢".encode()     # 3 bytes
MB4 = "😀".encode()     # 4 bytes


def strings_over(alphabet, maxlen):
    """all concatenations of up to maxlen alphabet items (items are byte strings)"""
    out = [b""]
    layer = [b""]
    for _ in range(maxlen):
        layer = [p + a for p in layer for a in alphabet]
        out.extend(layer)
    return out


def alpha(s, *extra):
    return [bytes([b]) for b in s] + list(extra)


def rand_strings(rng, alphabet, n, maxlen=40):
    out = []
    for _ in range(n):
        ln = rng.choice([5, 6, 7, 8, 10, 13, 21, 34]) if rng.random() < 0.9 else rng.randrange(0, maxlen)
        out.append(b"".join(rng.choice(alphabet) for _ in range(ln)))
    return out


def is_utf8(b):
    try:
        b.decode("utf-8")
        return True
    except UnicodeDecodeError:
        return False


class Fn:
    """one function: name, op token, case lines for the harness, and how to turn the harness answer into the
    model's input line (oracles)"""

    def __init__(self, name, lines, oracle=None):
        self.name, self.lines, self.oracle = name, lines, oracle


def entity_cases(rng, table, emax):
    """every table entry + perturbations; numeric shapes; names up to the limits +-1"""
    cases = []
    names = [n for n, _ in table]
    for n in names:
        body = n[1:]                       # without the ampersand
        cases.append(body)
        if body.endswith(b";"):
            core = body[:-1]
            cases += [core, body + b";", core + b" ;", core[:-1] + b";", core + b"x;", b" " + body, core.upper() + b";", core.lower() + b";"]
            if rng.random() < 0.2:
                cases += [core[:k] + b";" for k in range(1, len(core))]
    for t in ["#;", "#x;", "#X;", "#1234567;", "#12345678;", "#0;", "#00;", "#0000000;", "#1114111;", "#1114112;", "#9999999;",
              "#xD800;", "#xD7FF;", "#xDFFF;", "#xE000;", "#xE001;", "#x10FFFF;", "#x110000;", "#xFFFFFF;", "#x0000041;", "#x000041;",
              "#x00000041;", "#65;", "#065;", "#0000065;", "#00000065;", "#65", "#x41", "#x;a", "#a;", "#x4g;", "#X4a;", "#55296;",
              "#57343;", "#57344;", "#65533;", "#127;", "#128;", "#2047;", "#2048;", "#65535;", "#65536;", "#1;", "#x1;", "#x", "#", "",
              ";", "a;", "ab;", "amp", "amp;", "amp;;", "am p;", "a;b;", ";;;", "#;;", "# 1;", "#-1;", "#+1;", "#1 ;", "#1x;", "#x1 ;"]:
        cases.append(t.encode())
    # long names around ENTITY_MAX_LENGTH (the longest real name: CounterClockwiseContourIntegral, 31 bytes)
    longest = max((n[1:-1] for n in names if n.endswith(b";")), key=len)
    for ln in range(emax - 4, emax + 4):
        cases.append(b"a" * ln + b";")
        cases.append(b"a" * ln)
        cases.append((longest + b"x" * 40)[:ln] + b";")
    cases.append(longest + b";")
    cases.append(longest + b";tail")
    return cases


def build_functions(c, tier, table, emin, emax):
    rng = c.rng
    q = tier == "quick"
    R = 1500 if q else 20000
    fns = []

    def simple(name, op, cases, fmt=None):
        fmt = fmt or (lambda s: f"{op} {hx(s)}")
        fns.append(Fn(name, [fmt(s) for s in cases]))

    # ---- strings.rs
    a = alpha(b"\\!a \\", MB, b"\0", b"-")
    cs = strings_over(alpha(b"\\!\\a", MB, b"\0"), 5) + rand_strings(rng, alpha(b"\\\\\\!\"#/a[]`~ ", MB, b"\0"), R)
    cs += [b"\\" + bytes([b]) for b in range(256)] + [b"a\\" + bytes([b]) + b"\\" for b in range(256)]      # every byte after a backslash
    simple("strings::unescape", "sl_unescape", cs)
    ws = alpha(b" \t\n\r\x0b\x0ca", MB, b"\0")
    cs = strings_over(ws, 4) + rand_strings(rng, ws, R) + [bytes([b]) + b"x" + bytes([b]) for b in range(256)]
    for nm, op in (("rtrim", "sl_rtrim"), ("ltrim", "sl_ltrim"), ("trim", "sl_trim"), ("ltrim_slice", "sl_ltrim_slice"),
                   ("rtrim_slice", "sl_rtrim_slice"), ("trim_slice", "sl_trim_slice"), ("is_blank", "sl_is_blank")):
        simple("strings::" + nm, op, cs)
    cs = [bytes([b]) for b in range(256)]
    simple("strings::is_line_end_char", "sl_is_line_end_char", cs)
    simple("strings::is_space_or_tab", "sl_is_space_or_tab", cs)
    nc = alpha(b" \r\na`", MB, b"\0")
    simple("strings::normalize_code", "sl_normalize_code", strings_over(nc, 5) + rand_strings(rng, nc, R))
    bl = alpha(b" \t\r\na", MB, b"\0")
    simple("strings::remove_trailing_blank_lines", "sl_rtbl", strings_over(bl, 5) + rand_strings(rng, bl, R))
    ch = alpha(b"# \t\na\\", MB, b"\0")
    simple("strings::chop_trailing_hashtags", "sl_chop", strings_over(ch, 5) + rand_strings(rng, ch, R))
    sh = strings_over(alpha(b"ab", b"\0"), 4)
    fns.append(Fn("strings::shift_buf_left", [f"sl_shift {hx(s)} {n}" for s in sh for n in range(0, len(s) + 3)]))
    ent_bits = [b"&amp;", b"&#65;", b"&#x41;", b"&lt", b"&", b";", b"\\", b"\\&", b"a", b" ", b"\t", b"\n", b"'", b'"', b"(", b")", b"&ouml;", b"&#0;", b"&#xD800;", MB, b"\0"]
    cu = strings_over(ent_bits, 3) + rand_strings(rng, ent_bits, R)
    simple("strings::clean_url", "sl_clean_url", cu)
    ti = strings_over(alpha(b"'\"()a\\&", MB, b"\0"), 4) + strings_over(ent_bits, 2) + rand_strings(rng, ent_bits, R)
    simple("strings::clean_title", "sl_clean_title", ti)
    fns.append(Fn("strings::clean_autolink", [f"sl_clean_autolink {hx(s)} {k}" for s in cu for k in (0, 1)]))
    # normalize_label: valid UTF-8 only (the argument is a &str); the fold oracle comes back from the harness
    uws = [" ", "\t", "\n", "\r", "\x0b", "\x0c", "\u0085", "\u00a0", "\u1680", "\u2000", "\u2005", "\u200a", "\u200b", "\u2028", "\u2029",
           "\u202f", "\u205f", "\u3000", "\u2060", "\ufeff", "\u180e", "\u0084", "\u00a1", "\u2027", "\u202e", "\u3001",
           "a", "B", "\u1e9e", "\u0130", "\u01c5", "\u03a3", "\u03c2", "\u00e9", "\u00c9", "\u6f22", "\U0001f600", "\0", "\ufb00", "\u212a"]
    uw = [x.encode() for x in uws]
    lab = strings_over([x.encode() for x in [" ", "\t", "\n", "\x0b", "\u00a0", "\u2003", "a", "B", "\u1e9e"]], 4) + rand_strings(rng, uw, R)
    fns.append(Fn("strings::normalize_label", [f"sl_normalize_label {hx(s)} {k}" for s in lab for k in (0, 1)],
                  oracle=lambda line, ans: line + " F " + ans.split(" F ", 1)[1] if " F " in ans else line))
    pats = [b"", b"\xef\xbb\xbf", b"a", b"ab", MB]
    fns.append(Fn("strings::trim_start_match", [f"sl_trim_start_match {hx(s)} {hx(p)}" for p in pats
                                                 for s in strings_over([b"a", b"b", MB, b"\xef\xbb\xbf"], 3)]))
    # ---- entity.rs
    ec = entity_cases(rng, table, emax)
    ea = alpha(b"#xX0aF9;& g", MB, b"\0")
    ec += strings_over(ea, 4 if q else 5) + rand_strings(rng, alpha(b"#xX0123456789abcdefABCDEF;;;& gamplt", MB, b"\0"), R)
    ec += [b"#x" + bytes([b]) + b";" for b in range(256)] + [b"#" + bytes([b]) + b";" for b in range(256)] + [b"#1" + bytes([b]) for b in range(256)]
    simple("entity::unescape", "sl_entity_unescape", ec)
    eh = [b"&" + e for e in ec[: (3000 if q else len(ec))]] + strings_over(ent_bits, 3) + rand_strings(rng, ent_bits + [b"&#", b"&#x", b"0", b"1", b"f", b"F"], R)
    simple("entity::unescape_html", "sl_unescape_html", eh)
    # ---- inlines.rs
    ua = alpha(b"<>\\()a \n\x01\x7f!", MB, b"\0")
    cs = strings_over(ua, 4) + rand_strings(rng, ua, R)
    deep = [b"(" * k + b"a" + b")" * k + t for k in (30, 31, 32, 33, 34) for t in (b"", b" ", b")", b" x")]
    deep += [b"(" * k + b")" * j + b" " for k in (31, 32, 33) for j in (k - 1, k, k + 1)]
    deep += [b"\\(" * 40 + b"(" * 32 + b")" * 32 + b")", b"()" * 100 + b" ", b"(" * 32 + b"\\)" + b")" * 32 + b" "]
    deep += [bytes([b]) + b" " for b in range(256)] + [b"a" + bytes([b]) + b" " for b in range(256)] + [b"a\\" + bytes([b]) + b") " for b in range(256)]
    deep += [b"<a" + bytes([b]) + b">x" for b in range(256)]
    simple("inlines::manual_scan_link_url", "sl_scan_url", cs + deep)
    simple("inlines::manual_scan_link_url_2", "sl_scan_url2", cs + deep)
    # ---- autolink.rs / table.rs
    da = [b"a", b"_", b".", b"-", b"\\", b"/", b" ", b"\x01", MB, " ".encode(), "—".encode(), "€".encode(), MB4, b"\0", b"W"]
    dom = [s for s in strings_over(da, 4)] + rand_strings(rng, da + [b"www.", b"a.b", b"_a", b"a_"], R)
    dom += [b"a" + b".a" * k + t for k in (9, 10, 11, 12) for t in (b"_b", b"_b/", b"._", b"_.a.b/")]
    fns.append(Fn("autolink::check_domain", [f"sl_check_domain {hx(s)} {k}" for s in dom for k in (0, 1)],
                  oracle=lambda line, ans: line + " H" + ans.split(" H", 1)[1] if " H" in ans else line))
    simple("autolink::is_valid_hostchar (ASCII)", "sl_hostchar", [bytes([b]) for b in range(128)])
    la = alpha(b"a);&(<.?]}[{!", MB, b"\0")
    dl = strings_over(la, 4) + rand_strings(rng, la, R)
    dcases = []
    for s in dl:
        ends = range(0, len(s) + 2) if len(s) <= 4 else (len(s), rng.randrange(0, len(s) + 1))
        for e in ends:
            for rel in (0, 1):
                dcases.append(f"sl_autolink_delim {hx(s)} {e} {rel}")
    dcases += [f"sl_autolink_delim {hx(b'www.a.com/x' + b')' * k)} {11 + k} 0" for k in (1, 2, 50, 300)]
    dcases += [f"sl_autolink_delim {hx(b'ab' + bytes([b]))} 3 {rel}" for b in range(256) for rel in (0, 1)]     # every closing byte
    dcases += [f"sl_autolink_delim {hx(b'a&' + bytes([b]) + b';')} 4 0" for b in range(256)]
    dcases += [f"sl_autolink_delim {hx(b'a&amp;')} 6 0", f"sl_autolink_delim {hx(b'a&;')} 3 0", f"sl_autolink_delim {hx(b'&amp;')} 5 0",
               f"sl_autolink_delim {hx(b';')} 1 0", f"sl_autolink_delim {hx(b'a;')} 2 0", f"sl_autolink_delim {hx(b'ab;')} 3 0"]
    fns.append(Fn("autolink::autolink_delim", dcases))
    va = alpha(b"mailto:xp1 ", MB)
    vc = []
    for s in strings_over(alpha(b"ma:1", MB), 4) + [b"mailto:", b"xmailto:", b"mailto", b"ailto:", b" mailto:x", b"xmpp:a", b"1xmpp:"] + rand_strings(rng, va, R // 3):
        for pr in (b"mailto", b"xmpp", b"ma", b"m", b""):
            for cur in (range(0, len(s) + 2) if len(s) <= 4 else (len(s), rng.randrange(0, len(s) + 1), max(0, len(s) - 1))):
                vc.append(f"sl_validate_protocol {hx(pr)} {hx(s)} {cur}")
    fns.append(Fn("autolink::validate_protocol", vc))
    pa = alpha(b"\\|a", MB, b"\0")
    simple("table::unescape_pipes", "sl_unescape_pipes", strings_over(pa, 5) + rand_strings(rng, pa, R))
    # ---- parser/mod.rs
    ma = alpha(b"-+*1.) \t\n\ra0", MB, b"\0")
    lm = []
    ms = strings_over(ma, 4) + rand_strings(rng, ma, R) + [b"1" * k + t for k in range(7, 12) for t in (b". a\n", b")\n", b".\n", b"")]
    ms += [bytes([b]) + b" a\n" for b in range(256)] + [b"1" + bytes([b]) + b" a\n" for b in range(256)] + [b"-" + bytes([b]) + b"\n" for b in range(256)]
    ms += [b"123456789. a\n", b"1234567890. a\n", b"0. a\n", b"1. \n", b"1.  \r\n", b"-   \n", b"-   \r\n", b"*\r\n", b"2. a\n"]
    for s in ms:
        for pos in (range(0, len(s) + 1) if len(s) <= 3 else (0, rng.randrange(0, len(s) + 1))):
            for ip in (0, 1):
                lm.append(f"sl_list_marker {hx(s)} {pos} {ip}")
    fns.append(Fn("parser::parse_list_marker", lm))
    ta = alpha(b"*-_ \t\n\ra", MB, b"\0")
    tb = []
    for s in strings_over(ta, 5) + rand_strings(rng, ta, R):
        for fnsp in (range(0, len(s) + 2) if len(s) <= 3 else (0, 1, rng.randrange(0, len(s) + 2))):
            tb.append(f"sl_thematic {hx(s)} {fnsp}")
    fns.append(Fn("parser::scan_thematic_break_inner", tb))
    return fns


def entities_table():
    """the dump the translator used, re-read from the harness (for the case generator)"""
    out = vlib.run_one(vlib.VH["debug"], "entities_dump", timeout=60)
    toks = out.split()
    if len(toks) < 3 or toks[0] != "ok":
        return None
    pairs = [(unhx(toks[i]), unhx(toks[i + 1])) for i in range(3, len(toks) - 1, 2)]
    return int(toks[1]), int(toks[2]), pairs


def tie_strleaf(c, tier, profile="debug", translator_done=False):
    """builds, translator items, and the per-function correspondences.  Returns True when everything agreed."""
    # the `entities` translator item runs the harness: build it first
    if not c.phase_builds((profile,), driver=False):
        return False
    if not translator_done:
        c.phase_translator(ITEMS)
    if not c.phase_builds((profile,)):
        return False
    ed = entities_table()
    if ed is None:
        c.problem("correspondence", "strleaf.entities_dump", "vh entities_dump did not answer")
        return False
    emin, emax, table = ed
    fns = build_functions(c, tier, table, emin, emax)
    all_ok = True
    both_panic = {}
    for f in fns:
        real = vlib.run_lines(vlib.VH[profile], f.lines, timeout=900)
        mlines = [f.oracle(l, a) for l, a in zip(f.lines, real)] if f.oracle else f.lines
        model = vlib.run_lines(vlib.DRIVER, mlines, timeout=900)
        agree = 0
        npanic = 0
        skipped = 0
        for line, a, m in zip(f.lines, real, model):
            if a.startswith("err nonutf8"):
                skipped += 1
                continue
            c.count(("strleaf:" + line).encode(), len(line) > 24)
            a0 = a
            if f.oracle:
                a0 = a.split(" F ", 1)[0] if " F " in a else a.split(" H", 1)[0]
            if a.startswith("panic"):
                npanic += 1
                if m.startswith("panic"):
                    agree += 1
                    both_panic.setdefault(f.name, {"line": line, "model": m, "impl": a.split()[-1]})
                else:
                    all_ok = False
                    c.problem("correspondence", "strleaf." + f.name, f"implementation panics ({a[:120]}) but the model returns {m[:80]}", {"line": line})
                continue
            if m == a0:
                agree += 1
            else:
                all_ok = False
                c.problem("correspondence", "strleaf." + f.name, f"impl={a0[:160]} model={m[:160]}", {"line": line})
        c.cov["correspondences"]["strleaf." + f.name] = {"cases": len(f.lines) - skipped, "agree": agree, "both_panic": npanic}
        if len(c.cov["samples"]) < 12 and f.lines:
            c.cov["samples"].append({"fn": f.name, "line": f.lines[len(f.lines) // 2], "impl": real[len(f.lines) // 2][:80]})
    c.cov["strleaf_panics_outside_preconditions"] = both_panic
    return all_ok


def main(tier):
    c = vlib.Check("STRLEAF_tie", tier)
    if not c.phase_builds(("debug",), driver=False):
        c.finish(rule="build failed")
    c.phase_translator(ITEMS)
    c.phase_proofs(file="StrLeaf")
    tie_strleaf(c, tier, translator_done=True)
    c.finish(level="proof",
             rule="per leaf function: every string up to length 3..5 over the bytes its code distinguishes plus a multi-byte character and NUL, "
                  "random longer strings, every entry of the entities table with perturbations; a case is non-trivial when its argument is longer than 3 bytes; "
                  "model (extracted Coq) and compiled function must print the same answer, panics must coincide",
             trusted_base=["Coq 8.16 kernel + extraction", "rustc", "harness/src/ops_strleaf.rs and ocaml/d_strleaf.ml print answers in the same layout",
                           "Unicode oracles: default_case_fold_str (normalize_label) and is_valid_hostchar beyond ASCII are answered by the compiled library"])
