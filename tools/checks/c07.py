"""C07 — CommonMark output re-parses to the same document.
Proved (coq/Props/C07.v, all inputs): the two admitted normalisations are idempotent and touch nothing else;
the reading side of every escape form cm.rs outc writes (backslash escapes for any per-position policy inside
outc's translated byte sets, %XX, &#N;).  NOT proved: the global equation.  It is evaluated here on the
implementation: documents from the standard construct grammar x width {0,1..120} x list_style x ol_width 0..8 x
prefer_fenced x GFM; H2 must equal H1 after strip_end_list_comments / collapse_nested_strong; every failure is
shrunk (ddmin on the document, option removal, width reduction) and must fall into a class of
known_findings.json (decidable predicates in tools/checks/rtfam.py, eight of them extracted from
Spec/RoundTrip.v and cross-checked); anything else is a violation.  A deterministic sweep of small structures
(rtfam.grid_cases: block pairs x container contexts, word triples x wrap widths) is classified without shrinking."""
import vlib
from checks import rtfam


def main(tier):
    c = vlib.Check("C07", tier)
    c.phase_translator(["rt_outc"])
    c.phase_proofs()
    if not c.phase_builds(profiles=("debug", "release")):
        c.finish(rule="build failed")
    rtfam.run(c, "C07", tier)
    c.cov["partial_clauses"] = ["the global statement html(parse(cm(parse x))) = html(parse x) is not proved; it is evaluated on the implementation and fails on the recorded classes",
                                "the formatter model and its per-construct delimiter theorems are Props/CmLeaf.v (tie_cm), not this check"]
    c.assumptions = ["documents are valid UTF-8 built from CommonMark + GFM constructs; HTML is rendered with unsafe on so that raw HTML differences are visible",
                     "equality of documents is observed through format_html"]
    c.finish(level="proof", rule="distinct by (options, document); non-trivial = the parsed tree has more than three nodes", trusted_base=rtfam.TRUSTED)
