"""PARSE_TIE — tie of the WHOLE-parser model (coq/Model/Parse.v `parse_document_model`: block phase, process_inlines,
process_footnotes, postprocess_text_nodes composed in ONE Coq function) to the compiled `parse_document`, end to end.

For a case (opts, md) the harness op `parseu <opts> <mdhex>` answers the final tree of parse_document (the token
format of the op `parse`: kinds, payloads, source positions) and the Unicode oracle table of the document
(char::is_whitespace, is_punctuation|is_symbol, default_case_fold of every non-ASCII character, computed by the
compiled library); the driver op `parse_model <opts> <oracle table> <mdhex>` (ocaml/d_parse.ml) prints the tree
`parse_document_model` returns.  The comparison is string equality of the two trees: nothing is masked or
normalised (footnote numbering, task-list effects and every source position included).  The reference map is the
one the MODEL's block phase builds (it is not asked from the compiled parser as in INLINES_TIE), and the reference
budget is threaded from leaf to leaf inside the model.

Scopes
  exhaustive bytes    every document of length <= 3 over a mixed block + inline byte alphabet, three option sets;
                      a random share of the lengths 4 and 5
  exhaustive tokens   every sequence of <= 2 (3 in thorough) tokens over block / inline constructs (list and task
                      markers, fences, table rows, reference and footnote definitions and uses, autolinks, emphasis ..)
  docgen              tools/docgen.py documents (gen_doc / gen_malformed / inline soups) under random option sets
  lineends            CR / CRLF / NUL / BOM / no-final-newline / front matter variants (blocks_tie.lineend_variants)
  structured          the line-fragment products and the caps of blocks_tie (special_docs), all extensions on
  reference budget    a long reference definition used until the expansions pass max_ref_size (floor 100000 bytes), in
                      paragraphs, headings, items, quotes, cells and a footnote: the budget is threaded across blocks.
                      (Inputs longer than 100000 bytes, where max_ref_size = total_size, agree as well but take the model
                      minutes each - its positions are unary numbers - and are not part of the scopes.)
  corpus              the witnesses of known_findings.json that are documents, under their recorded options

Classes per case: agree | scope (the model answers OutOfScope: a leaf content holding NUL - `feed` replaces NUL, so
this is not expected to occur; counted, never dropped) | both_panic | mismatch (anything else, including a panic /
fuel exhaustion on one side only).  Every mismatch is shrunk (tools/shrink.py) and reported through
c.problem("correspondence", "parser.whole", ..).

`tie_parse(c, tier, frac)` is for other checks (layerc.whole); `./check PARSE_TIE quick` runs it alone with the
theorems of coq/Props/Parse.v, ParseMore.v and writes evidence/PARSE_TIE.json."""
import itertools, json, os, re, sys
if __name__ == "__main__":
    sys.path.insert(0, os.path.join(os.path.dirname(os.path.abspath(__file__)), ".."))
import vlib, docgen, shrink
from vlib import hx, unhx

ITEMS = ["blocks", "nodes", "feed", "frontmatter", "scanners_re", "strleaf", "entities", "ctype", "special", "consts", "srcpos",
         "inlines_audit", "c15", "parse_glue"]

BYTES = [b"a", b" ", b"\n", b"*", b"_", b"`", b"[", b"]", b"(", b")", b"-", b">", b"#", b"|", b":", b"^", b"<", b"!", b"\\", b"x", b"1", b".", b"~", b"&"]
TOKENS = [b"a", b" ", b"\n", b"\n\n", b"- ", b"- [x] ", b"- [ ] ", b"[ ] ", b"1. ", b"> ", b"# ", b"    ", b"```\n", b"---\n", b"===\n",
          b"| a | b |\n", b"|---|---|\n", b"| c |\n", b"[r]", b"[r]: /u 't'\n", b"[^f]", b"[^f]: ", b"[^g]: n[^f]\n", b"*", b"**", b"_", b"`", b"~~",
          b"[t](/u)", b"![i][r]", b"<a>", b"<div>\n", b"www.a.b", b"a@b.c", b"http://a.b", b"\\", b"&amp;", b"$x$", b"[[w|t]]", b"||s||",
          b": d\n", b">>>\n", b"> [!note]\n", b"\xc3\x89", b"  \n", b"\t", b"\r\n", b"x"]
OPTSETS = {
    "default": "-",
    "gfm": "strikethrough,table,autolink,tasklist,tagfilter",
    "all": "strikethrough,table,autolink,tasklist,superscript,footnotes,description_lists,multiline_block_quotes,alerts,"
           "math_dollars,math_code,wikilinks_title_after_pipe,underline,subscript,spoiler,greentext,smart",
    "allb": "table,autolink,tasklist,superscript,footnotes,math_dollars,math_code,wikilinks_title_before_pipe,underline,"
            "subscript,spoiler,smart,relaxed_tasklist_matching,relaxed_autolinks,escaped_char_spans,ignore_empty_links,ignore_setext,"
            "description_lists,alerts,multiline_block_quotes",
}


def products(alpha, maxlen):
    for n in range(0, maxlen + 1):
        for t in itertools.product(alpha, repeat=n):
            yield b"".join(t)


def is_utf8(b):
    try:
        b.decode("utf-8")
        return True
    except UnicodeDecodeError:
        return False


# --------------------------------------------------------------------------- one batch
def harness_lines(cases):
    return [f"parseu {o} {hx(md)}" for (o, md) in cases]


def model_line(o, md, ans):
    """ans: `ok <tree> | U n ...` -> (impl tree, driver line) or None"""
    if not ans.startswith("ok "):
        return None
    parts = ans[3:].split(" | ")
    if len(parts) != 2 or not parts[1].startswith("U "):
        return None
    return parts[0], f"parse_model {o} {parts[1][2:]} {hx(md)}"


def run_cases(cases, profile="debug"):
    """cases: list of (opts token, md bytes) -> list of (class, detail, impl line, model line)"""
    hl = harness_lines(cases)
    real = vlib.run_lines(vlib.VH[profile], hl, timeout=1800)
    jobs, out = [], [None] * len(cases)
    for i, ((o, md), a) in enumerate(zip(cases, real)):
        r = model_line(o, md, a)
        if r is None:
            # the implementation panicked (or the harness failed): ask the model with the ASCII oracle
            jobs.append((i, None, f"parse_model {o} 0 {hx(md)}", a))
        else:
            jobs.append((i, r[0], r[1], a))
    model = vlib.run_lines(vlib.DRIVER, [j[2] for j in jobs], timeout=1800)
    for (i, want, ml, a), m in zip(jobs, model):
        if want is None:
            if a.startswith("panic") and m.startswith("panic"):
                out[i] = ("both_panic", f"impl {a[:200]} model {m[:200]}", hl[i], ml)
            else:
                out[i] = ("mismatch", f"impl {a[:300]} model {m[:300]}", hl[i], ml)
        elif m.startswith("oos"):
            out[i] = ("scope", m, hl[i], ml)
        elif m == "ok " + want:
            out[i] = ("agree", "", hl[i], ml)
        else:
            out[i] = ("mismatch", f"impl  ok {want[:1500]}\n model {m[:1500]}", hl[i], ml)
    return out


def classify(o, md, profile="debug"):
    return run_cases([(o, md)], profile)[0]


def shrink_case(o, md, profile="debug"):
    def bad(s):
        b = s.encode("latin-1")
        if not is_utf8(b):
            return False
        return classify(o, b, profile)[0] == "mismatch"
    s = md.decode("latin-1")
    try:
        if len(md) <= 600 and bad(s):
            s = shrink.ddmin(s, bad)
    except Exception:
        pass
    d2 = s.encode("latin-1")
    # then the options
    keys = [kv for kv in o.split(",") if kv and kv != "-"]
    for kv in list(keys):
        t = [k for k in keys if k != kv]
        if classify(",".join(t) or "-", d2, profile)[0] == "mismatch":
            keys = t
    return ",".join(keys) or "-", d2


# --------------------------------------------------------------------------- the corpus of earlier findings
KEY_RE = re.compile(r"^[a-z_]+(=[0-9a-f]+|=-|=plus|=star|=dash)?$")


def corpus():
    """(opts token, md) of every witness of known_findings.json that is a document"""
    p = os.path.join(vlib.ROOT, "known_findings.json")
    out, seen = [], set()
    known = set(docgen.ALL_BOOL) | {"header_ids", "front_matter_delimiter", "default_info_string", "width", "ol_width", "list_style"}
    try:
        fs = json.load(open(p)).get("findings", [])
    except Exception:
        return out
    for f in fs:
        w = f.get("witness")
        if not isinstance(w, dict):
            continue
        docs = []
        for k in ("md", "markdown", "doc"):
            if isinstance(w.get(k), str):
                docs.append(w[k].encode("utf-8", "surrogateescape") if False else w[k].encode("utf-8", "replace"))
        if isinstance(w.get("input"), str) and "fn" not in w and re.fullmatch(r"([0-9a-f]{2})+", w["input"]):
            docs.append(bytes.fromhex(w["input"]))
        for k in ("more_inputs", "also"):
            v = w.get(k)
            if isinstance(v, list):
                docs.extend(x.encode("utf-8", "replace") for x in v if isinstance(x, str))
        o = w.get("options", w.get("opts", "-"))
        if isinstance(o, dict):
            o = docgen.opts_token(o)
        if not isinstance(o, str) or not o:
            o = "-"
        toks = [kv for kv in o.split(",") if kv and kv != "-"]
        if not all(KEY_RE.match(kv) and kv.split("=")[0] in known for kv in toks):
            o = "-"
        for d in docs:
            if not is_utf8(d) or len(d) > 20000:
                continue
            for oo in {o, OPTSETS["all"]}:
                if (oo, d) not in seen:
                    seen.add((oo, d))
                    out.append((oo, d))
    return out


def budget_docs():
    """one definition whose url + title is a few thousand bytes, used often enough that the expansions pass the floor
    of the reference budget (100000 bytes): the lookups after that fail, whichever block they are in"""
    u = b"u" * 3300
    out = [b"[r]: /" + u + b"\n\n" + b"[r]\n\n" * 32,
           b"[r]: /" + u + b" '" + b"t" * 1700 + b"'\n\n" + b"[r] [r]\n\n> [r]\n\n- [r]\n\n" * 6 + b"| [r] |\n|---|\n| [r] |\n",
           b"[a]: /" + b"v" * 2500 + b"\n[b]: /" + b"w" * 2500 + b"\n\n" + b"# [a] ![b]\n\n[a][]\n[x][b]\n\n" * 11,
           b"[r]: /" + u + b"\n\n" + b"- [ ] [r]\n" * 16 + b"\nx[^f]\n\n[^f]: [r] [r]\n\n" + b"[r]\n\n" * 16]
    return out


# --------------------------------------------------------------------------- the tie
def tie_parse(c, tier, frac=1.0, profile="debug", max_report=8):
    """correspondence `parser.whole`; returns True when every compared document agrees.  frac < 1 keeps that
    fraction of every scope (property checks that share this tie; the full scopes run in PARSE_TIE)"""
    from checks import blocks_tie
    if not c.phase_builds((profile,)):
        return False
    rng = c.rng
    q = tier == "quick"
    names = list(OPTSETS)
    scopes = []
    ex = list(products(BYTES, 3))
    exb = [(OPTSETS[n], d) for d in ex for n in ("default", "all", "allb")]
    longer = [b"".join(rng.choice(BYTES) for _ in range(rng.choice([4, 4, 5, 5, 6, 8]))) for _ in range(20000 if q else 150000)]
    exb += [(OPTSETS[names[i % 4]], d) for i, d in enumerate(longer)]
    scopes.append(("exhaustive bytes <=3 (24 symbols, 3 option sets) + random 4..8", exb))
    tk = list(products(TOKENS, 2 if q else 3))
    ext = [(OPTSETS["all"], d) for d in tk] + [(OPTSETS["gfm"], d) for d in tk if rng.random() < (0.5 if q else 0.2)]
    tl = [b"".join(rng.choice(TOKENS) for _ in range(rng.choice([3, 3, 4, 5, 6, 8, 12]))) for _ in range(20000 if q else 120000)]
    ext += [(OPTSETS[names[i % 4]], d) for i, d in enumerate(tl)]
    ext = [(o, d) for (o, d) in ext if is_utf8(d)]
    scopes.append((f"exhaustive tokens <={2 if q else 3} (48 block/inline constructs) + random sequences", ext))
    dg = []
    for _ in range(8000 if q else 60000):
        o = docgen.opts_token(docgen.gen_opts(rng))
        r = rng.random()
        d = docgen.gen_doc(rng) if r < 0.55 else docgen.gen_malformed(rng) if r < 0.8 else "\n\n".join(docgen.inlines(rng) for _ in range(rng.randrange(1, 4)))
        if isinstance(d, str):
            d = d.encode("utf-8", "replace")
        dg.append((o, d))
    scopes.append(("docgen documents under random option sets", dg))
    base = [d for _, d in dg[: (2500 if q else 10000)]]
    le = blocks_tie.lineend_variants(rng, base)
    fm = ["front_matter_delimiter=" + hx("---"), OPTSETS["all"] + ",front_matter_delimiter=" + hx("---"), OPTSETS["all"], "-"]
    scopes.append(("line endings / NUL / BOM / front matter variants", [(rng.choice(fm), d) for d in le]))
    st = blocks_tie.structured_docs(rng, 1500 if q else 20000)
    if q:
        st = [d for d in st if rng.random() < 0.25]
    sp = [d for d in blocks_tie.special_docs() if len(d) < (1500 if q else 10 ** 9)]
    scopes.append(("structured line fragments and caps (blocks_tie)", [(rng.choice([OPTSETS["all"], OPTSETS["allb"], "-"]), d) for d in st] + [(OPTSETS["all"], d) for d in sp]))
    scopes.append(("reference budget: definitions expanded past max_ref_size, RefMap::ref_size threaded across blocks", [(o, d) for d in budget_docs() for o in ("-", OPTSETS["all"])]))
    scopes.append(("corpus: witnesses of known_findings.json", corpus()))

    if frac < 1.0:
        scopes = [(name, [x for x in cases if rng.random() < frac] or cases[:1]) if not name.startswith(("corpus", "reference budget")) else (name, cases) for name, cases in scopes]
    all_ok = True
    reported = 0
    shrunk = set()
    total = {"agree": 0, "scope": 0, "both_panic": 0, "mismatch": 0}
    for name, cases in scopes:
        res = run_cases(cases, profile)
        cnt = {"documents": len(cases), "agree": 0, "scope": 0, "both_panic": 0, "mismatch": 0}
        for (o, md), (cls, detail, hl, ml) in zip(cases, res):
            c.count(("whole:" + o + ":").encode() + md, len(md) > 3)
            cnt[cls] += 1
            total[cls] += 1
            if cls == "both_panic":
                c.known_hit("parser-both-panic", {"line": hl, "detail": detail[:300]})
            if cls != "mismatch":
                continue
            all_ok = False
            if reported < max_report:
                reported += 1
                o2, d2 = shrink_case(o, md, profile)
                cls2, det2, hl2, ml2 = classify(o2, d2, profile)
                if cls2 != "mismatch":
                    o2, d2, det2, hl2, ml2 = o, md, detail, hl, ml
                if (o2, d2) in shrunk:
                    continue               # the same minimal document again
                shrunk.add((o2, d2))
                c.problem("correspondence", "parser.whole",
                          f"[{name}] parse_document and parse_document_model disagree on {d2!r} opts={o2}\n {det2}",
                          {"line": hl2.replace("parseu ", "parse ", 1), "model_line": ml2[:3000], "opts": o2, "md": hx(d2)})
        c.cov["correspondences"]["parser.whole: " + name] = cnt
    c.cov["parser_whole_scope"] = {
        "classes": total,
        "scope_list": ["OutOfScope answers of the model: a leaf content holding NUL (feed replaces NUL by U+FFFD, never observed)",
                       "parse.broken_link_callback = None; no plugins",
                       "Unicode classes and default_case_fold beyond ASCII answered per document by the compiled library (oracle table of op parseu)",
                       "HashMap::into_values order of the footnote map: identity in the model (irrelevant by C15_sort_perm_indep)"]}
    return all_ok


def main(tier):
    c = vlib.Check("PARSE_TIE", tier)
    c.phase_translator(ITEMS)
    c.phase_proofs("Parse")
    c.phase_proofs("ParseMore")
    tie_parse(c, tier)
    c.finish(level="proof",
             rule="theorems of Props/Parse.v and Props/ParseMore.v compiled (no assumptions); Model/Parse.v parse_document_model and the compiled parse_document print "
                  "identical trees (kinds, payloads, source positions; nothing masked) on every document of every scope; non-trivial = document longer than 3 bytes",
             trusted_base=["Coq 8.16.1 kernel + extraction", "rustc", "OCaml driver printer ocaml/d_parse.ml (+ d_inlines.ml / d_blocks.ml node printers) and harness/src/tree.rs print trees in the same layout",
                           "harness op parseu (ops_parse.rs): Unicode oracles (is_whitespace, is_punctuation|is_symbol, default_case_fold) answered by the compiled library",
                           "ASCII case folding by lower-casing in the driver's oracle (ocaml/d_inlines.ml take_oracle)"])


if __name__ == "__main__":
    # ad-hoc: parse_tie.py <opts> <md text with \n escapes>
    o = sys.argv[1]
    md = bytes(sys.argv[2], "utf-8").decode("unicode_escape").encode("latin-1")
    r = classify(o, md)
    print(r[0])
    print(r[1])
    if len(sys.argv) > 3:
        print(r[2])
        print(r[3])
