"""INLINES_TIE — tie of the inline-parser model (coq/Model/Inlines.v: Subject of src/parser/inlines.rs, the
url/www/e-mail matchers of src/parser/autolink.rs, postprocess_text_nodes / process_tasklist of src/parser/mod.rs)
to the compiled parser, tree for tree.

For a document the harness op `inl <opts> <md>` answers the final tree, the tree after the block phase (content,
line_offsets of every block) and the Unicode oracle table.  Every leaf block that contains inlines (Paragraph,
Heading, TableCell) is paired with the same block of the final tree (same kind, start line, end line/column); the
model (driver fn `inl`) is run on the block's content and its answer - the children after postprocess_text_nodes -
must print exactly like the children of the final block (kinds, payloads, source positions); the task-list effect
the model reports must be the one observable on the final tree.

`tie_inlines(c, tier)` is meant to be called from other checks; `./check INLINES_TIE quick` runs it alone with the
theorems of coq/Props/Inlines.v and writes evidence/INLINES_TIE.json."""
import itertools, os, sys
if __name__ == "__main__":
    sys.path.insert(0, os.path.join(os.path.dirname(os.path.abspath(__file__)), ".."))
import vlib
from vlib import hx, unhx

ITEMS = ["ctype", "strleaf", "entities", "special", "scanners_re", "consts", "srcpos", "nodes", "inlines_audit"]
LEAF = ("Paragraph", "Heading", "TableCell")


# --------------------------------------------------------------------------- tree tokens
class N:
    __slots__ = ("kind", "sp", "fields", "extra", "ch", "parent", "ix")

    def __init__(self, kind, sp, fields, extra):
        self.kind, self.sp, self.fields, self.extra, self.ch, self.parent, self.ix = kind, sp, fields, extra, [], None, 0


def parse_tree(toks, with_extra=False):
    """toks: list of tokens of ONE tree `( Kind sl sc el ec field* child* )`"""
    pos = 0
    stack = []
    root = None
    n = len(toks)
    while pos < n:
        t = toks[pos]
        if t == "(":
            j = pos + 1
            while toks[j] != "(" and toks[j] != ")":
                j += 1
            hdr = toks[pos + 1:j]
            extra = {}
            fields = hdr[5:]
            if with_extra:
                for e in fields[-5:]:
                    extra[e[0]] = e[1:]
                fields = fields[:-5]
            nd = N(hdr[0], tuple(int(x) for x in hdr[1:5]), fields, extra)
            if stack:
                nd.parent = stack[-1]
                nd.ix = len(stack[-1].ch)
                stack[-1].ch.append(nd)
            else:
                root = nd
            stack.append(nd)
            pos = j
        elif t == ")":
            stack.pop()
            pos += 1
        else:
            raise ValueError("tree token " + t)
    return root


def dump(nd, sp=True):
    out = []
    st = [nd]
    while st:
        x = st.pop()
        if x is None:
            out.append(")")
            continue
        out.append("(")
        out.append(x.kind)
        out.extend(str(v) for v in (x.sp if sp else (0, 0, 0, 0)))
        out.extend(x.fields if x.kind != "FootnoteReference" else ["?", "0", "0"])
        st.append(None)
        st.extend(reversed(x.ch))
    return " ".join(out)


def dump_children(nd, sp=True):
    return " ".join(dump(c, sp) for c in nd.ch) if nd.ch else "-"


def strip_sp(trees):
    """zero the positions in a printed forest"""
    if trees == "-":
        return trees
    toks = trees.split(" ")
    out = []
    i = 0
    while i < len(toks):
        out.append(toks[i])
        if toks[i] == "(":
            out.append(toks[i + 1])
            out.extend(["0", "0", "0", "0"])
            i += 6
        else:
            i += 1
    return " ".join(out)


def mask_fnrefs(trees):
    """the numbering of resolved footnote references belongs to the document-wide pass (Model/Footnotes.v)"""
    if "FootnoteReference" not in trees:
        return trees
    toks = trees.split(" ")
    for i, t in enumerate(toks):
        if t == "FootnoteReference":
            toks[i + 5:i + 8] = ["?", "0", "0"]
    return " ".join(toks)


def walk(nd):
    st = [nd]
    while st:
        x = st.pop()
        yield x
        st.extend(reversed(x.ch))


# --------------------------------------------------------------------------- one document
class Case:
    """one (opts, md) pair and what the harness said"""

    def __init__(self, opts, md):
        self.opts, self.md = opts, md
        self.blocks = []      # (block node of the blocks tree, final partner or None, driver line)


def harness_lines(cases):
    return [f"inl {o} {hx(md)}" for (o, md) in cases]


def split_answer(ans):
    """-> (final tree, blocks tree, oracle tokens) or None"""
    if not ans.startswith("ok "):
        return None
    parts = ans[3:].split(" | ")
    if len(parts) != 3:
        return None
    return parts[0].split(" "), parts[1].split(" "), parts[2].split(" ")[1:]


def opt_on(tok, key):
    return any(kv == key or kv == key + "=1" for kv in tok.split(","))


def key_of(nd):
    return (nd.kind, nd.sp[0], nd.sp[2], nd.sp[3])


def tl_context(b):
    """Some(start column) when the block is a Paragraph, first child of an Item inside a List"""
    p = b.parent
    if b.kind == "Paragraph" and b.ix == 0 and p is not None and p.kind == "Item" and p.parent is not None and p.parent.kind == "List":
        return str(b.sp[1])
    return "n"


def model_lines(opts, md, ans, refs=()):
    """driver lines for every inline-bearing block of the document; returns list of (block, partner, line)"""
    sp = split_answer(ans)
    if sp is None:
        return None
    ftoks, btoks, utoks = sp
    final = parse_tree(ftoks)
    blocks = parse_tree(btoks, with_extra=True)
    partners = {}
    for x in walk(final):
        if x.kind in LEAF:
            partners.setdefault(key_of(x), x)
    maxref = max(len(md), 100000)
    reftoks = " ".join(f"{hx(l)} {hx(u)} {hx(t)}" for (l, u, t) in refs)
    out = []
    fnon = "1" if opt_on(opts, "footnotes") else "0"
    defs = []
    st = [blocks]
    while st:
        x = st.pop()
        if x.kind == "FootnoteDefinition":
            defs.append(x.fields[0])
        else:
            st.extend(reversed(x.ch))
    deftoks = f"{fnon} {len(defs)}" + "".join(" " + d for d in defs)
    for b in walk(blocks):
        if b.kind not in LEAF:
            continue
        lo = b.extra.get("L", "-")
        line = f"inl {opts} {b.extra.get('C', '-')} {lo} {b.sp[0]} {maxref} 0 {tl_context(b)} {deftoks} {len(refs)}{(' ' + reftoks) if refs else ''} {' '.join(utoks)}"
        out.append((b, partners.get(key_of(b)), line))
    return final, blocks, out


def compare(b, partner, m, final):
    """-> (class, detail): class in agree | agree_nosp | scope | unpaired | mismatch | panic_model | ..."""
    if m.startswith("scope"):
        return "scope", m
    if m.startswith("panic") or m.startswith("fuel") or m.startswith("err"):
        return "model_" + m.split(" ")[0], m
    parts = m[3:].split(" | ")
    head = parts[0].split(" ")
    eff = head[1]
    post = parts[1]
    if partner is None:
        if eff.startswith("T") and eff.split(":")[1] == "1":
            return "agree", "paragraph detached by the task-list step"
        a = b.parent
        while a is not None:
            if a.kind == "FootnoteDefinition":
                return "dropped_def", "inside a footnote definition the footnote pass removed"
            a = a.parent
        return "unpaired", "block has no partner in the final tree"
    want = dump_children(partner)
    # task-list effect
    pk = partner.parent.kind if partner.parent is not None else ""
    if eff.startswith("T"):
        sym, det, col = eff[1:].split(":")
        if det == "1":
            return "mismatch", "model detaches the paragraph, the implementation keeps it"
        if pk != "TaskItem" or partner.parent.fields[0] != sym or str(partner.sp[1]) != col:
            return "mismatch", f"task-list effect: model {eff}, implementation parent {pk} {partner.parent.fields} start column {partner.sp[1]}"
    elif pk == "TaskItem" and b.parent is not None and b.parent.kind == "Item" and b.ix == 0:
        return "mismatch", "implementation made a TaskItem, the model reports no task-list effect"
    post = mask_fnrefs(post)
    if post == want:
        return "agree", ""
    if strip_sp(post) == strip_sp(want):
        return "agree_nosp", f"positions differ: model {post} impl {want}"
    return "mismatch", f"model {post} impl {want}"


import re
LABEL_RE = re.compile(rb"\[((?:[^\[\]\\]|\\.)*)\]", re.S)


def refmaps(cases, profile="debug"):
    """the reference map of every document, asked from the compiled parser itself: for every bracketed span L of
    the document (the only labels a lookup can use) the document `[L]` + blank line + md is parsed; when its
    first block is a paragraph holding exactly one Link, (L, url, title) is an entry (the model normalizes L).
    Documents without `]:` have an empty map."""
    qlines, owner = [], []
    for i, (o, md) in enumerate(cases):
        if b"]:" not in md:
            continue
        fm = [kv.split("=", 1)[1] for kv in o.split(",") if kv.startswith("front_matter_delimiter=")]
        # prepending would turn a front matter into blocks: such documents get the query appended instead
        # (after a blank line; an unclosed fence / HTML block at the end swallows it and the label stays unknown)
        at_end = bool(fm and md.lstrip(b"\xef\xbb\xbf").startswith(unhx(fm[0])))
        seen = set()
        for m in LABEL_RE.finditer(md):
            lab = m.group(1)
            if lab in seen or not lab.strip() or len(lab) > 1100:
                continue
            seen.add(lab)
            bom = b"\xef\xbb\xbf" if md.startswith(b"\xef\xbb\xbf") else b""
            if at_end:
                qlines.append(f"parse {o} {hx(md + (b'' if md.endswith(bytes([10])) else bytes([10])) + bytes([10]) + b'[' + lab + b']' + bytes([10]))}")
            else:
                qlines.append(f"parse {o} {hx(bom + b'[' + lab + b']' + bytes([10, 10]) + md[len(bom):])}")
            owner.append((i, lab, at_end))
    out = {}
    if not qlines:
        return out
    ans = vlib.run_lines(vlib.VH[profile], qlines, timeout=1800)
    for (i, lab, at_end), a in zip(owner, ans):
        if not a.startswith("ok "):
            continue
        t = parse_tree(a[3:].split(" "))
        q = (t.ch[-1] if at_end else t.ch[0]) if t.ch else None
        if at_end and (q is None or q.kind != "Paragraph"):
            # the appended query was swallowed by an unclosed block at the end of the document (HTML block, fence ..):
            # the reference map of this document cannot be asked; its inline comparison is counted as out of scope
            out.setdefault("unknown", set()).add(i)
            continue
        if q is None or q.kind != "Paragraph" or len(q.ch) != 1 or q.ch[0].kind != "Link":
            continue
        lk = q.ch[0]
        out.setdefault(i, []).append((lab, unhx(lk.fields[0]), unhx(lk.fields[1])))
    return out


def run_cases(cases, profile="debug", refs_of=None):
    """cases: list of (opts token, md bytes).  Returns list of per-block results
    (case index, block, class, detail, driver line)."""
    hl = harness_lines(cases)
    real = vlib.run_lines(vlib.VH[profile], hl, timeout=1800)
    rm = {}
    if refs_of is None:
        rm = refmaps(cases, profile)
        refs_of = lambda i: rm.get(i, ())
    jobs = []
    results = []
    for i, ((o, md), a) in enumerate(zip(cases, real)):
        if a.startswith("panic"):
            results.append((i, None, "impl_panic", a, hl[i]))
            continue
        r = model_lines(o, md, a, refs_of(i) if refs_of else ())
        if r is None:
            results.append((i, None, "harness", a[:200], hl[i]))
            continue
        final, blocks, lines = r
        for (b, p, line) in lines:
            jobs.append((i, b, p, line, final))
    model = vlib.run_lines(vlib.DRIVER, [j[3] for j in jobs], timeout=1800)
    unknown = rm.get("unknown", set())
    for (i, b, p, line, final), m in zip(jobs, model):
        cls, detail = compare(b, p, m, final)
        if cls == "mismatch" and i in unknown:
            cls, detail = "scope", "reference map of this document could not be asked (front matter + unclosed block at the end)"
        results.append((i, b, cls, detail, line))
    return results


ALPHA = [b"a", b" ", b"*", b"_", b"`", b"[", b"]", b"(", b")", b"<", b">", b"!", b"\\", b"&", b";", b"~", b"^", b"|", b"$",
         b'"', b"'", b"-", b".", b":", b"@", b"w", b"\n"]
OPTSETS = {
    "default": "-",
    "gfm": "strikethrough,table,autolink,tasklist,tagfilter",
    "all": "strikethrough,table,autolink,tasklist,superscript,footnotes,description_lists,multiline_block_quotes,alerts,"
           "math_dollars,math_code,wikilinks_title_after_pipe,underline,subscript,spoiler,greentext,smart",
    "allb": "table,autolink,tasklist,superscript,footnotes,math_dollars,math_code,wikilinks_title_before_pipe,underline,"
            "subscript,spoiler,smart,relaxed_tasklist_matching,relaxed_autolinks,escaped_char_spans,ignore_empty_links",
}
# longer fragments for the random stream: things the 27 symbols cannot spell in 6 bytes
FRAGS = [b"http://a.b/c", b"www.a.b", b"a@b.c", b"mailto:a@b.cd", b"xmpp:a@b.c/d", b"<a href='x'>", b"</a>", b"<!-- c -->", b"<?p?>",
         b"<!D x>", b"<![CDATA[x]]>", b"&amp;", b"&#65;", b"&#x41;", b"[^f]", b"[[u|t]]", b"[[u]]", b"$$x$$", b"$`x`$", b"---", b"...",
         b"- [x] ", b"- [ ] ", b"\xc3\xa9", b"\xe2\x80\x9c", b"\xc2\xa0", b"\xe6\xbc\xa2", b"  \n", b"\\\n", b"\t", b"\r\n", b"](/u 't')", b"](<u v>)",
         b"[r]", b"[r][]", b"[t][r]", b"![i][r]", b"\n\n[r]: /u 'T'\n\n", b"\n\n[^f]: note\n\n", b"# ", b"| a | b |\n|---|---|\n| ", b" | ", b"> ", b"1. ",
         b"***", b"___", b"~~", b"||", b"^^", b"``", b"x", b"B", b"0",
         b"a@b.1c", b"a+b_c@d-e.f2.g", b"x@y.z/", b"a@b.c.", b"a@b.c-", b"a@b.c_", b"@b.2", b".3x", b"www.a.b/c(d)", b"www.a_b.c", b"www.a.b&amp;",
         b"http://a.b)", b"https://x.y<", b"ftp://a", b"://", b"[w](www.a.b)", b"mailto:", b"xmpp:", b"1", b"A"]


def exhaustive(maxlen):
    for n in range(1, maxlen + 1):
        for t in itertools.product(ALPHA, repeat=n):
            yield b"".join(t)


def random_docs(rng, n):
    out = []
    for _ in range(n):
        r = rng.random()
        if r < 0.4:
            out.append(b"".join(rng.choice(ALPHA) for _ in range(rng.choice([4, 5, 5, 6, 6, 7, 8, 10, 14]))))
        else:
            k = rng.choice([2, 3, 4, 5, 6, 8, 12])
            out.append(b"".join(rng.choice(FRAGS) if rng.random() < 0.45 else rng.choice(ALPHA) for _ in range(k)))
    return out


DEF_PIECES = [b"[a]", b"[A b]", b"[a\\]b]", b"[ c ]", b"[]", b"[\xc3\x89]", b":", b": ", b":\n", b" /u", b"<u v>", b"<>", b"/u(1)", b" 't'", b' "t"', b" (t)", b'\n"t"',
              b"\n 't'", b' "t\n t"', b" junk", b"\n", b"\n", b"  ", b"\\", b"[a]: /first\n", b"[a]: /second 'x'\n", b"text", b"[a]", b"[ref]: <x>\n", b" 't' x\n"]


def tie_refdefs(c, n, profile="debug"):
    """Model parse_reference_inline / resolve_reference_link_definitions against the compiled parser on documents
    that are ONE paragraph made of definition pieces: the paragraph left after the block phase must be the model's
    rest, and every label the parser resolves must map to the model's (url, title)."""
    rng = c.rng
    docs = []
    for _ in range(n):
        d = b"".join(rng.choice(DEF_PIECES) for _ in range(rng.choice([3, 4, 5, 6, 8])))
        d = d.lstrip(b" \n")
        while bytes([10, 10]) in d:
            d = d.replace(bytes([10, 10]), bytes([10]))
        d = d.rstrip(b"\n")
        if d.strip():
            docs.append(d)
    docs.append(b'[a]: /u\n"t" junk')            # INL-2 (repaired): the title line is given back, the definition has no title
    docs.append(b"[a]: /u\n't' junk\n[b]: /v\n(t)")
    cases = [("-", d) for d in docs]
    real = vlib.run_lines(vlib.VH[profile], harness_lines(cases), timeout=900)
    rm = refmaps(cases, profile)
    lines, keep = [], []
    for i, (d, a) in enumerate(zip(docs, real)):
        sp = split_answer(a)
        if sp is None:
            continue
        blocks = parse_tree(sp[1], with_extra=True)
        # only documents the block phase sees as one paragraph (or nothing): the content is the text as written
        if len(blocks.ch) > 1 or (blocks.ch and blocks.ch[0].kind != "Paragraph"):
            continue
        if any(l.startswith(b" ") or l.startswith(b"\t") for l in d.split(b"\n")):
            continue       # leading spaces are stripped by the block phase: the content is not the text as written
        refs = rm.get(i, ())
        reftoks = "".join(f" {hx(l)} {hx(u)} {hx(t)}" for (l, u, t) in refs)
        lines.append(f"refdefs {hx(d if d.endswith(bytes([10])) else d + bytes([10]))} {len(refs)}{reftoks} {' '.join(sp[2])}")
        keep.append((d, blocks, len(refs)))
    model = vlib.run_lines(vlib.DRIVER, lines, timeout=900)
    agree = bad = withdefs = 0
    for (d, blocks, nrefs), m, line in zip(keep, model, lines):
        c.count(b"refdefs:" + d, len(d) > 6)
        want_rest = unhx(blocks.ch[0].extra["C"]) if blocks.ch else b""
        ok = False
        if m.startswith("ok "):
            rest, nent, nchk, nbad = m[3:].split(" ")
            got = unhx(rest)
            ok = nbad == "0" and (got == want_rest or (not blocks.ch and not got.strip()))
            if int(nent) > 0:
                withdefs += 1
        if ok:
            agree += 1
        else:
            bad += 1
            if bad <= 3:
                c.problem("correspondence", "inlines.refdefs", f"md={d!r}: model {m[:200]} impl rest={want_rest!r} refs={nrefs}", {"md": hx(d), "line": line[:3000]})
    c.cov["correspondences"]["inlines: reference definitions (parse_reference_inline)"] = {"documents": len(keep), "agree": agree, "with_definitions": withdefs}
    return bad == 0


def tie_inlines(c, tier, profile="debug", frac=1.0, on_impl_panic=None):
    """correspondence `inlines.<scope>`; returns True when every compared block agrees.  frac < 1 keeps that
    fraction of every scope (property checks that share this tie; full scopes in INLINES_TIE / C04 thorough)"""
    import docgen, shrink
    rng = c.rng
    thorough = tier != "quick"
    scopes = []
    ex = list(exhaustive(4 if thorough else 3))
    for name, tok in OPTSETS.items():
        scopes.append((f"exhaustive<={4 if thorough else 3}:{name}", [(tok, d) for d in ex]))
    rd = random_docs(rng, 400000 if thorough else 24000)
    names = list(OPTSETS)
    scopes.append(("random strings and fragments", [(OPTSETS[names[i % 4]], d) for i, d in enumerate(rd)]))
    dg = []
    for _ in range(60000 if thorough else 2500):
        o = docgen.opts_token(docgen.gen_opts(rng))
        r = rng.random()
        d = docgen.gen_doc(rng) if r < 0.5 else docgen.gen_malformed(rng) if r < 0.7 else "\n\n".join(docgen.inlines(rng) for _ in range(rng.randrange(1, 4)))
        if isinstance(d, str):
            d = d.encode("utf-8", "replace")
        dg.append((o, d))
    scopes.append(("docgen documents (whole block trees, reference definitions, random options)", dg))
    all_ok = True
    classes = {}
    if frac < 1.0:
        scopes = [(sname, [x for x in cases if rng.random() < frac] or cases[:1]) for sname, cases in scopes]
    for sname, cases in scopes:
        res = run_cases(cases, profile)
        cnt = {}
        for (i, b, cls, detail, line) in res:
            cnt[cls] = cnt.get(cls, 0) + 1
            o, md = cases[i]
            c.count(("inl:" + o + ":").encode() + md + (line[:40].encode() if line else b""), len(md) > 2)
            if cls in ("agree", "dropped_def", "scope"):
                continue
            if cls == "impl_panic":
                if on_impl_panic is not None:
                    on_impl_panic(o, md, detail, line)
                    continue
                c.violation("parse_document panics: " + detail[:200], {"opts": o, "md": hx(md), "line": line})
                continue
            all_ok = False
            if classes.setdefault(cls, 0) < 5:
                # shrink the document for the report
                def bad(d, o=o, cls=cls):
                    rr = run_cases([(o, bytes(d))], profile)
                    return any(x[2] == cls for x in rr)
                try:
                    small = bytes(shrink.ddmin(list(md), bad)) if len(md) < 400 else md
                except Exception:
                    small = md
                c.problem("correspondence", "inlines." + cls, f"[{sname}] opts={o} md={small!r}: {detail[:1500]}", {"opts": o, "md": hx(small), "line": f"inl {o} {hx(small)}"})
            classes[cls] += 1
        c.cov["correspondences"]["inlines: " + sname] = {"documents": len(cases), "blocks": sum(cnt.values()), **cnt}
    c.cov["inlines_scope"] = ("every option the inline phase reads; Unicode classes and case folding beyond ASCII answered by the compiled "
                              "library per document; reference map asked from the compiled parser (documents whose front matter prevents "
                              "the query keep an empty map); ref budget not threaded across blocks; numbering of resolved footnote "
                              "references left to Model/Footnotes.v; NUL in content OutOfScope")
    return all_ok


def main(tier):
    c = vlib.Check("INLINES_TIE", tier)
    c.phase_translator(ITEMS)
    c.phase_proofs(file="Inlines")
    if not c.phase_builds(("debug",)):
        c.finish(rule="build failed")
    tie_inlines(c, tier)
    tie_refdefs(c, 40000 if tier != "quick" else 6000)
    c.finish(level="proof",
             rule="per leaf block (Paragraph, Heading, TableCell) of every document: the model run on the block content after the block phase "
                  "must print the same children (kinds, payloads, source positions) as the final tree of the compiled parser, and report "
                  "the same task-list effect; documents: all strings up to length 3 (4 thorough) over 27 inline bytes under 4 option sets, "
                  "random strings/fragments, docgen documents with random options; non-trivial = document longer than 2 bytes",
             trusted_base=["Coq 8.16 kernel + extraction", "rustc", "harness/src/ops_inlines.rs + ops_blocks.rs and ocaml/d_inlines.ml print trees in the same layout",
                           "Unicode oracles (is_whitespace, is_punctuation|is_symbol, default_case_fold) answered by the compiled library",
                           "the pairing of blocks between the two trees (kind, start line, end line, end column) in tools/checks/inlines_tie.py"])


if __name__ == "__main__":
    # ad-hoc: inlines_tie.py <opts> <md text with \n escapes>
    o = sys.argv[1]
    md = sys.argv[2].encode().decode("unicode_escape").encode("latin-1").decode("utf-8", "surrogateescape").encode("utf-8", "surrogateescape") if False else bytes(sys.argv[2], "utf-8").decode("unicode_escape").encode("latin-1")
    for r in run_cases([(o, md)]):
        print(r[2], r[3])
        if len(sys.argv) > 3:
            print(r[4])
