"""INLINES_TIE — tie of the inline-parser model (coq/Model/Inlines.v: Subject of src/parser/inlines.rs, the
url/www/e-mail matchers of src/parser/autolink.rs, postprocess_text_nodes / process_tasklist of src/parser/mod.rs)
to the compiled parser, tree for tree.

For a document the harness op `inl <opts> <md>` answers the final tree, the tree after the block phase (content,
line_offsets of every block) and the Unicode oracle table.  Every leaf block that contains inlines (Paragraph,
Heading, TableCell) is paired with the same block of the final tree (same kind, start line, end line/column); the
model (driver fn `inl`) is run on the block's content and its answer - the children after postprocess_text_nodes -
must print exactly like the children of the final block (kinds, payloads, source positions); the task-list effect
the model reports must be the one observable on the final tree.

`tie_inlines(c, tier)` is meant to be called from other checks; `./check INLINES_TIE quick` runs it alone with the
theorems of coq/Props/Inlines.v and writes evidence/INLINES_TIE.json."""
import itertools, os, sys
if __name__ == "__main__":
    sys.path.insert(0, os.path.join(os.path.dirname(os.path.abspath(__file__)), ".."))
import vlib
from vlib import hx, unhx

ITEMS = ["ctype", "strleaf", "entities", "special", "scanners_re", "consts"]
LEAF = ("Paragraph", "Heading", "TableCell")


# --------------------------------------------------------------------------- tree tokens
class N:
    __slots__ = ("kind", "sp", "fields", "extra", "ch", "parent", "ix")

    def __init__(self, kind, sp, fields, extra):
        self.kind, self.sp, self.fields, self.extra, self.ch, self.parent, self.ix = kind, sp, fields, extra, [], None, 0


def parse_tree(toks, with_extra=False):
    """toks: list of tokens of ONE tree `( Kind sl sc el ec field* child* )`"""
    pos = 0
    stack = []
    root = None
    n = len(toks)
    while pos < n:
        t = toks[pos]
        if t == "(":
            j = pos + 1
            while toks[j] != "(" and toks[j] != ")":
                j += 1
            hdr = toks[pos + 1:j]
            extra = {}
            fields = hdr[5:]
            if with_extra:
                for e in fields[-5:]:
                    extra[e[0]] = e[1:]
                fields = fields[:-5]
            nd = N(hdr[0], tuple(int(x) for x in hdr[1:5]), fields, extra)
            if stack:
                nd.parent = stack[-1]
                nd.ix = len(stack[-1].ch)
                stack[-1].ch.append(nd)
            else:
                root = nd
            stack.append(nd)
            pos = j
        elif t == ")":
            stack.pop()
            pos += 1
        else:
            raise ValueError("tree token " + t)
    return root


def dump(nd, sp=True):
    out = []

    def go(x):
        out.append("(")
        out.append(x.kind)
        out.extend(str(v) for v in (x.sp if sp else (0, 0, 0, 0)))
        out.extend(x.fields if x.kind != "FootnoteReference" else ["?", "0", "0"])
        for c in x.ch:
            go(c)
        out.append(")")
    go(nd)
    return " ".join(out)


def dump_children(nd, sp=True):
    return " ".join(dump(c, sp) for c in nd.ch) if nd.ch else "-"


def strip_sp(trees):
    """zero the positions in a printed forest"""
    if trees == "-":
        return trees
    toks = trees.split(" ")
    out = []
    i = 0
    while i < len(toks):
        out.append(toks[i])
        if toks[i] == "(":
            out.append(toks[i + 1])
            out.extend(["0", "0", "0", "0"])
            i += 6
        else:
            i += 1
    return " ".join(out)


def mask_fnrefs(trees):
    """the numbering of resolved footnote references belongs to the document-wide pass (Model/Footnotes.v)"""
    if "FootnoteReference" not in trees:
        return trees
    toks = trees.split(" ")
    for i, t in enumerate(toks):
        if t == "FootnoteReference":
            toks[i + 5:i + 8] = ["?", "0", "0"]
    return " ".join(toks)


def walk(nd):
    st = [nd]
    while st:
        x = st.pop()
        yield x
        st.extend(reversed(x.ch))


# --------------------------------------------------------------------------- one document
class Case:
    """one (opts, md) pair and what the harness said"""

    def __init__(self, opts, md):
        self.opts, self.md = opts, md
        self.blocks = []      # (block node of the blocks tree, final partner or None, driver line)


def harness_lines(cases):
    return [f"inl {o} {hx(md)}" for (o, md) in cases]


def split_answer(ans):
    """-> (final tree, blocks tree, oracle tokens) or None"""
    if not ans.startswith("ok "):
        return None
    parts = ans[3:].split(" | ")
    if len(parts) != 3:
        return None
    return parts[0].split(" "), parts[1].split(" "), parts[2].split(" ")[1:]


def key_of(nd):
    return (nd.kind, nd.sp[0], nd.sp[2], nd.sp[3])


def tl_context(b):
    """Some(start column) when the block is a Paragraph, first child of an Item inside a List"""
    p = b.parent
    if b.kind == "Paragraph" and b.ix == 0 and p is not None and p.kind == "Item" and p.parent is not None and p.parent.kind == "List":
        return str(b.sp[1])
    return "n"


def model_lines(opts, md, ans, refs=()):
    """driver lines for every inline-bearing block of the document; returns list of (block, partner, line)"""
    sp = split_answer(ans)
    if sp is None:
        return None
    ftoks, btoks, utoks = sp
    final = parse_tree(ftoks)
    blocks = parse_tree(btoks, with_extra=True)
    partners = {}
    for x in walk(final):
        if x.kind in LEAF:
            partners.setdefault(key_of(x), x)
    maxref = max(len(md), 100000)
    reftoks = " ".join(f"{hx(l)} {hx(u)} {hx(t)}" for (l, u, t) in refs)
    out = []
    fnon = "1" if "footnotes" in opts.split(",") else "0"
    defs = []
    st = [blocks]
    while st:
        x = st.pop()
        if x.kind == "FootnoteDefinition":
            defs.append(x.fields[0])
        else:
            st.extend(reversed(x.ch))
    deftoks = f"{fnon} {len(defs)}" + "".join(" " + d for d in defs)
    for b in walk(blocks):
        if b.kind not in LEAF:
            continue
        lo = b.extra.get("L", "-")
        line = f"inl {opts} {b.extra.get('C', '-')} {lo} {b.sp[0]} {maxref} 0 {tl_context(b)} {deftoks} {len(refs)}{(' ' + reftoks) if refs else ''} {' '.join(utoks)}"
        out.append((b, partners.get(key_of(b)), line))
    return final, blocks, out


def compare(b, partner, m, final):
    """-> (class, detail): class in agree | agree_nosp | scope | unpaired | mismatch | panic_model | ..."""
    if m.startswith("scope"):
        return "scope", m
    if m.startswith("panic") or m.startswith("fuel") or m.startswith("err"):
        return "model_" + m.split(" ")[0], m
    parts = m[3:].split(" | ")
    head = parts[0].split(" ")
    eff = head[1]
    post = parts[1]
    if partner is None:
        if eff.startswith("T") and eff.split(":")[1] == "1":
            return "agree", "paragraph detached by the task-list step"
        return "unpaired", "block has no partner in the final tree"
    want = dump_children(partner)
    # task-list effect
    pk = partner.parent.kind if partner.parent is not None else ""
    if eff.startswith("T"):
        sym, det, col = eff[1:].split(":")
        if det == "1":
            return "mismatch", "model detaches the paragraph, the implementation keeps it"
        if pk != "TaskItem" or partner.parent.fields[0] != sym or str(partner.sp[1]) != col:
            return "mismatch", f"task-list effect: model {eff}, implementation parent {pk} {partner.parent.fields} start column {partner.sp[1]}"
    elif pk == "TaskItem" and b.parent is not None and b.parent.kind == "Item" and b.ix == 0:
        return "mismatch", "implementation made a TaskItem, the model reports no task-list effect"
    post = mask_fnrefs(post)
    if post == want:
        return "agree", ""
    if strip_sp(post) == strip_sp(want):
        return "agree_nosp", f"positions differ: model {post} impl {want}"
    return "mismatch", f"model {post} impl {want}"


def run_cases(cases, profile="debug", refs_of=None):
    """cases: list of (opts token, md bytes).  Returns list of per-block results
    (case index, block, class, detail, driver line)."""
    hl = harness_lines(cases)
    real = vlib.run_lines(vlib.VH[profile], hl, timeout=1800)
    jobs = []
    results = []
    for i, ((o, md), a) in enumerate(zip(cases, real)):
        if a.startswith("panic"):
            results.append((i, None, "impl_panic", a, hl[i]))
            continue
        r = model_lines(o, md, a, refs_of(i) if refs_of else ())
        if r is None:
            results.append((i, None, "harness", a[:200], hl[i]))
            continue
        final, blocks, lines = r
        for (b, p, line) in lines:
            jobs.append((i, b, p, line, final))
    model = vlib.run_lines(vlib.DRIVER, [j[3] for j in jobs], timeout=1800)
    for (i, b, p, line, final), m in zip(jobs, model):
        cls, detail = compare(b, p, m, final)
        results.append((i, b, cls, detail, line))
    return results


if __name__ == "__main__":
    # ad-hoc: inlines_tie.py <opts> <md text with \n escapes>
    o = sys.argv[1]
    md = sys.argv[2].encode().decode("unicode_escape").encode("latin-1").decode("utf-8", "surrogateescape").encode("utf-8", "surrogateescape") if False else bytes(sys.argv[2], "utf-8").decode("unicode_escape").encode("latin-1")
    for r in run_cases([(o, md)]):
        print(r[2], r[3])
        if len(sys.argv) > 3:
            print(r[4])
