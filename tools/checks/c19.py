"""C19 — escaping helpers.  Theorems: coq/Props/C19.v.  Tie: translator item `tables` (regenerated
tables, match arms, loop shape) + correspondence leaf.escape / leaf.escape_href / leaf.write_opening_tag.
Search on the implementation: the extracted spec predicates (decoder, output-language recogniser,
start-tag lexer, UTF-8 validity) evaluated on the real functions' outputs."""
import os
import vlib
from vlib import hx, unhx

SPECIAL = b'&<>"\'% '


def gen_random(rng, n, maxlen):
    out = []
    for _ in range(n):
        mode = rng.random()
        ln = rng.choice([0, 1, 2, 3, 5, 8, 13, 21, 34, 55, 89, 144, 233]) if rng.random() < 0.9 else rng.randrange(0, maxlen)
        if mode < 0.45:
            # mostly text with markup-significant bytes
            alphabet = b"abcXYZ019 -_./:?#=" + SPECIAL * 3 + "é漢😀".encode()
            s = bytes(rng.choice(alphabet) for _ in range(ln))
        elif mode < 0.75:
            s = bytes(rng.randrange(256) for _ in range(ln))
        else:
            # already percent-encoded / entity look-alikes
            parts = [b"%20", b"%2", b"%", b"%zz", b"%C3%A9", b"&amp;", b"&#x27;", b"&quot", b"&", b"a", b" ", b"'", b"\"", b"<", b">"]
            s = b"".join(rng.choice(parts) for _ in range(max(1, ln // 3)))
        out.append(s)
    return out


def gen_tags(rng, n):
    names = ["a", "pre", "code", "div", "td", "span", "x-y", "h1", "data:z"]
    attrn = ["lang", "class", "data-meta", "href", "id", "style", "data-sourcepos", "a_b"]
    pool = ['', 'x', '"', '<', '>', '&', "'", 'a"b<c', '&amp;', '&quot;', 'é', '漢"字', ' ', 'x=y', '">', '\u0000', '\t\n', '=""', '&lt']
    cases = []
    for _ in range(n):
        tag = rng.choice(names)
        k = rng.choice([0, 1, 1, 2, 3, 5])
        attrs = []
        for _ in range(k):
            v = "".join(rng.choice(pool) for _ in range(rng.choice([0, 1, 2, 3])))
            attrs.append((rng.choice(attrn), v))
        cases.append((tag, attrs))
    return cases


def main(tier):
    c = vlib.Check("C19", tier)
    rng = c.rng
    c.phase_translator(["ctype", "tables"])
    c.phase_proofs()
    if not c.phase_builds(("debug",)):
        c.finish(rule="build failed")
    vh, drv = vlib.VH["debug"], vlib.DRIVER

    # ------------------------------------------------------------------ cases
    cases = [b""] + [bytes([a]) for a in range(256)] + [bytes([a, b]) for a in range(256) for b in range(256)]
    n_exh = len(cases)
    corpus = []
    cp = os.path.join(vlib.ROOT, "corpus", "C19", "strings.hex")
    if os.path.exists(cp):
        corpus = [unhx(l.strip()) for l in open(cp) if l.strip() and not l.startswith("#")]
    nrand = 20000 if tier == "quick" else 150000
    rnd = gen_random(rng, nrand, 4096 if tier == "thorough" else 1024)
    cases = corpus + cases + rnd

    for fn, trig in (("escape", b'&<>"'), ("escape_href", None)):
        lines = [f"{fn} {hx(s)}" for s in cases]
        impl = vlib.run_lines(vh, lines)
        # the Context wrappers (what a custom formatter calls) must be the same functions, byte for byte
        wsub = list(range(0, len(cases), 1 if tier != "quick" else 3))
        wimpl = vlib.run_lines(vh, [f"ctx_{fn} {hx(cases[i])}" for i in wsub])
        wag = 0
        for i, w in zip(wsub, wimpl):
            c.count(b"ctx_" + fn.encode() + b":" + cases[i], True)
            if w != impl[i]:
                c.violation(f"Context::{fn} (the wrapper a custom formatter calls) differs from html::{fn}",
                            {"fn": "ctx_" + fn, "input": hx(cases[i]), "wrapper": w[:300], "function": impl[i][:300], "line": f"ctx_{fn} {hx(cases[i])}"})
            else:
                wag += 1
        c.cov["correspondences"][f"leaf.Context::{fn} = html::{fn}"] = {"cases": len(wsub), "agree": wag}
        model = vlib.run_lines(drv, lines)
        agree = 0
        for s, a, m in zip(cases, impl, model):
            nontriv = any(ch in trig for ch in s) if trig else any(not (chr(ch).isalnum() and ch < 128) for ch in s)
            c.count(fn.encode() + b":" + s, nontriv)
            if a != m:
                c.problem("correspondence", f"leaf.{fn}", f"input={hx(s)} impl={a} model={m}", {"fn": fn, "input": hx(s), "impl": a, "model": m})
            else:
                agree += 1
        c.cov["correspondences"][f"leaf.{fn}"] = {"cases": len(cases), "agree": agree, "exhaustive_len_le_2": n_exh}
        c.cov["samples"].append({"fn": fn, "input": hx(cases[len(corpus) + 300]), "impl": impl[len(corpus) + 300]})

        # ---- search on the implementation with the extracted spec predicates
        outs = [unhx(a.split(" ", 1)[1]) if a.startswith("ok ") else None for a in impl]
        for s, a, o in zip(cases, impl, outs):
            if o is None:
                c.violation(f"{fn} does not return normally (totality)", {"fn": fn, "input": hx(s), "observed": a})
        live = [(s, o) for s, o in zip(cases, outs) if o is not None]
        if fn == "escape":
            dec = vlib.run_lines(drv, [f"html_unescape {hx(o)}" for _, o in live])
            for (s, o), d in zip(live, dec):
                if d != f"ok {hx(s)}":
                    c.violation("escape output does not decode back to the input (raw active character, unescaped ampersand or information loss)",
                                {"fn": fn, "input": hx(s), "output": hx(o), "decoded": d})
            # concatenation law on the implementation: every 2-byte string against its two halves
            table = {s: o for s, o in live}
            for s, o in live:
                if len(s) == 2 and bytes(s[:1]) in table and bytes(s[1:]) in table:
                    if o != table[bytes(s[:1])] + table[bytes(s[1:])]:
                        c.violation("escape(a++b) != escape(a)++escape(b)", {"fn": fn, "a": hx(s[:1]), "b": hx(s[1:]), "output": hx(o)})
            c.cov["spec_checks"]["escape: html_unescape(impl(s)) = s"] = len(live)
            # UTF-8 preservation
            u8 = [(s, o) for s, o in live if _is_utf8(s)]
            res = vlib.run_lines(drv, [f"utf8_valid {hx(o)}" for _, o in u8])
            for (s, o), r in zip(u8, res):
                if r != "ok 1":
                    c.violation("escape of valid UTF-8 is not valid UTF-8", {"fn": fn, "input": hx(s), "output": hx(o)})
        else:
            wf = vlib.run_lines(drv, [f"href_wf {hx(o)}" for _, o in live])
            dec = vlib.run_lines(drv, [f"href_decode {hx(o)}" for _, o in live])
            npc = vlib.run_lines(drv, [f"no_pct_hex {hx(s)}" for s, _ in live])
            table = {s: o for s, o in live}
            for (s, o), w, d, k in zip(live, wf, dec, npc):
                if w != "ok 1":
                    c.violation("escape_href output contains a byte outside the URL-safe set that is not %XX, &amp; or &#x27;",
                                {"fn": fn, "input": hx(s), "output": hx(o)})
                if d != f"ok {hx(s)}":
                    if k == "ok 0":
                        # the known class: a literal percent sign followed by two hex digits in the input
                        c.known_hit("pct_hex_in_href", {"input": hx(s), "output": hx(o), "decoded": d})
                    else:
                        c.violation("escape_href output does not decode back to the input", {"fn": fn, "input": hx(s), "output": hx(o), "decoded": d})
                if len(s) == 2 and o != table.get(bytes(s[:1]), b"?") + table.get(bytes(s[1:]), b"?"):
                    c.violation("escape_href(a++b) != escape_href(a)++escape_href(b)", {"fn": fn, "a": hx(s[:1]), "b": hx(s[1:]), "output": hx(o)})
            c.cov["spec_checks"]["escape_href: href_wf(impl(s)); href_decode(impl(s)) = s outside the known class"] = len(live)

    # ------------------------------------------------------------------ write_opening_tag
    tags = gen_tags(rng, 3000 if tier == "quick" else 30000)
    lines = []
    for tag, attrs in tags:
        lines.append("write_opening_tag " + hx(tag) + "".join(f" {hx(a)} {hx(v)}" for a, v in attrs))
    impl = vlib.run_lines(vh, lines)
    model = vlib.run_lines(drv, lines)
    agree = 0
    for (tag, attrs), l, a, m in zip(tags, lines, impl, model):
        c.count(l, len(attrs) > 0 and any(any(ch in '&<>"' for ch in v) for _, v in attrs))
        if a != m:
            c.problem("correspondence", "leaf.write_opening_tag", f"case={l} impl={a} model={m}", {"line": l, "impl": a, "model": m})
        else:
            agree += 1
    c.cov["correspondences"]["leaf.write_opening_tag"] = {"cases": len(tags), "agree": agree}
    lexed = vlib.run_lines(drv, [f"lex_start_tag {a.split(' ', 1)[1]}" if a.startswith("ok ") else "lex_start_tag -" for a in impl])
    for (tag, attrs), a, lx in zip(tags, impl, lexed):
        want = "ok " + hx(tag) + " -" + "".join(f" {hx(n)} {hx(v)}" for n, v in attrs)
        if lx != want:
            c.violation("write_opening_tag output is not one complete start tag with the given attributes",
                        {"tag": tag, "attrs": attrs, "impl": a, "lexed": lx, "wanted": want})
    c.cov["spec_checks"]["write_opening_tag: lex_start_tag(impl) = (tag, attrs, empty)"] = len(tags)
    c.cov["samples"].append({"fn": "write_opening_tag", "case": lines[0], "impl": impl[0]})
    c.cov["exhaustive"] = True
    c.cov["exhaustive_domain"] = "all 65,793 byte strings of length <= 2 for escape and escape_href (plus random longer strings, not exhaustive)"
    c.cov["input_distribution"] = {"corpus": len(corpus), "exhaustive_len_le_2": n_exh, "random": len(rnd),
                                   "random_len_hist": _hist([len(s) for s in rnd]), "opening_tags": len(tags)}
    c.cov["partial_clauses"] = ["href decoding holds only outside the known class pct_hex_in_href (refuted in general: C19_href_roundtrip_refuted)"]
    c.assumptions = ["Model/Escape.v is a hand transcription of the three Rust functions; tables, match arms and loop shape are regenerated from src/html.rs on every run (translator item `tables`)",
                     "io::Write is modelled as an infallible append-only buffer"]
    c.finish(rule="distinct by (function, input bytes); non-trivial = the input contains at least one byte the function must rewrite (escape: one of & < > \"; escape_href: any byte that is not ASCII alphanumeric)",
             trusted_base=["Coq 8.16.1 kernel (vm_compute used for the 256-byte finite checks)", "no axioms (Print Assumptions: closed for every theorem)",
                           "tools/gen_model.py recognisers for character_set!, the escape match arms and the loop shapes",
                           "extraction (ExtrOcamlBasic only, no Extract Constant) + ocaml/driver.ml byte mapping (self-checked at start-up)",
                           "harness/src (hex protocol, catch_unwind)"])


def _is_utf8(b):
    try:
        b.decode("utf-8")
        return True
    except UnicodeDecodeError:
        return False


def _hist(xs):
    h = {}
    for x in xs:
        k = "0" if x == 0 else ("1-2" if x <= 2 else "3-8" if x <= 8 else "9-55" if x <= 55 else "56-255" if x <= 255 else "256+")
        h[k] = h.get(k, 0) + 1
    return h
