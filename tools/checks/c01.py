"""C01 — total on every input: no panic, abort, overflow or hang; everything written is UTF-8.
Theorems: coq/Props/C01.v (roll-up of the totality / termination / UTF-8 theorems of every modelled
function: escapers, tagfilter, line splitter, Anchorizer loop, HTML / XML / CommonMark renderer
models under their shape clauses, arena operations).  Tie: the ties of those models (translator
items + render.cm correspondence run here; render.html / render.xml run by C02/C10/C09).
Search on the implementation: parse + three renderers in ISOLATED worker processes with a
watchdog, debug and release builds, over the malformed stream, generated documents, deep nesting
and long delimiter runs, all option singles / pairs / random sets; every stage must return, no
stage may panic, and every output must pass the extracted utf8_valid."""
import re
import vlib, docgen, e2e
from vlib import hx, unhx
from checks import cm_tie

KNOWN_SPX = "C01-a"
KNOWN_EMAIL = "C01-b"


def families(rng, tier):
    big = 3000 if tier == "quick" else 30000
    F = []
    reps = [1, 2, 31, 32, 33, 100, big]
    atoms = ["`", "*", "_", "[", "]", "(", ")", "<", ">", "!", "#", "-", "+", "~", "$", "^", "|", "&", "\\", ":", "=", "\t", " ", "\n", "\r", "\x00", "﻿",
             "> ", "- ", "1. ", "* ", "![", "[^", "<!--", "<?", "<![CDATA[", "<a ", "||", "~~", "**", "__", "$$", ">>>\n", "```\n", "a@b.c ", "www.a.b ", "http://x.y ", "[x](", "&amp;", "&#0;", "\\\n", "|a", "x\n===\n", "[a]: /u\n"]
    for a in atoms:
        for n in reps:
            F.append(a * n + "x")
            if n <= 100:
                F.append(a * n + "x" + a[::-1] * n)
    # backtick runs of every length 1..k inside a code span (the F1 witness shape)
    for k in (31, 32, 33, 64, 81):
        body = " ".join("`" * i for i in range(1, k))
        F.append("`" * (k + 1) + " " + body + " " + "`" * (k + 1))
    # nesting through the footnote passes (F28), links, images, quotes, lists
    for n in (100, big):
        F.append("> " * n + "x")
        F.append("*" * n + "x" + "*" * n)
        F.append("![" * n + "x" + "](u)" * n)
        F.append("[" * n + "x" + "](u)" * n)
        F.append("- " * min(n, 500) + "x")
        F.append("[^a]" * n + "\n\n[^a]: x\n")
    F.append("[^-@.c\n]")  # C01-a witness
    # numeric character references with more digits than a u32 holds, in every position that is unescaped
    for ref in ["&#" + "9" * k + semi for k in (7, 8, 9, 10, 11, 20, 100) for semi in (";", "")] + ["&#x" + "F" * k + semi for k in (6, 8, 9, 16, 64) for semi in (";", "")] + ["&#4294967296;", "&#xFFFFFFFFF;"]:
        F += [ref, "[a](" + ref + ")", "[a](/u \"" + ref + "\")", "```" + ref + "\nx\n```", "<http://a/" + ref + ">", "[[" + ref + "]]", "| " + ref + " |\n|---|"]
    # every prefix of a complete construct as the last bytes of a paragraph, of a heading and of a table cell (scanners
    # that accept an unterminated form index a few bytes past what they matched)
    for cst in ["<![CDATA[x]]>", "<![CDATA[]]>", "<!-- c -->", "<!---->", "<?php x ?>", "<!DOCTYPE x>", "<a href=\"u\" b='c'>", "</a >", "[a](/u \"t\")", "![a](<u v> 't')",
                "`` a ` b ``", "$$x$$", "$`x`$", "&amp;", "&#1234;", "&#xAB;", "<http://x.y/z>", "<a@b.cd>", "[[w|t]]", "***a***", "~~a~~", "||a||", "[^f]", "[a][b]",
                "http://a.b/c?d=(e)", "www.a.b/c_d_", "a.b+c@d-e.fg", "\\*", "a  \nb", "a\\\nb"]:
        for k in range(1, len(cst) + 1):
            p = cst[:k]
            F += ["a " + p + "\n\nnext", "# " + p, "| " + p + " |\n|---|\n| " + p]
    return F


def option_sets(rng, tier):
    sets = [{}]
    for k in docgen.ALL_BOOL:
        sets.append({k: True})
    keys = [k for k in docgen.ALL_BOOL if k != "experimental_minimize_commonmark"]
    for _ in range(60 if tier == "quick" else 600):
        a, b = rng.sample(keys, 2)
        sets.append({a: True, b: True})
    allx = {k: True for k in keys}
    sets += [allx, dict(allx, width=10), dict(allx, header_ids="", front_matter_delimiter="---")]
    return sets


def spx_site(loc, repo=vlib.REPO):
    """is file:line inside `impl Spx`'s consume?"""
    m = re.match(r".*/src/parser/mod\.rs:(\d+)$", loc or "")
    if not m:
        return False
    try:
        src = open(repo + "/src/parser/mod.rs").read().split("\n")
    except OSError:
        return False
    line = int(m.group(1))
    start = next((i for i, l in enumerate(src) if l.startswith("impl Spx")), None)
    return start is not None and start < line <= start + 60


def main(tier):
    c = vlib.Check("C01", tier)
    c.phase_proofs()
    # Props/ParseTotal.v: the per-leaf premises of the inline phase proved of the block phase; the inline phase is total
    # after every Ok run of the block phase
    c.phase_proofs("ParseTotal")
    recs_cm = cm_tie.tie_cm(c, 500 if tier == "quick" else 8000, 200 if tier == "quick" else 3000)
    if recs_cm is None:
        c.finish(rule="build failed")
    rng = c.rng
    # the parser models: cursor theorems (Blocks_cursor_advance / _rescan / _look_ahead, Blocks_lines_lf_terminated),
    # parse_inline_advances_partial / inlines_total_partial; tied to the compiled parser here
    from checks import layerc

    def inl_panic(o, md, detail, line):
        parts = detail.split(" ")
        loc = parts[2] if len(parts) > 2 else ""
        if spx_site(loc) and b"[^" in md:
            c.known_hit("spx_consume_multiline_footnote_ref", {"doc": hx(md), "opts": o, "at": loc})
        else:
            c.violation("parse_document panics: " + detail[:200], {"opts": o, "md": hx(md), "line": line})
    # quick: the Print Assumptions pass over the 100+ theorems of Props/Blocks.v runs in C20 and BLOCKS_TIE (time budget);
    # the theorems used here are compiled as dependencies of Props/ParseTotal.v
    layerc.blocks(c, tier, 0.1 if tier == "quick" else 0.1, proofs=(tier != "quick"))
    layerc.inlines(c, tier, 0.1 if tier == "quick" else 0.1, on_impl_panic=inl_panic)
    # the whole parser as ONE function (Model/Parse.v; panic for panic: the known C01-a panic is reproduced at the same site)
    layerc.whole(c, tier, 0.1 if tier == "quick" else 0.05, proofs=False)
    fams = families(rng, tier)
    osets = option_sets(rng, tier)
    cases = []
    n = 2000 if tier == "quick" else 25000
    for _ in range(n):
        d = docgen.gen_malformed(rng) if rng.random() < 0.55 else docgen.gen_doc(rng)
        cases.append((d, docgen.gen_opts(rng) if rng.random() < 0.5 else rng.choice(osets)))
    for f in fams:
        for _ in range(2):
            cases.append((f, rng.choice(osets)))
    cases.append(("[^-@.c\n]", {"autolink": True, "footnotes": True, "ignore_setext": True, "relaxed_autolinks": True}))  # C01-a witness
    stats = {}
    for profile in ("debug", "release"):
        recs = e2e.run_pipe(cases, profile=profile, timeout=900)
        npan = 0
        u8 = []
        for r in recs:
            key = (profile + ":" + docgen.opts_token(r.opts) + ":" + r.doc).encode("utf-8", "surrogatepass")
            c.count(key, len(r.doc) > 0)
            line = f"pipe {docgen.opts_token(r.opts)} {hx(r.doc)}"
            if r.status != "ok":
                st = r.status
                if st.startswith("panic"):
                    parts = st.split(" ")
                    msg = unhx(parts[1]).decode("utf-8", "replace") if len(parts) > 1 else ""
                    loc = parts[2] if len(parts) > 2 else ""
                    if spx_site(loc) and "[^" in r.doc:
                        c.known_hit("spx_consume_multiline_footnote_ref", {"doc": hx(r.doc), "opts": docgen.opts_token(r.opts), "panic": msg[:120], "at": loc, "profile": profile})
                        continue
                    c.violation(f"parse_document panics ({profile} build): {msg[:160]} at {loc}", {"doc": hx(r.doc), "opts": docgen.opts_token(r.opts), "line": line, "profile": profile})
                elif st.startswith("dead") or st == "hang":
                    c.violation(f"the process {'aborted (stack overflow / abort signal)' if st.startswith('dead') else 'did not return within the watchdog limit'} ({profile} build): {st}",
                                {"doc_len": len(r.doc), "doc_head": r.doc[:80], "doc": hx(r.doc) if len(r.doc) < 4000 else hx(r.doc[:4000]), "opts": docgen.opts_token(r.opts), "line": line if len(line) < 20000 else line[:20000], "profile": profile})
                else:
                    c.problem("harness", "pipe", st[:200], {"line": line[:2000]})
                continue
            for stage, name in (("html", "format_html"), ("xml", "format_xml"), ("cm", "format_commonmark")):
                pan = r.stage_panic(stage)
                if pan is not None:
                    npan += 1
                    c.violation(f"{name} panics on parser output ({profile} build): {pan[0][:160]} at {pan[1]}",
                                {"doc": hx(r.doc), "opts": docgen.opts_token(r.opts), "line": f"md {stage} {docgen.opts_token(r.opts)} {hx(r.doc)}", "profile": profile})
                else:
                    u8.append((r, stage, getattr(r, stage)))
        res = vlib.run_lines(vlib.DRIVER, [f"utf8_valid {h}" for (_, _, h) in u8], timeout=900)
        bad = 0
        for (r, stage, h), x in zip(u8, res):
            if x != "ok 1":
                bad += 1
                c.violation(f"{stage} output is not valid UTF-8 ({profile} build)", {"doc": hx(r.doc), "opts": docgen.opts_token(r.opts), "line": f"md {stage} {docgen.opts_token(r.opts)} {hx(r.doc)}"})
        stats[profile] = {"cases": len(recs), "returned": sum(1 for r in recs if r.status == "ok"), "stage_panics": npan, "outputs_utf8_checked": len(u8), "not_utf8": bad}
    # the e-mail autolink recursion (C01-b, repaired by 89410a4: status fixed suppresses nothing): the witness
    # must complete in both builds, in an isolated process
    probe = "a@b.c " * (20000 if tier == "quick" else 100000)
    for profile in ("debug", "release"):
        r = vlib.run_one(vlib.VH[profile], f"parse autolink=1 {hx(probe)}", timeout=120)
        c.count(b"email-probe:" + profile.encode(), True)
        if not r.startswith("ok "):
            c.violation(f"parse_document does not return on the witness of the repaired class email_autolink_recursion ({profile} build): {r[:80]}",
                        {"input": "'a@b.c ' x %d" % (len(probe) // 6), "opts": "autolink=1", "observed": r[:200], "profile": profile,
                         "line": f"parse autolink=1 {hx(probe)}"[:200] + "..."})
        stats["email_probe_" + profile] = r[:40]
    c.cov["spec_checks"]["isolated pipeline runs: returns, no stage panic, utf8_valid(html/xml/cm)"] = stats
    c.cov["samples"].append({"line": f"pipe {docgen.opts_token(cases[0][1])} {hx(cases[0][0])[:200]}"})
    c.cov["input_distribution"] = {"generated": n, "families": len(fams) * 2, "option_sets": len(osets), "doc_len_max": max(len(d) for d, _ in cases)}
    c.cov["partial_clauses"] = ["no Coq model of the block / inline parser: for parse_document the property is searched, not proved",
                                "debug-build totality of the CommonMark formatter (checked prefix/list-counter arithmetic) is evaluated on every formatted tree, not proved",
                                "stack depth, wall-clock time and abort signals are runtime facts: observed with isolated workers and a watchdog"]
    c.assumptions = ["inputs are in-memory strings (usize addition overflow not modelled)", "the sink is an infallible buffer"]
    c.finish(rule="distinct by (build profile, options, document); non-trivial = non-empty document",
             trusted_base=["Coq 8.16.1 kernel; no axioms", "hand models tied by translator items and correspondences (render.cm here; render.html, render.xml, leaf.* in the other checks)",
                           "extraction + ocaml driver", "harness worker isolation (one process per shard, per-case re-run on death, watchdog)"])
