"""Shared machinery of C07 (CommonMark round trip) and C17 (formatter idempotence).

* gen_doc(rng, feats): documents from the STANDARD construct grammar (CommonMark + the five GFM
  extensions), with controllable construct sets so that failures can be attributed, and text drawn
  from an alphabet holding every Markdown-significant character in the positions where the formatter
  has to decide about an escape (line start, after digits, in table cells, before brackets).
* gen_opts(rng): width in {0, 1..120} x list_style x ol_width 0..8 x prefer_fenced x GFM on/off.
* run_rt3: the harness op `rt3` (H1 | C1 | H2 | C2 | T1 | T2).
* normalisation of the two admitted differences, failure tests, shrinking, classification.
"""
import os, re, subprocess, sys, threading
import vlib, docgen, shrink
from vlib import hx, unhx

GFM = ["strikethrough", "tagfilter", "table", "autolink", "tasklist"]

# ---------------------------------------------------------------------------------------------- text
WORDS = ["foo", "bar", "baz", "a", "I", "x1", "lorem", "ipsum", "é", "漢字", "9", "10", "z-z", "w.x", "q", "2024", "ab", "The", "of"]
# every ASCII punctuation character, as source text that yields the literal character in a Text node
# (a backslash escape or a numeric entity), so that the character reaches outc in every position
PUNCT = "!\"#$%&'()*+,-./:;<=>?@[\\]^_`{|}~"
HOT_RAW = list("*_`[]()<>!#+-.:~^|$&\\\"'=@/%{};?")
LINE_START = ["1.", "1)", "12.", "0.", "123456789.", "-", "+", "*", "#", "##", "###### ", ">", "=", "==", "---", "***", "___", "~~~", "```",
              "- [ ]", "- [x]", "[ ]", "[x]", "|", "| a | b |", "|-|-|", ":-:", "[a]: /b", "<div>", "<!--", "</p>", "    ", "\t", "&", "&amp;", "&#35;",
              "www.a.bc", "http://a.bc/d", "a@b.cd", "<http://a.bc>", "1", "1 .", "12", "2.", "3)"]
ENT = ["&amp;", "&lt;", "&gt;", "&quot;", "&copy;", "&#35;", "&#x2A;", "&#42;", "&#45;", "&#43;", "&#62;", "&#61;", "&#96;", "&#95;", "&#91;", "&#93;", "&#92;",
       "&#126;", "&#124;", "&#60;", "&#33;", "&#38;", "&#46;", "&#41;", "&#32;", "&#9;", "&#10;", "&#1;", "&#31;", "&#127;", "&#160;", "&nbsp;", "&#0;", "&nosuch;", "&#;", "&"]


def word(rng, hot):
    r = rng.random()
    if r < hot * 0.35:
        return rng.choice(HOT_RAW)
    if r < hot * 0.6:
        return "\\" + rng.choice(PUNCT)
    if r < hot * 0.8:
        return rng.choice(ENT)
    if r < hot:
        return rng.choice(LINE_START)
    return rng.choice(WORDS)


def text(rng, n=None, hot=0.3):
    n = n or rng.choice([1, 1, 2, 3, 4, 6, 9])
    out = []
    for i in range(n):
        out.append(word(rng, hot))
        if i + 1 < n:
            out.append(rng.choice([" ", " ", " ", " ", "", "  ", "\t"]))
    return "".join(out)


URLS = ["/url", "http://a.b/c?d=e&f", "https://example.com/a_(b)", "<a b>", "<>", "mailto:x@y.z", "#frag", "a%20b", "é", "x\"y", "/u'v", "a&b", "a\\b",
        "<a\tb>", "/a(b", "<a)b>", "/a*b*", "/a_b_", "&amp;", "<a&#10;b>", "a`b", "<a<b>", "/x\\)", "http://a.b", "x:y"]
TITLES = ['"t"', "'t'", "(t)", '"a \\" b"', '"<b>"', '"&amp;"', "\"é\"", "'a\"b'", "\"a\\\\b\"", "\"a`b\"", "'x\ny'", "\"*t*\"", "(a 'b')"]

STD_INLINE = ["emph", "strong", "nested", "code", "link", "image", "autolink", "html", "hardbreak", "softbreak", "reflink", "escape", "entity", "brackets"]
GFM_INLINE = ["strike", "extauto"]
STD_BLOCK = ["para", "atx", "setext", "hr", "fence", "indent", "quote", "bullet", "ordered", "htmlblock", "refdef", "lazy"]
GFM_BLOCK = ["table", "task"]
ALL_FEATS = STD_INLINE + GFM_INLINE + STD_BLOCK + GFM_BLOCK


class G:
    """one document's generator state: the rng, the allowed constructs and the constructs actually used"""

    def __init__(self, rng, feats, hot):
        self.rng = rng
        self.feats = set(feats)
        self.hot = hot
        self.used = set()

    def pick(self, pool):
        c = [k for k in pool if k in self.feats]
        if not c:
            return None
        k = self.rng.choice(c)
        self.used.add(k)
        return k

    # ------------------------------------------------------------------------------------ inlines
    def inline(self, depth=0, table=False):
        rng = self.rng
        if depth > 2 or rng.random() < 0.4:
            return text(rng, hot=self.hot)
        pool = STD_INLINE + GFM_INLINE
        if table:
            pool = [k for k in pool if k not in ("hardbreak", "softbreak")]
        k = self.pick(pool)
        t = lambda: self.inline(depth + 1, table)
        if k is None:
            return text(rng, hot=self.hot)
        if k == "emph":
            d = rng.choice("*_")
            return f"{d}{t()}{d}"
        if k == "strong":
            d = rng.choice(["**", "__"])
            return f"{d}{t()}{d}"
        if k == "nested":
            return rng.choice(["***{}***", "**{} *x***", "*a **{}** b*", "_a __{}__ b_", "**a *{}***", "**a __{}__ b**", "__**{}**__", "*_{}_*", "_*{}*_ x", "*a _{}_*",
                               "**a**{}**b**", "*a*{}*b*", "*{}*_y_", "**{}**__y__", "***a* {}**", "***a** {}*"]).format(t())
        if k == "code":
            n = rng.choice([1, 1, 2, 3])
            body = rng.choice(["x", "a b", " `` ", "a`b", "*x*", "<b>", "&amp;", " x ", "  ", "a\nb", "|", "$", "`", " ` ", "a  b", " a", "a ", "\\", "a\\|b", "``` x", "~~~"])
            if table:
                body = body.replace("\n", " ")
            if "`" * n in body.replace("`" * (n + 1), ""):
                n = 4
            return "`" * n + body + "`" * n
        if k == "link":
            dest = rng.choice(URLS)
            title = " " + rng.choice(TITLES) if rng.random() < 0.3 else ""
            if table:
                dest, title = dest.replace("\t", " "), title.replace("\n", " ")
            return f"[{t()}]({dest}{title})"
        if k == "image":
            dest = rng.choice(URLS)
            title = " " + rng.choice(TITLES) if rng.random() < 0.3 else ""
            if table:
                dest, title = dest.replace("\t", " "), title.replace("\n", " ")
            return f"![{t()}]({dest}{title})"
        if k == "autolink":
            return rng.choice(["<http://x.y/z>", "<https://a.b?c=d&e>", "<foo@bar.baz>", "<mailto:a@b.c>", "<x:y>", "<http://a.b/c_d_>", "<http://a.b/`c>", "<MAILTO:a@b.c>",
                               "<http://a.b/*c*>", "<a+b@c.d>", "<http://a.b/\\c>", "<ab:c\"d>"])
        if k == "html":
            return rng.choice(["<b>", "</b>", "<a href=\"x\">", "<br/>", "<!-- c -->", "<?pi?>", "<![CDATA[x]]>", "<!DOCTYPE x>", "<x y='z'>", "<a\nb>", "<!-- a\nb -->", "<b c=\"*d*\">"])
        if k == "hardbreak":
            return rng.choice(["  \n", "\\\n", "   \n"]) + rng.choice(["", "", " ", "  "]) + text(rng, 1, self.hot)
        if k == "softbreak":
            return "\n" + rng.choice(["", "", " ", "   "]) + text(rng, 1, self.hot)
        if k == "reflink":
            return rng.choice(["[ref]", "[Ref][]", "[text][ref]", "[REF]", "[x][nosuch]", "[ref2]", "![ref]", "[ a  b ]", "[*e*][ref]", "![i][ref2]"])
        if k == "escape":
            return "\\" + rng.choice(list(PUNCT) + ["a", " ", "\n"])
        if k == "entity":
            return rng.choice(ENT)
        if k == "brackets":
            return rng.choice(["[", "]", "[]", "[](", "![", "[x](", "[x]()", "[x](<>)", "[[x]]", "[x][", "!", "![]", "!\\[", "a![b", "[x] (y)", "[x]:", "]("])
        if k == "strike":
            d = rng.choice(["~~", "~"])
            return f"{d}{t()}{d}"
        if k == "extauto":
            return rng.choice(["www.example.com", "http://x.y/z)", "https://a.b/c_d_", "www.a.b/(c)", "ftp://x.y", "www.a.b.", "www.a_b.c", "a@b.c", "foo.bar@baz.org", "x+y@z.w.",
                               "mailto:a@b.c", "xmpp:a@b.c/r", "http://a.b/c~d", "www.a.b/c*d*", "(www.a.b)", "http://a.b/<c", "a.b-c_d@e.f"])
        return text(rng, hot=self.hot)

    def inlines(self, table=False):
        n = self.rng.choice([1, 1, 2, 3, 5])
        return self.rng.choice([" ", " ", "", " "]).join(self.inline(0, table) for _ in range(n))

    def para(self):
        lines = [self.inlines() for _ in range(self.rng.choice([1, 1, 1, 2, 3]))]
        return "\n".join(lines)

    # ------------------------------------------------------------------------------------- blocks
    def block(self, depth=0):
        rng = self.rng
        if depth > 3:
            self.used.add("para")
            return self.para()
        pool = ["para", "para"] + STD_BLOCK + GFM_BLOCK
        k = self.pick(pool)
        sub = lambda: self.block(depth + 1)
        if k is None or k == "para":
            self.used.add("para")
            return self.para()
        if k == "atx":
            n = rng.choice([1, 2, 3, 4, 5, 6, 6])
            tail = rng.choice(["", "", "", " #", " ##  ", " \\#", "#", " \\##", " #\\#"])
            return "#" * n + rng.choice([" ", " ", "  ", "\t"]) + self.inlines().replace("\n", " ") + tail
        if k == "setext":
            return self.para() + "\n" + rng.choice(["===", "---", "=", "-", "==  ", " ---"])
        if k == "hr":
            return rng.choice(["---", "***", "___", "- - -", " * * *", "-----", "_ _ _ _"])
        if k == "fence":
            ch = rng.choice("`~")
            n = rng.choice([3, 3, 4, 5])
            info = rng.choice(["", "", "rust", "c++ x=y", "a\"b<c", " py ", "x`y" if ch == "~" else "x", "a\\*b", "&amp;", "a~b"])
            body = rng.choice(["code", "a\n  b\n", "```", "~~~", "<b>&amp;", "", "\n\n", "*x*", "    i", " x", "x \n", "\nx", "x\n\n", "````\n~~~~", "a\n\nb", "- a", "> a", "\tt", "  ", "a\n "])
            close = rng.choice([ch * n, ch * n, ch * n, ch * (n + 1), ""])
            return f"{ch * n}{info}\n{body}\n{close}"
        if k == "indent":
            ls = ["    " + rng.choice(["code", " x", "<a>", "*y*", "", "\tz", "- a", "> b", "```", "x  ", "1. a"]) for _ in range(rng.choice([1, 2, 3]))]
            if not ls[0].strip():
                ls[0] = "    c"
            return "\n".join(ls)
        if k == "quote":
            inner = sub().split("\n")
            if rng.random() < 0.3:
                inner += [""] + sub().split("\n")
            lazy = "lazy" in self.feats and rng.random() < 0.15
            return "\n".join((">" + rng.choice([" ", " ", " ", "", "  "]) + l) if (i == 0 or not lazy) else l for i, l in enumerate(inner))
        if k == "lazy":
            return "> " + text(rng, 2, 0) + "\n" + text(rng, 2, self.hot)
        if k in ("bullet", "ordered", "task"):
            items = []
            n = rng.choice([1, 2, 2, 3])
            start = rng.choice([1, 1, 1, 0, 2, 9, 10, 99, 123456789])
            delim = rng.choice([".", ")"])
            bul = rng.choice("-+*")
            for i in range(n):
                marker = f"{start + i}{delim}" if k == "ordered" else bul
                if k == "task":
                    marker += rng.choice([" [ ]", " [x]", " [X]"])
                pad = rng.choice([" ", " ", " ", "  ", "   "])
                r = rng.random()
                if r < 0.06 and k != "task":
                    body = [""]          # empty item
                    pad = ""
                else:
                    body = sub().split("\n")
                ind = " " * (len(marker) + len(pad))
                item = [marker + pad + body[0]] + [(ind + l if l else l) for l in body[1:]]
                if rng.random() < 0.3 and body != [""]:
                    extra = sub().split("\n")
                    if rng.random() < 0.7:
                        item.append("")
                    item.extend(ind + l if l else l for l in extra)
                items.append("\n".join(item))
            sep = "\n\n" if rng.random() < 0.3 else "\n"
            return sep.join(items)
        if k == "htmlblock":
            return rng.choice(["<div>\n*x*\n</div>", "<script>\nalert(1)\n</script>", "<!-- c\n-->", "<?php\n?>", "<!DOCTYPE html>", "<![CDATA[\nx\n]]>",
                               "<table><tr><td>\n</td></tr></table>", "<del>\n\n*x*\n\n</del>", "<pre>\n\n</pre>", "<a href=\"x\">\n", "</div>", "<x-y z>", "<div>\n  indented\n</div>",
                               "<!-- end list -->", "<div>", " <div>\n x", "<p>\n    a\n</p>"])
        if k == "table":
            cols = rng.choice([1, 2, 2, 3, 4])
            cell = lambda: rng.choice([text(rng, 1, self.hot), text(rng, 2, self.hot), self.inline(1, True).replace("\n", " "), "", "a\\|b", "`x|y`", "`x\\|y`", " ", "**b**", "\\|", "a \\\\| b", "&#124;", "x  ", "\\"])
            head = "|" + "|".join(f" {cell() or 'h'} " for _ in range(cols)) + "|"
            if rng.random() < 0.15:
                head = head.strip("|").strip() or "h|h"
                if "|" not in head:
                    head = "|" + head + "|"
            dl = "|" + "|".join(rng.choice(["---", ":--", "--:", ":-:", "-", " :-: "]) for _ in range(cols)) + "|"
            rows = []
            for _ in range(rng.choice([0, 1, 2, 3])):
                c = rng.choice([cols, cols, cols, cols - 1, cols + 1, 1])
                rows.append("|" + "|".join(f" {cell()} " for _ in range(max(1, c))) + "|")
            pre = (text(rng, 2, 0) + "\n") if rng.random() < 0.1 else ""
            return pre + "\n".join([head, dl] + rows)
        if k == "refdef":
            return rng.choice(["[ref]: /url", "[ref]: /url \"title\"", "[REF]: /other", "[ref2]:\n  /u2\n  'multi\nline'", "[ a  b ]: <x y>", "[ref]: /dup (t)",
                               "[ref]: /url \"t\" junk", "[ref2]: <a\tb> 'q\"r'"]) + (("\n" + self.para()) if rng.random() < 0.3 else "")
        self.used.add("para")
        return self.para()

    def doc(self, nblocks=None):
        rng = self.rng
        n = nblocks or rng.choice([1, 1, 2, 3, 4, 6])
        parts = [self.block() for _ in range(n)]
        if "reflink" in self.used and "refdef" not in self.used and rng.random() < 0.8:
            parts.append("[ref]: /url \"t\"\n[ref2]: <u 2>")
        sep = lambda: rng.choice(["\n\n", "\n\n", "\n\n", "\n\n", "\n", "\n\n\n"])
        doc = ""
        for i, p in enumerate(parts):
            doc += p + (sep() if i + 1 < len(parts) else rng.choice(["\n", "\n", "", "\n\n"]))
        return doc


# ------------------------------------------------------------------- deterministic small-structure sweep
GRID_BLOCKS = {"para": ["a"], "para2": ["a", "b"], "atx": ["# h"], "hr": ["***"], "html7": ["<d>"], "html6": ["<div>"], "html2": ["<!-- c -->"], "icode": ["    code"],
               "fence": ["```", "code", "```"], "fence_info": ["~~~ x", "code", "~~~"], "quote": ["> q"], "bullet": ["- x"], "bullet2": ["- x", "- y"], "ol1": ["1. x"], "ol2": ["2. x"],
               "empty_item": ["-"], "table": ["|a|", "|-|"], "refdef": ["[r]: /u"],
               # added after the second round of seeded changes: task items, lists nested in (task) items, code blocks
               # with an interior line of spaces only
               "task": ["- [ ] t"], "task_nested": ["- [ ] t", "  - n", "  - m"], "bullet_nested": ["- x", "  - y"],
               "fence_ws": ["```", "foo", "  ", "bar", "```"], "icode_ws": ["    a", "      ", "    b"]}
GRID_CONTEXTS = [("", ""), ("> ", "> "), ("- ", "  "), ("1. ", "   "), ("- > ", "  > ")]
GRID_WORDS = ["a", "bb", "1.", "1)", "12.", "-", "+", "=", "#", ">", "*", "~~~", "<b>", "`c d`", "[l](u)", "x1", "9"]


def grid_cases():
    """documents small enough to be classified WITHOUT shrinking (so a new failure cannot slide into a known
    class): every ordered pair of block forms, with and without a blank line between them, at top level, in a
    block quote, in a bullet item, in an ordered item and in a quote inside an item; and every sequence of three
    words from a marker-heavy vocabulary, joined by one or two spaces, at four wrap widths.  Independent of the seed."""
    out = []
    plain, gfm = {"unsafe": True}, {"unsafe": True, **{k: True for k in GFM}}
    for first, rest in GRID_CONTEXTS:
        for a in GRID_BLOCKS.values():
            for b in GRID_BLOCKS.values():
                for sep in ([""], []):
                    lines = a + sep + b
                    doc = "\n".join(((first if i == 0 else rest) + l).rstrip(" ") if l else rest.rstrip(" ") for i, l in enumerate(lines)) + "\n"
                    out.append((doc, gfm))
                    if first == "1. " and sep:
                        # padded ordered markers: the continuation indent is the padded width
                        out.append((doc, {**gfm, "ol_width": 6}))
    for a in GRID_BLOCKS.values():
        for b in GRID_BLOCKS.values():
            out.append(("\n".join(a + [""] + b) + "\n", plain))
            out.append(("\n".join(a + [""] + b) + "\n", {**gfm, "ol_width": 5, "list_style": "star"}))
    for w1 in GRID_WORDS:
        for w2 in GRID_WORDS:
            for w3 in GRID_WORDS:
                for sp in (" ", "  "):
                    for width in (1, 4, 7, 10):
                        out.append((f"aaaa {w1}{sp}{w2} {w3} dddd\n", {"unsafe": True, "width": width}))
    return out


def gen_feats(rng):
    """the construct set of one document: everything, or a small random subset (so that a failure can be
    attributed to few constructs), or one block family + one inline family"""
    r = rng.random()
    if r < 0.3:
        return list(ALL_FEATS)
    if r < 0.65:
        k = rng.choice([2, 3, 4, 6])
        return ["para"] + rng.sample(ALL_FEATS, k)
    if r < 0.85:
        return ["para", rng.choice(STD_BLOCK + GFM_BLOCK), rng.choice(STD_BLOCK + GFM_BLOCK), rng.choice(STD_INLINE + GFM_INLINE)]
    return ["para"] + rng.sample(STD_BLOCK + GFM_BLOCK, 3)


def gen_doc(rng):
    feats = gen_feats(rng)
    g = G(rng, feats, rng.choice([0.0, 0.15, 0.3, 0.3, 0.6]))
    d = g.doc()
    # NUL becomes U+FFFD and CR/CRLF are line endings: both are normalised by the parser before the tree
    return d, sorted(g.used)


def gen_opts(rng):
    o = {"unsafe": True}
    r = rng.random()
    if r < 0.45:
        for k in GFM:
            o[k] = True
    elif r < 0.75:
        for k in GFM:
            if rng.random() < 0.5:
                o[k] = True
    r = rng.random()
    if r < 0.35:
        pass                                   # width 0: no wrapping
    elif r < 0.55:
        o["width"] = rng.randrange(1, 13)
    else:
        o["width"] = rng.randrange(1, 121)
    if rng.random() < 0.5:
        o["list_style"] = rng.choice(["dash", "plus", "star"])
    if rng.random() < 0.4:
        o["ol_width"] = rng.randrange(0, 9)
    if rng.random() < 0.3:
        o["prefer_fenced"] = True
    return o


# ------------------------------------------------------------------------------------------- running
class Rt:
    __slots__ = ("doc", "opts", "used", "status", "h1", "c1", "h2", "c2", "t1", "t2")

    def bytes_of(self, name):
        v = getattr(self, name)
        if v is None or v.startswith("!") or (v == "-" and name in ("h2", "c2") and self.c1.startswith("!")):
            return None
        return unhx(v)

    def panic_of(self, name):
        v = getattr(self, name)
        if v is not None and v.startswith("!"):
            msg, _, loc = v[1:].partition("@")
            return (unhx(msg).decode("utf-8", "replace"), loc)
        return None


def parse_rt3(line, doc=None, opts=None):
    r = Rt()
    r.doc, r.opts, r.used = doc, opts, None
    r.h1 = r.c1 = r.h2 = r.c2 = r.t1 = r.t2 = None
    if not line.startswith("ok "):
        r.status = line
        return r
    r.status = "ok"
    parts = line[3:].split(" | ")
    r.h1, r.c1, r.h2, r.c2, r.t1, r.t2 = parts[:6]
    return r


def rt3_line(doc, opts):
    return f"rt3 {docgen.opts_token(opts)} {hx(doc)}"


def run_rt3(cases, profile="release", timeout=900):
    lines = [rt3_line(d, o) for d, o in cases]
    out = vlib.run_lines(vlib.VH[profile], lines, timeout=timeout)
    return [parse_rt3(l, d, o) for (d, o), l in zip(cases, out)]


class Proc:
    """a persistent harness process for the many small queries of shrinking"""

    def __init__(self, exe):
        self.exe = exe
        self.p = None

    def start(self):
        # --announce makes the harness flush after every case (it also writes a `#start n` line first)
        self.p = subprocess.Popen([self.exe, "--announce"], stdin=subprocess.PIPE, stdout=subprocess.PIPE, stderr=subprocess.DEVNULL, env=vlib.ENV)

    def ask(self, line):
        if self.p is None or self.p.poll() is not None:
            self.start()
        try:
            self.p.stdin.write((line + "\n").encode())
            self.p.stdin.flush()
            out = self.p.stdout.readline().decode("utf-8", "replace").rstrip("\n")
            while out.startswith("#start"):
                out = self.p.stdout.readline().decode("utf-8", "replace").rstrip("\n")
        except (BrokenPipeError, OSError):
            out = ""
        if not out:
            rc = self.p.poll()
            self.p = None
            return f"dead {rc}"
        return out

    def close(self):
        if self.p is not None:
            try:
                self.p.stdin.close()
                self.p.wait(timeout=5)
            except Exception:
                self.p.kill()
            self.p = None


# ------------------------------------------------------------------------------ comparison of outputs
END_LIST = b"<!-- end list -->"


def strip_end_list_comments(h):
    """Python mirror of Spec/RoundTrip.v strip_end_list_comments (the check uses the extracted function;
    this copy serves shrinking, where thousands of comparisons are made): drop every '\\n'-terminated
    line that is exactly the formatter's end-of-list comment."""
    parts = h.split(b"\n")
    lines, rest = parts[:-1], parts[-1]
    return b"".join(l + b"\n" for l in lines if l != END_LIST) + rest


_SEG = re.compile(rb"(<pre><code.*?</code></pre>|<code>.*?</code>)", re.S)
_WS = re.compile(rb"[ \n]+")


def ws_norm(h):
    """inter-word whitespace normalisation used for the wrap class C07-a: outside <pre>..</pre> and
    <code>..</code> every maximal run of spaces and newlines becomes one space"""
    out = []
    for i, seg in enumerate(_SEG.split(h)):
        out.append(seg if i % 2 else _WS.sub(b" ", seg))
    return b"".join(out)


# ------------------------------------------------------------------------------------ dumped trees
class N:
    """node of a dumped tree (harness/src/tree.rs): kind, fields (tokens), children, parent"""
    __slots__ = ("kind", "f", "ch", "parent")

    def __init__(self, kind, f):
        self.kind, self.f, self.ch, self.parent = kind, f, [], None

    def lit(self, i=0):
        return unhx(self.f[i])

    def walk(self):
        st = [self]
        while st:
            n = st.pop()
            yield n
            st.extend(reversed(n.ch))

    def prev(self):
        p = self.parent
        if p is None:
            return None
        i = p.ch.index(self)
        return p.ch[i - 1] if i > 0 else None

    def next(self):
        p = self.parent
        if p is None:
            return None
        i = p.ch.index(self)
        return p.ch[i + 1] if i + 1 < len(p.ch) else None

    def ancestors(self):
        p = self.parent
        while p is not None:
            yield p
            p = p.parent


def parse_tree(toks):
    if isinstance(toks, str):
        toks = toks.split()
    root = None
    stack = []
    i = 0
    while i < len(toks):
        t = toks[i]
        if t == ")":
            n = stack.pop()
            if not stack:
                root = n
            i += 1
            continue
        assert t == "(", t
        kind = toks[i + 1]
        j = i + 6
        f = []
        while toks[j] not in ("(", ")"):
            f.append(toks[j])
            j += 1
        n = N(kind, f)
        if stack:
            n.parent = stack[-1]
            stack[-1].ch.append(n)
        stack.append(n)
        i = j
    return root


def tree_tokens(n, out=None):
    """back to the token format (source positions are not kept: written as 0 0 0 0)"""
    top = out is None
    if top:
        out = []
    out.append("(")
    out.append(n.kind)
    out.extend(["0", "0", "0", "0"])
    out.extend(n.f)
    for c in n.ch:
        tree_tokens(c, out)
    out.append(")")
    return " ".join(out) if top else None


# ------------------------------------------------------------------------- class predicates (Python)
INLINE_CONT = ("Emph", "Strong", "Strikethrough", "Link", "Image")
ASCII_PUNCT = set(b"!\"#$%&'()*+,-./:;<=>?@[\\]^_`{|}~")


def approx(n):
    """approximate CommonMark source of an inline subtree as cm.rs spells it (delimiters only; no escapes)"""
    k = n.kind
    inner = lambda: b"".join(approx(c) for c in n.ch)
    if k == "Text":
        return n.lit()
    if k == "Emph":
        return b"*" + inner() + b"*"
    if k == "Strong":
        return (b"" if n.parent is not None and n.parent.kind == "Strong" else b"**") + inner() + (b"" if n.parent is not None and n.parent.kind == "Strong" else b"**")
    if k == "Strikethrough":
        return b"~~" + inner() + b"~~"
    if k == "Code":
        return b"`" + n.lit(1) + b"`"
    if k == "Link":
        return b"[" + inner() + b"](" + n.lit(0) + b")"
    if k == "Image":
        return b"![" + inner() + b"](" + n.lit(0) + b")"
    if k in ("HtmlInline", "Raw"):
        return n.lit()
    if k == "SoftBreak":
        return b"\n"
    if k == "LineBreak":
        return b"\\\n"
    return inner()


def is_inline_holder(n):
    return n.kind in ("Paragraph", "Heading", "TableCell")


def holder_lines(n):
    return b"".join(approx(c) for c in n.ch).split(b"\n")


def texts(t, pred=lambda n: True):
    return [n for n in t.walk() if n.kind == "Text" and pred(n)]


def under(n, kinds):
    return any(a.kind in kinds for a in n.ancestors())


def is_space_like(ch):
    """ch: str (one character) or None.  Unicode whitespace per the CommonMark flanking rule"""
    return ch is None or ch.isspace() or ch == " "


def is_punct_like(ch):
    import unicodedata
    return ch is not None and (ord(ch) < 128 and ord(ch) in ASCII_PUNCT or unicodedata.category(ch).startswith(("P", "S")))


_DELIM_ROW = re.compile(rb"^[ \t]*\|?[ \t]*:?-+:?[ \t]*(\|[ \t]*:?-+:?[ \t]*)*\|?[ \t]*$")
_URI_AUTOLINK = re.compile(rb"^[A-Za-z][A-Za-z0-9+.\-]{1,31}:[^\x00-\x20<>]*$")
_EMAIL_AUTOLINK = re.compile(rb"^[a-zA-Z0-9.!#$%&'*+/=?^_`{|}~-]+@[a-zA-Z0-9](?:[a-zA-Z0-9-]{0,61}[a-zA-Z0-9])?(?:\.[a-zA-Z0-9](?:[a-zA-Z0-9-]{0,61}[a-zA-Z0-9])?)*$")
_SCHEME = re.compile(rb"^[A-Za-z][A-Za-z0-9+.\-]{1,31}:")


def is_autolink_node(n):
    """cm.rs is_autolink: scheme(url), empty title, single first child Text equal to url minus `mailto:`"""
    if n.kind != "Link":
        return False
    url, title = n.lit(0), n.lit(1)
    if not url or not _SCHEME.match(url) or title or not n.ch or n.ch[0].kind != "Text":
        return False
    u = url[7:] if url.startswith(b"mailto:") else url
    return u == n.ch[0].lit()


def written_indented(cb, opts):
    """cm.rs format_code_block chooses the indented form"""
    info, lit = cb.lit(4), cb.lit(5)
    first_in_item = cb.prev() is None and cb.parent is not None and cb.parent.kind in ("Item", "TaskItem")
    sp = b" \t\n\x0b\x0c\r"
    return not (len(info) > 0 or len(lit) <= 2 or lit[0] in sp or first_in_item or opts.get("prefer_fenced") or (lit[-1] in sp and lit[-2] in sp))


def html_block_unterminated(n):
    bt, lit = int(n.f[0]), n.lit(1).lower()
    end = {1: [b"</script>", b"</pre>", b"</style>", b"</textarea>"], 2: [b"-->"], 3: [b"?>"], 4: [b">"], 5: [b"]]>"]}
    return bt in end and not any(e in lit for e in end[bt])


def c1_lines(case):
    return (case.c1b or b"").split(b"\n")


def strip_prefix(line):
    """remove container prefixes (`> `, indentation) and list markers that cm.rs writes at the start of a line"""
    m = re.match(rb"^(?:[> ]|[-+*] |\d{1,9}[.)] +)*", line)
    return line[m.end():]


class Case:
    """a (shrunk) failing case: document, options, the six rt3 sections, and lazily the same document at width 0"""

    def __init__(self, r, ask):
        self.r = r
        self.doc, self.opts = r.doc, r.opts
        self.t1 = parse_tree(r.t1) if r.t1 and r.t1 != "-" else None
        self.c1b, self.c2b, self.h1b, self.h2b = r.bytes_of("c1"), r.bytes_of("c2"), r.bytes_of("h1"), r.bytes_of("h2")
        self._ask = ask
        self._w0 = None

    def w0(self):
        """the same document formatted without wrapping"""
        if self._w0 is None:
            o = dict(self.opts)
            o.pop("width", None)
            self._w0 = parse_rt3(self._ask(rt3_line(self.doc, o)), self.doc, o)
        return self._w0

    def width_induced(self, fail):
        return bool(self.opts.get("width")) and not fail(self.w0())

    def nodes(self, kind=None):
        return [n for n in self.t1.walk() if kind is None or n.kind == kind or (isinstance(kind, tuple) and n.kind in kind)] if self.t1 else []


_OL_START = re.compile(rb"^\d{1,9}[.)]([ \t]|$)")


def _line_starts(case, toks):
    """some line of C1 that wrapping produced (it is not a line of the output at width 0) starts, after the
    container prefix, with one of the block-start tokens"""
    ls = c1_lines(case)
    w0 = case.w0().bytes_of("c1") if case.opts.get("width") else None
    unwrapped = set((w0 or b"").split(b"\n"))
    for i, l in enumerate(ls):
        if l in unwrapped:
            continue
        s = l.lstrip(b"> ")
        for t in toks:
            if t == b"<":
                if strip_prefix(l).startswith(b"<"):
                    return True
            elif t == b"1.":
                if i > 0 and _OL_START.match(s):
                    return True
            elif i > 0 and s.startswith(t) and (len(t) > 1 or s[1:2] in (b"", b" ", b"\t") or (t in (b"-", b"=") and set(s.rstrip()) == set(t))):
                return True
    return False


def emph_like(n):
    return n is not None and n.kind in ("Emph", "Strong")


def first_char(n):
    s = approx(n).decode("utf-8", "replace")
    return s[0] if s else None


def last_char(n):
    s = approx(n).decode("utf-8", "replace")
    return s[-1] if s else None


def p_emph_adjacent(case):
    """delimiter runs of two emphasis nodes touch: an Emph/Strong directly followed by an Emph/Strong sibling,
    or whose first/last child is an Emph/Strong (other than the documented Strong-in-Strong and the
    `_` alternation cm.rs uses for an Emph that is the only child of an Emph)"""
    for e in case.nodes(("Emph", "Strong")):
        if emph_like(e.next()) or emph_like(e.prev()):
            return True
        for c in (e.ch[0], e.ch[-1]) if e.ch else ():
            if emph_like(c):
                if e.kind == "Strong" and c.kind == "Strong":
                    continue
                if e.kind == "Emph" and c.kind == "Emph" and len(e.ch) == 1 and not (c.ch and emph_like(c.ch[0]) and len(c.ch) == 1 and c.ch[0].kind == "Emph"):
                    continue
                return True
    return False


def p_emph_flank(case):
    """an Emph/Strong/Strikethrough whose content starts or ends with whitespace or punctuation (so that the
    delimiter run cm.rs writes is not left-/right-flanking in every context), or that has no content,
    or whose outside neighbour character is alphanumeric next to a `_`-free `*` run beside punctuation"""
    for e in case.nodes(("Emph", "Strong", "Strikethrough")):
        inner = b"".join(approx(c) for c in e.ch).decode("utf-8", "replace")
        if not inner:
            return True
        a, b = inner[0], inner[-1]
        if is_space_like(a) or is_space_like(b) or is_punct_like(a) or is_punct_like(b):
            return True
    return False


def p_wrap(case, toks, fail):
    return case.width_induced(fail) and _line_starts(case, toks)


_MARKER_TEXT = re.compile(rb"^(\d{1,9}[.)]([ \t]|$)|[-+=])")


def marker_starts_inline_node(case):
    """a Text literal begins with a list marker / setext character and the node before it ends the previous
    output buffer with a breakable space (a soft break, written as a space under wrapping, or an inline whose
    spelling ends in a space): output() protects a digit, `-`, `+`, `=` after the space only inside ONE buffer
    (`buf.get(i + 1)` is None at the end of a buffer), so this is the one place where wrapping can still put a
    marker first on a line"""
    for t in texts(case.t1):
        pv = t.prev()
        if pv is not None and _MARKER_TEXT.match(t.lit()) and (pv.kind == "SoftBreak" or approx(pv).endswith(b" ")):
            return True
    return False


def p_wrap_marker(case, fail):
    return p_wrap(case, [b"-", b"+", b"=", b"1."], fail) and marker_starts_inline_node(case)


def holder_line_texts(case):
    """(holder, [lines]) for every Paragraph/Heading/TableCell"""
    return [(h, holder_lines(h)) for h in case.nodes(("Paragraph", "Heading", "TableCell"))]


def p_tilde_fence_text(case):
    return any(l.lstrip(b" ").startswith(b"~~~") for h, ls in holder_line_texts(case) if h.kind == "Paragraph" for l in ls)


def p_table_delim_row_text(case):
    """table extension on: a paragraph outside tables has a continuation line (or, with wrapping, a word that
    may start a line) that reads as a delimiter row (`-|-`, `:-`, `-:` ...); `|`, `:` and `-` are not escaped"""
    if not case.opts.get("table"):
        return False
    ok = lambda w: _DELIM_ROW.match(w) and b"-" in w and (b"|" in w or b":" in w)
    for h, ls in holder_line_texts(case):
        if h.kind == "Paragraph" and not under(h, ("Table",)):
            if any(ok(l) for l in ls[1:]):
                return True
            if case.opts.get("width"):
                for i, l in enumerate(ls):
                    ws = l.split(b" ")
                    if any(ok(w) for w in (ws if i else ws[1:])):
                        return True
                # a wrapped line of the output itself reads as a delimiter row (it may hold spaces)
                if any(ok(x.lstrip(b"> ")) for x in c1_lines(case)[1:]):
                    return True
    return False


def p_ol_width_code(case):
    w = case.opts.get("ol_width", 0)
    for l in case.nodes("List"):
        if l.f[0] == "o" and l.ch:
            start = int(l.f[3])
            for i, it in enumerate(l.ch):
                if it.ch and w >= len(str(start + i)) + 6:
                    return True
    return False


def p_code_span_ws_wrap(case):
    if not case.opts.get("width"):
        return False
    for c in case.nodes("Code"):
        lit = c.lit(1)
        if b"  " in lit or lit.startswith(b" ") or lit.endswith(b" "):
            return True
    return False


def p_autolink_form(case):
    for l in case.nodes("Link"):
        if is_autolink_node(l):
            t = l.ch[0].lit()
            if not (_URI_AUTOLINK.match(t) or _EMAIL_AUTOLINK.match(t)):
                return True
    return False


def p_ext_autolink_text(case):
    if not case.opts.get("autolink"):
        return False
    for t in texts(case.t1, lambda n: not under(n, ("Link",))):
        s = t.lit()
        if b"www." in s or b"://" in s or b"@" in s or b"mailto:" in s or b"xmpp:" in s:
            return True
    return False


def p_heading_softbreak(case):
    return any(any(d.kind == "SoftBreak" for d in h.walk()) for h in case.nodes("Heading"))


def p_heading_linebreak(case):
    """a heading holds a hard line break, or an inline literal that spans lines (inline HTML, a link or image
    title or destination): no_linebreaks only covers soft breaks and wrapping"""
    for h in case.nodes("Heading"):
        for d in h.walk():
            if d.kind == "LineBreak":
                return True
            if d.kind in ("HtmlInline", "Raw") and b"\n" in d.lit():
                return True
            if d.kind in ("Link", "Image") and (b"\n" in d.lit(0) or b"\n" in d.lit(1)):
                return True
    return False


def p_edge_space_text(case):
    """a Text literal begins (ends) with a space or tab and nothing precedes (follows) it on its line or inside
    its inline container: such a space can only come from an entity or an escape and is stripped, or turned
    into a line break by wrapping, on the way back"""
    for t in texts(case.t1):
        s = t.lit()
        pv, nx = t.prev(), t.next()
        if s[:1] in (b" ", b"\t") and (pv is None or pv.kind in ("SoftBreak", "LineBreak")):
            return True
        if s[-1:] in (b" ", b"\t") and (nx is None or nx.kind in ("SoftBreak", "LineBreak")):
            return True
    return False


def p_amp_escape_unstable(case):
    """C17 only, on the two outputs: they differ only in backslashes before `&` (whether `&` is followed by a
    letter is decided inside one Text node; the re-parsed text is split differently)"""
    a, b = case.c1b, case.c2b
    return a is not None and b is not None and a != b and a.replace(b"\\&", b"&") == b.replace(b"\\&", b"&")


def p_end_list_comment_in_container(case):
    """C17 only: the end-of-list comment is written inside a block quote or a list item; on the second pass it is
    an HTML block (a literal ending in a newline) followed by a sibling, and the blank line after it is written
    without the container prefix (class quote_prefix_after_literal on the re-parsed tree)"""
    for l in case.nodes("List"):
        nx = l.next()
        if nx is not None and nx.kind in ("List", "CodeBlock") and under(l, ("BlockQuote", "Item", "TaskItem")):
            return True
    return False


def p_html_block_unterminated(case):
    return any(html_block_unterminated(n) for n in case.nodes("HtmlBlock"))


def literal_block(n, opts):
    return n.kind == "HtmlBlock" or (n.kind == "CodeBlock" and written_indented(n, opts))


def p_quote_prefix_after_literal(case):
    """a block written as a bare literal ending in a newline (HTML block, indented code block) that is followed
    by something inside an enclosing block quote: the blank line after it was written without the `>` prefix.
    REPAIRED (repo_fix_cm_2, known_findings status fixed): the predicate only names a regression now"""
    for b in case.nodes(("HtmlBlock", "CodeBlock")):
        if not literal_block(b, case.opts):
            continue
        n = b
        while n.parent is not None:
            if n.next() is not None and under(n.next(), ("BlockQuote",)):
                return True
            n = n.parent
    return False


def p_empty_dest_title(case):
    """REPAIRED (repo_fix_cm_3, known_findings status fixed): the predicate only names a regression now"""
    return any(not l.lit(0) and l.lit(1) for l in case.nodes(("Link", "Image")))


def p_nested_link(case):
    return any(under(l, ("Link",)) for l in case.nodes("Link"))


def p_tilde_text(case):
    return bool(case.opts.get("strikethrough")) and any(b"~" in t.lit() for t in texts(case.t1))


NEXT_LINE_BLOCKS = ("HtmlBlock", "ThematicBreak", "Table")


def bare_marker(it):
    """cm.rs writes nothing after the item's marker on its line: the item has no children, or its first child
    is a block whose format_* begins with blankline() (format_html_block, format_thematic_break, format_table)"""
    return not it.ch or it.ch[0].kind in NEXT_LINE_BLOCKS


def ends_empty(n):
    """Python mirror of Spec/RoundTrip.v ends_empty.  n is an item or a list: the last thing the formatter
    writes for n is the marker of an item without children, i.e. following LAST children from n, through items
    (whose last child must be a list) and lists, one arrives at an item without children.  format_item writes
    only cr() when it leaves such an item, and neither format_list nor the enclosing format_item add to it, so
    need_cr is 1 (no blank line) when the block after n is written."""
    item, lst = n.kind in ("Item", "TaskItem"), n.kind == "List"
    if not n.ch:
        return item
    if not (item or lst):
        return False
    c = n.ch[-1]
    return (c.kind == "List" or not item) and ends_empty(c)


def p_empty_item_blank_line(case):
    """an item without children leaves no blank line behind (cr() only).  Stated on the last-child chain
    (ends_empty): (a) a loose list one of whose items ends in an item without children, or (b) a list that
    ends in an item without children and is followed by a sibling"""
    for l in case.nodes("List"):
        if l.f[6] == "0" and any(ends_empty(it) for it in l.ch):
            return True
        if ends_empty(l) and l.next() is not None:
            return True
    return False


def p_html_inline_line_start(case):
    """an inline HTML tag is the first thing on a continuation line of a paragraph, or is the first child of a
    paragraph and alone on its line (it reads as the start of an HTML block)"""
    for n in case.nodes("HtmlInline"):
        pv, nx = n.prev(), n.next()
        if pv is not None and pv.kind in ("SoftBreak", "LineBreak"):
            return True
        if pv is None and n.parent.kind == "Paragraph" and (nx is None or nx.kind in ("SoftBreak", "LineBreak")):
            return True
    return False


_BLOCK_START = re.compile(rb"^[ ]*(>|[-+*]([ \t]|$)|#{1,6}([ \t]|$)|=+[ ]*$|-+[ ]*$|```|~~~|\d{1,9}[.)]([ \t]|$))")
_ENTITY = re.compile(rb"&(#[0-9]{1,7}|#[xX][0-9a-fA-F]{1,6}|[A-Za-z][A-Za-z0-9]{1,31});")
_BS_PUNCT = re.compile(rb"\\[!-/:-@\[-`{-~]")


_HTML6_TAGS = (b"address|article|aside|base|basefont|blockquote|body|caption|center|col|colgroup|dd|details|dialog|dir|div|dl|dt|fieldset|figcaption|figure|footer|form|"
               b"frame|frameset|h1|h2|h3|h4|h5|h6|head|header|hr|html|iframe|legend|li|link|main|menu|menuitem|nav|noframes|ol|optgroup|option|p|param|search|section|"
               b"summary|table|tbody|td|tfoot|th|thead|title|tr|track|ul")
# CommonMark 4.6 start conditions 1-6: the HTML blocks that can interrupt a paragraph
_HTML_BLOCK_START_1_6 = re.compile(rb"^ {0,3}(<(script|pre|style|textarea)([ \t>]|$)|<!--|<\?|<![A-Za-z]|<!\[CDATA\[|</?(" + _HTML6_TAGS + rb")([ \t>]|/>|$))", re.I)


def p_html_inline_multiline(case):
    """an inline HTML literal spans lines and one of its continuation lines starts like a block (a container or
    leaf block marker, or an HTML block of start conditions 1-6, which interrupt a paragraph), or with
    indentation (kept in the literal on the first parse, stripped as paragraph indentation on the second)"""
    for n in case.nodes("HtmlInline"):
        ls = n.lit().split(b"\n")
        if any(_BLOCK_START.match(l) or _HTML_BLOCK_START_1_6.match(l) or l[:1] in (b" ", b"\t") for l in ls[1:]):
            return True
    return False


_TASK_TEXT = re.compile(rb"^\[[ xX]*\]")


def p_tasklist_bracket_text(case):
    """tasklist extension: the first text of an item reads `[ ]`/`[x]` (possibly after wrapping collapsed its
    spaces); the brackets are written escaped, but the task marker is looked for in the Text node after
    inline parsing, so `- \\[ \\]` comes back as a task item"""
    if not case.opts.get("tasklist"):
        return False
    for it in case.nodes("Item"):
        if it.ch and it.ch[0].kind == "Paragraph" and it.ch[0].ch and it.ch[0].ch[0].kind == "Text":
            # the text at the start of the paragraph, over plain Text and (with wrapping: written as a space) soft breaks
            lead = b""
            for c in it.ch[0].ch:
                if c.kind == "Text":
                    lead += c.lit()
                elif c.kind == "SoftBreak" and case.opts.get("width"):
                    lead += b" "
                else:
                    break
            if _TASK_TEXT.match(lead):
                return True
    return False


def p_task_item_non_paragraph_first(case):
    """a task item whose first child is not a paragraph: `- [ ] ` is followed directly by the block's own marker"""
    return any(t.ch and t.ch[0].kind != "Paragraph" for t in case.nodes("TaskItem"))


def p_entity_in_url_or_title(case):
    """a link/image destination or title (or an autolink's text) holds text that reads as an entity: the Url
    and Title escaping modes of outc leave `&` alone, so the entity is decoded on the way back"""
    for l in case.nodes(("Link", "Image")):
        if _ENTITY.search(l.lit(0)) or _ENTITY.search(l.lit(1)):
            return True
    return False


def p_info_unescaped(case):
    """a fenced code block's info string holds a line ending (LF or CR, from a numeric entity), a backslash escape
    or an entity: it is written raw"""
    for c in case.nodes("CodeBlock"):
        info = c.lit(4)
        if b"\n" in info or b"\r" in info or _BS_PUNCT.search(info) or _ENTITY.search(info):
            return True
    return False


def p_nested_empty_items_hr(case):
    """bullet items nested as first children at least three deep ending in an item after whose marker nothing
    is written on the line (bare_marker: no children, or a first block that begins with blankline(): HTML
    block, thematic break, table) are spelled `- - - ` (or `* * * `) alone on a line: a thematic break"""
    if case.opts.get("list_style") == "plus":
        return False
    for it in case.nodes("Item"):
        if not bare_marker(it) or it.parent.f[0] != "b":
            continue
        d, n = 1, it
        while n.parent.prev() is None and n.parent.parent is not None and n.parent.parent.kind == "Item" and n.parent.parent.parent.f[0] == "b" and n.parent.parent.ch[0] is n.parent:
            n = n.parent.parent
            d += 1
        if d >= 3:
            return True
    return False


def p_loose_single_block_list(case):
    """a loose list with one item that has one block: cm.rs spells looseness only through the blank lines that
    blocks leave between items and between the blocks of an item, and here there is no such place"""
    return any(l.f[6] == "0" and len(l.ch) == 1 and len(l.ch[0].ch) == 1 for l in case.nodes("List"))


def p_ol_width_first_block(case):
    """an ordered item padded by ol_width whose first child starts on the line after the marker (HTML block,
    thematic break, table): the content offset becomes marker+1 and the padding turns into indentation"""
    w = case.opts.get("ol_width", 0)
    for l in case.nodes("List"):
        if l.f[0] == "o":
            start = int(l.f[3])
            for i, it in enumerate(l.ch):
                if it.ch and it.ch[0].kind in ("HtmlBlock", "ThematicBreak", "Table") and w > len(str(start + i)) + 2:
                    return True
    return False


def p_linebreak_last_in_inline(case):
    """a hard line break that is the last child of an inline container: next_is_block is computed from a missing
    sibling, the backslash is dropped and the break comes back soft"""
    return any(n.next() is None and n.parent.kind not in ("Paragraph", "Heading", "TableCell") for n in case.nodes("LineBreak"))


def p_image_alt_caret(case):
    """DESIGN F21: `![^` never opens an image"""
    return any(first_char(i) == "!" and approx(i).startswith(b"![^") for i in case.nodes("Image"))


def p_raw_html_pre_ws(case):
    return any(b"<pre" in n.lit(1 if n.kind == "HtmlBlock" else 0).lower() or b"<code" in n.lit(1 if n.kind == "HtmlBlock" else 0).lower() for n in case.nodes(("HtmlInline", "HtmlBlock"))) \
        and case.h1b is not None and case.h2b is not None and _WS.sub(b" ", strip_end_list_comments(case.h1b)) == _WS.sub(b" ", strip_end_list_comments(case.h2b))


def p_empty_first_item_after_paragraph(case):
    """a list directly after a paragraph (no blank line: tight item) whose first item is empty or starts with a
    block written on the line after the marker (table, HTML block, thematic break): a bare marker cannot
    interrupt a paragraph, and a bare `-` is a setext underline"""
    for l in case.nodes("List"):
        pv = l.prev()
        if l.ch and pv is not None and pv.kind == "Paragraph" and (not l.ch[0].ch or l.ch[0].ch[0].kind in ("Table", "HtmlBlock", "ThematicBreak")):
            return True
    return False


def p_tight_item_para_then_hr(case):
    """in an item of a tight list a paragraph is directly followed by a thematic break: `-----` right under
    the paragraph line is a setext underline"""
    for h in case.nodes("ThematicBreak"):
        pv = h.prev()
        if pv is not None and pv.kind == "Paragraph" and _in_tight_item(h):
            return True
    return False


def p_ctrl_char_line_start(case):
    """a Text literal starting with a byte < 0x20 is the first thing on a line inside a container with a
    non-empty prefix (block quote, list item): outc wrote the `&#N;` form through Write::write, which
    emitted the container prefix a second time because begin_line was still set.
    REPAIRED (repo_fix_cm_1, known_findings status fixed): the predicate only names a regression now"""
    for h, ls in holder_line_texts(case):
        if under(h, ("BlockQuote", "Item", "TaskItem")):
            if any(l[:1] and l[0] < 0x20 for l in ls):
                return True
    return False


def p_tight_item_inner_list_in_quote(case):
    """a list that is not a direct child of an item (it sits in a block quote) inside an item of a tight
    list: leaving it resets in_tight_list_item, so the blank line after the quote is no longer capped"""
    for m in case.nodes("List"):
        if m.parent is not None and m.parent.kind not in ("Item", "TaskItem", "Document"):
            for a in m.ancestors():
                if a.kind in ("Item", "TaskItem") and a.parent.f[6] == "1":
                    return True
    return False


def _in_tight_item(n):
    return any(a.kind in ("Item", "TaskItem") and a.parent.f[6] == "1" for a in n.ancestors())


def p_tight_item_quote_then_para(case):
    """inside an item of a tight list the block that follows a block quote (after the lists it closes) begins
    with a line that can continue a paragraph lazily (a paragraph, a table: its header row, a code block written
    in the indented form) or is another block quote: the blank line is capped to one newline, so that line
    becomes a lazy continuation of the quote / the two quotes merge"""
    for q in case.nodes("BlockQuote"):
        n = q
        while n.next() is None and n.parent is not None:
            n = n.parent
        x = n.next()
        if x is not None and _in_tight_item(x) and (x.kind in ("Paragraph", "BlockQuote", "Table") or (x.kind == "CodeBlock" and written_indented(x, case.opts))):
            return True
    return False


def nearest_item_tight(n):
    """the closest enclosing Item/TaskItem of n belongs to a tight list"""
    for a in n.ancestors():
        if a.kind in ("Item", "TaskItem"):
            return a.parent.f[6] == "1"
    return False


def p_tight_item_blank_line_in_quote(case):
    """inside an item of a tight list, two consecutive blocks of a container other than the item itself (a
    block quote) that only a blank line keeps apart: paragraph + paragraph, paragraph + HTML block of start
    condition 7 (cannot interrupt a paragraph), table + paragraph or table (the line becomes a table row),
    HTML block of start condition 6 or 7 (it ends only at a blank line) + anything.
    in_tight_list_item stays set for everything below the item, and output() caps every need_cr to 1 there"""
    for b in case.nodes():
        a = b.prev()
        if a is None or b.parent.kind == "Document" or not nearest_item_tight(b):
            continue
        if a.kind == "HtmlBlock" and a.f[0] in ("6", "7"):
            return True
        if b.parent.kind in ("Item", "TaskItem"):
            continue
        if a.kind == "Paragraph" and (b.kind == "Paragraph" or (b.kind == "HtmlBlock" and b.f[0] == "7")):
            return True
        if a.kind == "Table" and b.kind in ("Paragraph", "Table"):
            return True
    return False


def p_amp_before_text_node(case):
    """a Text literal ends in `&` and the next sibling is a Text node that completes a named entity (adjacent
    Text nodes exist inside links and images: postprocess_text_nodes does not recurse into them).  outc looks
    for a letter after `&` only inside the buffer of ONE node (nextc = buf.get(i + 1)), so this `&` is written bare"""
    for t in texts(case.t1):
        nx = t.next()
        if t.lit().endswith(b"&") and nx is not None and nx.kind == "Text" and re.match(rb"^[A-Za-z][A-Za-z0-9]{1,31};", nx.lit()):
            return True
    return False


def p_emph_in_emph_same_delim(case):
    """an Emph that is a child of an Emph and has a sibling: format_emph alternates to `_` only for an Emph that is
    the ONLY child of an Emph, so inner and outer delimiters are both `*` and the inner opening run, between two
    non-space characters, is also a closer for the outer one (`*a*z* l*`)"""
    return any(e.parent is not None and e.parent.kind == "Emph" and len(e.parent.ch) > 1 for e in case.nodes("Emph"))


def p_table_cell_title_newline(case):
    """a link or image inside a table cell whose title holds a newline (possible through a reference definition):
    it is written raw and ends the table row"""
    return any(b"\n" in l.lit(1) and under(l, ("TableCell",)) for l in case.nodes(("Link", "Image")))


def p_autolink_html_block_start(case):
    """an autolink whose text starts with `?` or `!` + capital letter (an e-mail address such as ?@b) is the first
    thing on a line: written `<?@b>` it is the start of an HTML block (start conditions 3 and 4), which
    interrupts the paragraph.  In the source the line was indented four or more columns, where no HTML block starts"""
    for l in case.nodes("Link"):
        pv = l.prev()
        if is_autolink_node(l) and re.match(rb"^(\?|![A-Z])", l.ch[0].lit()) and (pv is None or pv.kind in ("SoftBreak", "LineBreak")):
            return True
    return False


def p_url_control_char(case):
    """a link or image destination holds an ASCII control character that is not white space (from a numeric
    entity): the Url mode of outc percent-encodes white space only, and CommonMark allows no control character
    in a destination, so the link is text on re-parse"""
    return any(any((c < 0x20 and c not in (9, 10, 11, 12, 13)) or c == 0x7f for c in l.lit(0)) for l in case.nodes(("Link", "Image")))


def p_title_backslash_end(case):
    """a link or image title ends in a backslash and a `"` follows later in the same paragraph: the title is
    written `"..\\\\"` and scanners::link_title takes the longest match, reading the final `\\"` as an escaped
    quote (its `[^"]` alternative also matches a backslash) and running on to the next `"`"""
    for l in case.nodes(("Link", "Image")):
        if not l.lit(1).endswith(b"\\"):
            continue
        h = l
        while h.parent is not None and not is_inline_holder(h):
            h = h.parent
        seen = False
        for d in h.walk():
            if d is l:
                seen = True
            elif seen and not under_node(d, l):
                if (d.kind in ("Link", "Image") and d.lit(1)) or (d.kind in ("Text", "HtmlInline", "Raw") and b'"' in d.lit()) or (d.kind == "Code" and b'"' in d.lit(1)) \
                        or (d.kind in ("Link", "Image") and b'"' in d.lit(0)):
                    return True
    return False


def under_node(n, a):
    return any(x is a for x in n.ancestors())


def p_title_multiline(case):
    """a link or image title spans lines and a continuation line starts with a space or tab (a lazy continuation
    line keeps its indentation) or like a block (`* `, `>`, an HTML block of start conditions 1-6 ...): the Title
    mode of outc pushes the newline as an ordinary byte (no begin_line, no prefix, no escaping of what follows), so
    the spaces are stripped as indentation on re-parse, or the block marker interrupts the paragraph"""
    for l in case.nodes(("Link", "Image")):
        for ln in l.lit(1).split(b"\n")[1:]:
            if ln[:1] in (b" ", b"\t") or _BLOCK_START.match(ln) or _HTML_BLOCK_START_1_6.match(ln):
                return True
    return False


def p_tight_item_para_then_indented_code(case):
    """in an item of a tight list a paragraph is directly followed by a code block that cm.rs writes in the
    indented form: without a blank line it is a continuation of the paragraph"""
    for c in case.nodes("CodeBlock"):
        pv = c.prev()
        if pv is not None and pv.kind == "Paragraph" and _in_tight_item(c) and written_indented(c, case.opts):
            return True
    return False


def p_adjacent_indented_code(case):
    """two sibling code blocks both written in the indented form: they re-parse as one block"""
    for c in case.nodes("CodeBlock"):
        nx = c.next()
        if nx is not None and nx.kind == "CodeBlock" and written_indented(c, case.opts) and written_indented(nx, case.opts):
            return True
    return False


def p_indented_html_after_list(case):
    """an HTML block whose literal starts with spaces directly after a list: the indentation puts it into the
    last item"""
    for h in case.nodes("HtmlBlock"):
        pv = h.prev()
        if pv is not None and pv.kind == "List" and h.lit(1)[:1] == b" ":
            return True
    return False


def p_table_cell_wrap(case):
    return bool(case.opts.get("width")) and any(b" " in b"".join(approx(c) for c in cell.ch) for cell in case.nodes("TableCell"))


def p_end_list_after_empty_item(case):
    """C17: a list that ends (ends_empty: following last children through nested lists) in an item without
    children, directly followed by a list or a code block: the end-of-list comment is written after cr() only"""
    for l in case.nodes("List"):
        nx = l.next()
        if nx is not None and nx.kind in ("List", "CodeBlock") and ends_empty(l):
            return True
    return False


# ------------------------------------------------------------- the two admitted normalisations, failure
def has_nested_strong(t):
    return any(n.kind == "Strong" and n.parent is not None and n.parent.kind == "Strong" for n in t.walk())


def collapse_nested_strong(n):
    """Python mirror of Spec/RoundTrip.v collapse_nested_strong: a Strong that is a child of a Strong is
    replaced by its (already collapsed) children"""
    m = N(n.kind, n.f)
    for c in n.ch:
        c2 = collapse_nested_strong(c)
        if n.kind == "Strong" and c2.kind == "Strong":
            for g in c2.ch:
                g.parent = m
                m.ch.append(g)
        else:
            c2.parent = m
            m.ch.append(c2)
    return m


def expected_html(r, ask):
    """H1 normalised by the two admitted differences: nested strong collapsed (on the tree, re-rendered by the
    real HTML renderer), end-of-list comment lines removed.  None when a stage panicked."""
    h1 = r.bytes_of("h1")
    if h1 is None:
        return None
    if b"<strong>" in h1 and r.t1 and r.t1 != "-":
        t = parse_tree(r.t1)
        if has_nested_strong(t):
            ans = ask(f"render html {docgen.opts_token(r.opts)} {tree_tokens(collapse_nested_strong(t))}")
            if ans.startswith("ok "):
                h1 = unhx(ans.split()[1])
    return strip_end_list_comments(h1)


def fail07(r, ask, ws=True):
    """C07 fails: a stage panicked, or H2 differs from the normalised H1 (with ws: modulo the inter-word
    whitespace of class wrap_whitespace when wrapping is on)"""
    if r.status != "ok":
        return True
    a, b = expected_html(r, ask), r.bytes_of("h2")
    if a is None or b is None:
        return True
    b = strip_end_list_comments(b)
    if a == b:
        return False
    if ws and r.opts.get("width"):
        return ws_norm(a) != ws_norm(b)
    return True


def fail17(r, ask=None):
    if r.status != "ok":
        return True
    a, b = r.bytes_of("c1"), r.bytes_of("c2")
    return a is None or b is None or a != b


def shrink_case(r, fail, ask, budget=400):
    """ddmin on the document, option removal (unsafe stays), width reduction; the failure kind is `fail`"""
    n = [0]

    def run(d, o):
        n[0] += 1
        return parse_rt3(ask(rt3_line(d, o)), d, o)

    o = dict(r.opts)

    def pred(d):
        if n[0] > budget:
            return False
        try:
            d.encode("utf-8")
        except UnicodeEncodeError:
            return False
        return fail(run(d, o), ask)
    d = r.doc
    if not pred(d):
        return r
    d = shrink.ddmin(d, pred)
    keep = {"unsafe": o.get("unsafe")}
    o2 = shrink.shrink_opts({k: v for k, v in o.items() if k != "unsafe"}, lambda t: fail(run(d, {**t, **keep}), ask))
    o2.update(keep)
    if o2.get("width"):
        for w in (1, 2, 3, 5, 8, 13, 21, 34, 55):
            if w < o2["width"] and fail(run(d, {**o2, "width": w}), ask):
                o2["width"] = w
                break
    o = o2
    n[0] = 0
    if pred(d):
        d = shrink.ddmin(d, pred)
    return run(d, o)


_JOB_PROC = None


def _shrink_job(job):
    """worker of the shrinking pool: (prop, doc, opts, deadline) -> shrunk (doc, opts), or (None, None) past the deadline"""
    global _JOB_PROC
    import time
    prop, doc, opts, deadline = job
    if time.time() > deadline:
        return (None, None)
    if _JOB_PROC is None:
        _JOB_PROC = Proc(vlib.VH["release"])
    fail = fail07 if prop == "C07" else (lambda r, ask, ws=True: fail17(r))
    ask = _JOB_PROC.ask
    r = parse_rt3(ask(rt3_line(doc, opts)), doc, opts)
    s = shrink_case(r, fail, ask)
    return (s.doc, s.opts)


# name -> (predicate(case, fail) -> bool, where the predicate is evaluated)
def _c(f):
    return lambda case, fail: f(case)


CLASSES = {
    "wrap_marker_line_start": lambda case, fail: p_wrap_marker(case, fail),
    # `~~~` is never escaped; "```" is only written bare inside a code span, whose content is wrapped too
    "wrap_tilde_fence_line_start": lambda case, fail: p_wrap(case, [b"~~~", b"```"], fail),
    "wrap_html_line_start": lambda case, fail: p_wrap(case, [b"<"], fail),
    "tilde_fence_text": _c(p_tilde_fence_text),
    "table_delim_row_text": _c(p_table_delim_row_text),
    "ol_width_code": _c(p_ol_width_code),
    "code_span_space_wrap": _c(p_code_span_ws_wrap),
    "autolink_form": _c(p_autolink_form),
    "ext_autolink_text": _c(p_ext_autolink_text),
    "heading_softbreak": _c(p_heading_softbreak),
    "heading_linebreak": _c(p_heading_linebreak),
    "edge_space_text": _c(p_edge_space_text),
    "emph_adjacent": _c(p_emph_adjacent),
    "emph_flank": _c(p_emph_flank),
    "html_block_unterminated": _c(p_html_block_unterminated),
    "quote_prefix_after_literal": _c(p_quote_prefix_after_literal),
    "empty_dest_title": _c(p_empty_dest_title),
    "nested_link": _c(p_nested_link),
    "tilde_text": _c(p_tilde_text),
    "empty_item_blank_line": _c(p_empty_item_blank_line),
    "html_inline_line_start": _c(p_html_inline_line_start),
    "ctrl_char_line_start": _c(p_ctrl_char_line_start),
    "tight_item_inner_list_in_quote": _c(p_tight_item_inner_list_in_quote),
    "tight_item_quote_then_para": _c(p_tight_item_quote_then_para),
    "table_cell_wrap": _c(p_table_cell_wrap),
    "html_inline_multiline": _c(p_html_inline_multiline),
    "entity_in_url_or_title": _c(p_entity_in_url_or_title),
    "info_unescaped": _c(p_info_unescaped),
    "nested_empty_items_hr": _c(p_nested_empty_items_hr),
    "ol_width_first_block": _c(p_ol_width_first_block),
    "linebreak_last_in_inline": _c(p_linebreak_last_in_inline),
    "image_alt_caret": _c(p_image_alt_caret),
    "raw_html_pre_ws": _c(p_raw_html_pre_ws),
    "empty_first_item_after_paragraph": _c(p_empty_first_item_after_paragraph),
    "tight_item_para_then_hr": _c(p_tight_item_para_then_hr),
    "tight_item_para_then_indented_code": _c(p_tight_item_para_then_indented_code),
    "adjacent_indented_code": _c(p_adjacent_indented_code),
    "indented_html_after_list": _c(p_indented_html_after_list),
    "amp_escape_unstable": _c(p_amp_escape_unstable),
    "tasklist_bracket_text": _c(p_tasklist_bracket_text),
    "task_item_non_paragraph_first": _c(p_task_item_non_paragraph_first),
    "end_list_comment_in_container": _c(p_end_list_comment_in_container),
    "end_list_after_empty_item": _c(p_end_list_after_empty_item),
    "loose_single_block_list": _c(p_loose_single_block_list),
    "tight_item_blank_line_in_quote": _c(p_tight_item_blank_line_in_quote),
    "amp_before_text_node": _c(p_amp_before_text_node),
    "title_multiline": _c(p_title_multiline),
    "emph_in_emph_same_delim": _c(p_emph_in_emph_same_delim),
    "table_cell_title_newline": _c(p_table_cell_title_newline),
    "autolink_html_block_start": _c(p_autolink_html_block_start),
    "url_control_char": _c(p_url_control_char),
    "title_backslash_end": _c(p_title_backslash_end),
}


def classify(r, fail, ask):
    case = Case(r, ask)
    if case.t1 is None:
        return [], case
    f = lambda rr: fail(rr, ask)
    return [k for k, p in CLASSES.items() if p(case, f)], case


# ------------------------------------------------------------------------------------- the check
KIND_ORDER = ["Document", "FrontMatter", "BlockQuote", "List", "Item", "DescriptionList", "DescriptionItem", "DescriptionTerm", "DescriptionDetails",
              "CodeBlock", "HtmlBlock", "Paragraph", "Heading", "ThematicBreak", "FootnoteDefinition", "Table", "TableRow", "TableCell", "Text",
              "TaskItem", "SoftBreak", "LineBreak", "Code", "HtmlInline", "Raw", "Emph", "Strong", "Strikethrough", "Superscript", "Link", "Image",
              "FootnoteReference", "Math", "MultilineBlockQuote", "Escaped", "WikiLink", "Underline", "Subscript", "SpoileredText", "EscapedTag", "Alert"]
# classes whose predicate is ALSO extracted from Spec/RoundTrip.v (tree_classes, in this order); the check
# evaluates the extracted predicate and requires it to agree with the Python one on every shrunk case
COQ_CLASSES = ["tilde_text", "empty_dest_title", "heading_softbreak", "nested_link", "empty_item_blank_line", "end_list_after_empty_item", "ol_width_code", "loose_single_block_list"]
# classes decided from both outputs (Python only)
OUTPUT_CLASSES = ["wrap_whitespace", "amp_escape_unstable", "raw_html_pre_ws", "wrap_marker_line_start", "wrap_tilde_fence_line_start", "wrap_html_line_start"]

TRUSTED = ["the harness op rt3 (parse, format_commonmark, parse, format_html/format_commonmark, tree dump)", "tools/checks/rtfam.py: generator, shrinking, the class predicates not extracted from Coq (Python)",
           "OCaml extraction + ocaml/d_rt.ml, d_0tree.ml", "html.rs as the observer of document equality (its own model is tied by C02/C10)"]


def shape_of(n):
    out = []
    for m in n.walk():
        out.append(f"{KIND_ORDER.index(m.kind)}:{len(m.ch)}")
    return ",".join(out)


def opts_of_witness(tok):
    """option token of a recorded witness -> option dict (unsafe on, as for every generated case)"""
    o = {"unsafe": True}
    if tok not in ("-", "", None):
        for kv in tok.split(","):
            k, _, v = kv.partition("=")
            o[k] = int(v) if k in ("width", "ol_width") else v if k == "list_style" else True
    return o


def recorded_entries(prop, status):
    """entries of known_findings.json for prop with the given status whose witness is a (doc, opts) pair"""
    import json
    with open(os.path.join(vlib.ROOT, "known_findings.json")) as f:
        data = json.load(f)
    return [e for e in data.get("findings", []) if e.get("property") == prop and e.get("status") == status
            and isinstance(e.get("witness"), dict) and "doc" in e["witness"]]


def replay_witnesses(c, prop, fail, ask):
    """fixed classes: the recorded witness must PASS now (a fixed entry suppresses nothing: a repaired
    failure that returns is a violation, found here deterministically and not only by the random search).
    known classes: the witness is replayed and reported (still failing or not); no verdict."""
    rows = []
    for e in recorded_entries(prop, "fixed"):
        w = e["witness"]
        o = opts_of_witness(w.get("opts"))
        r = parse_rt3(ask(rt3_line(w["doc"], o)), w["doc"], o)
        bad = fail(r, ask)
        c.count(("fixed-witness:" + e["class"]).encode(), True)
        rows.append({"id": e["id"], "class": e["class"], "passes": not bad})
        if bad:
            c.violation(f"{prop}: the witness of the repaired class {e['class']} ({e['id']}) fails: the repair is missing from this tree or the defect has returned",
                        {"doc": hx(w["doc"]), "opts": docgen.opts_token(o), "doc_text": w["doc"], "class": e["class"],
                         "c1": (r.bytes_of("c1") or b"").decode("utf-8", "replace")[:400], "c2": (r.bytes_of("c2") or b"").decode("utf-8", "replace")[:400],
                         "h1": (r.bytes_of("h1") or b"").decode("utf-8", "replace")[:400], "h2": (r.bytes_of("h2") or b"").decode("utf-8", "replace")[:400],
                         "line": rt3_line(w["doc"], o)})
    c.cov["spec_checks"][f"{prop} witnesses of repaired classes pass"] = rows
    still = {}
    for e in recorded_entries(prop, "known"):
        w = e["witness"]
        o = opts_of_witness(w.get("opts"))
        r = parse_rt3(ask(rt3_line(w["doc"], o)), w["doc"], o)
        still[e["class"]] = bool(fail(r, ask, False) if prop == "C07" else fail(r, ask))
    c.cov["known_witnesses_still_failing"] = {"failing": sum(still.values()), "of": len(still), "not_failing": sorted(k for k, v in still.items() if not v)}


def run(c, prop, tier):
    """the end-to-end search shared by C07 and C17; prop selects the failure test and the known classes"""
    import time
    # the round trip is format_commonmark after parse_document: the model of the formatter (Model/Cm.v) and the two
    # parser models are tied to the compiled code here, so that a change of either side that the search does not
    # meet is still reported (as a broken tie)
    from checks import cm_tie, layerc
    cm_tie.tie_cm(c, 300 if tier == "quick" else 3000, 100 if tier == "quick" else 1000)
    layerc.blocks(c, tier, 0.12 if tier == "quick" else 0.05, proofs=False)
    layerc.inlines(c, tier, 0.12 if tier == "quick" else 0.05, proofs=False)
    fail = fail07 if prop == "C07" else (lambda r, ask, ws=True: fail17(r))
    known = {e["class"]: e for e in c.known}
    repaired = {e["class"]: e for e in recorded_entries(prop, "fixed")}
    rng = c.rng
    n = 6000 if tier == "quick" else 120000
    if tier != "quick" and os.environ.get("VERIF_N", "").isdigit():
        # development knob: an intermediate size; the registered tiers never set it
        n = int(os.environ["VERIF_N"])
    cases, used = [], []
    for _ in range(n):
        d, u = gen_doc(rng)
        cases.append((d, gen_opts(rng)))
        used.append(u)
    recs = run_rt3(cases, "release")
    # a debug-build subset: overflow checks and the formatter's validate() are only active there
    nd = 600 if tier == "quick" else 6000
    drecs = run_rt3(cases[:nd], "debug")
    for r, dr in zip(recs, drecs):
        if dr.status != "ok" or any(dr.panic_of(k) for k in ("h1", "c1", "h2", "c2")):
            c.violation("a stage of the round trip panics in the debug build", {"doc": hx(r.doc), "opts": docgen.opts_token(r.opts), "status": dr.status[:200],
                                                                                  "stages": [getattr(dr, k)[:120] for k in ("h1", "c1", "h2", "c2") if getattr(dr, k)], "line": rt3_line(r.doc, r.opts)})
        elif (dr.c1, dr.c2, dr.h1, dr.h2) != (r.c1, r.c2, r.h1, r.h2):
            c.violation("debug and release builds disagree on the round trip", {"doc": hx(r.doc), "opts": docgen.opts_token(r.opts), "line": rt3_line(r.doc, r.opts)})
    proc = Proc(vlib.VH["release"])
    ask = proc.ask
    drv = vlib.DRIVER
    replay_witnesses(c, prop, fail, ask)
    counts = {}
    clean = ws_only = 0
    feat_fail = {}
    failing = []
    strip_in = []
    for r, u in zip(recs, used):
        c.count((docgen.opts_token(r.opts) + ":" + r.doc).encode("utf-8", "surrogatepass"), r.t1 is not None and r.t1.count("(") > 3,
                sample={"doc": r.doc[:80], "opts": docgen.opts_token(r.opts)})
        if r.status != "ok":
            c.violation("the harness died or hung on a round trip", {"doc": hx(r.doc), "opts": docgen.opts_token(r.opts), "status": r.status[:200], "line": rt3_line(r.doc, r.opts)})
            continue
        if prop == "C07":
            if r.bytes_of("h1") is not None and r.bytes_of("h2") is not None and r.bytes_of("h1") != r.bytes_of("h2"):
                strip_in.append(r.bytes_of("h1"))
                strip_in.append(r.bytes_of("h2"))
            if fail07(r, ask, ws=False):
                if not fail07(r, ask, ws=True):
                    ws_only += 1
                    counts["wrap_whitespace"] = counts.get("wrap_whitespace", 0) + 1
                    c.known_hit("wrap_whitespace", {"doc": hx(r.doc), "opts": docgen.opts_token(r.opts)})
                    if "wrap_whitespace" not in known:
                        c.violation("round trip differs in inter-word whitespace under wrapping and the class is not recorded", {"doc": hx(r.doc), "opts": docgen.opts_token(r.opts), "line": rt3_line(r.doc, r.opts)})
                    continue
                failing.append((r, u))
            else:
                clean += 1
        else:
            if fail17(r):
                failing.append((r, u))
            else:
                clean += 1
    # the extracted strip function agrees with the Python mirror used during shrinking
    strip_in = strip_in[:4000]
    outs = vlib.run_lines(drv, [f"rt_strip {hx(h)}" for h in strip_in], timeout=600)
    for h, o in zip(strip_in, outs):
        if not o.startswith("ok ") or unhx(o.split()[1]) != strip_end_list_comments(h):
            c.problem("correspondence", "rt_strip", f"extracted strip_end_list_comments disagrees with the Python mirror: {o[:80]}", {"fn": "rt_strip", "input": hx(h)})
            break
    c.cov["correspondences"]["strip_end_list_comments (extracted) = python mirror, on real HTML"] = len(strip_in)
    # nested strong: extracted collapse = Python mirror (shape of the collapsed tree), on every tree that has one
    ns = [r for r in recs if r.t1 and "Strong" in r.t1 and has_nested_strong(parse_tree(r.t1))][:3000]
    outs = vlib.run_lines(drv, [f"rt_collapse_shape {r.t1}" for r in ns], timeout=600)
    for r, o in zip(ns, outs):
        if o != "ok " + shape_of(collapse_nested_strong(parse_tree(r.t1))):
            c.problem("correspondence", "rt_collapse_shape", f"extracted collapse_nested_strong disagrees with the Python mirror: {o[:80]}", {"line": f"rt_collapse_shape {r.t1}"})
            break
    c.cov["correspondences"]["collapse_nested_strong (extracted) = python mirror, on parser trees with nested strong"] = len(ns)
    # shrink (in worker processes, each with its own harness process; the result does not depend on the
    # scheduling: shrink_case is a function of the case), then classify
    t0 = time.time()
    budget_s = 70 if tier == "quick" else 3000
    shrunk = []
    unshrunk = 0
    jobs = [(prop, r.doc, r.opts, t0 + budget_s) for r, _ in failing]
    if jobs:
        import multiprocessing
        with multiprocessing.get_context("fork").Pool(max(1, min(vlib.NPROC, 12))) as pool:
            res = pool.map(_shrink_job, jobs, chunksize=8)
    else:
        res = []
    for (r, u), (sd, so) in zip(failing, res):
        if sd is None:
            unshrunk += 1
            s = r
        else:
            s = parse_rt3(ask(rt3_line(sd, so)), sd, so)
            if not fail(s, ask):     # cannot happen (the harness is deterministic); keep the original then
                s = r
        shrunk.append((r, s, u))
    f1 = lambda rr: fail(rr, ask)
    cls_lines = [f"rt_classes {s.opts.get('ol_width', 0)} {s.t1}" for _, s, _ in shrunk if s.t1 and s.t1 != "-"]
    cls_out = iter(vlib.run_lines(drv, cls_lines, timeout=600))
    unclassified = 0
    for r, s, u in shrunk:
        cl, case = classify(s, fail, ask)
        if s.t1 and s.t1 != "-":
            bits = next(cls_out)
            for i, name in enumerate(COQ_CLASSES):
                coq = bits.startswith("ok ") and len(bits) >= 4 + i and bits[3 + i] == "1"
                if name == "tilde_text":
                    coq = coq and bool(s.opts.get("strikethrough"))
                if coq != (name in cl):
                    c.problem("correspondence", "rt_classes", f"class {name}: extracted predicate says {coq}, Python says {name in cl}", {"line": f"rt_classes {s.opts.get('ol_width', 0)} {s.t1}"})
        back = [k for k in cl if k in repaired and k not in known]
        cl = [k for k in cl if k in known]
        if not cl:
            unclassified += 1
            c.violation(f"{prop}: round trip failure outside every known class (after shrinking)" + (f"; it has the shape of the repaired class {back[0]}" if back else ""),
                        {"doc": hx(s.doc), "opts": docgen.opts_token(s.opts), "doc_text": s.doc[:300], "original_doc": hx(r.doc), "original_opts": docgen.opts_token(r.opts),
                         "c1": (s.bytes_of("c1") or b"").decode("utf-8", "replace")[:400], "c2": (s.bytes_of("c2") or b"").decode("utf-8", "replace")[:400],
                         "h1": (s.bytes_of("h1") or b"").decode("utf-8", "replace")[:400], "h2": (s.bytes_of("h2") or b"").decode("utf-8", "replace")[:400],
                         "line": rt3_line(s.doc, s.opts)})
            continue
        for k in cl:
            counts[k] = counts.get(k, 0) + 1
            c.known_hit(k, {"doc": hx(s.doc), "opts": docgen.opts_token(s.opts)})
        for f in u:
            feat_fail[f] = feat_fail.get(f, 0) + 1
    # the deterministic small-structure sweep: classified WITHOUT shrinking (the documents are minimal already),
    # so that a new failure cannot slide into a known class on the way down
    gcases = grid_cases()
    grecs = run_rt3(gcases, "release")
    grid = {"documents": len(grecs), "failing": 0, "unclassified": 0, "per_class": {}}
    for r in grecs:
        c.count((docgen.opts_token(r.opts) + ":" + r.doc).encode("utf-8", "surrogatepass"), r.t1 is not None and r.t1.count("(") > 3)
        if r.status != "ok":
            c.violation("the harness died or hung on a round trip (small-structure sweep)", {"doc": hx(r.doc), "opts": docgen.opts_token(r.opts), "status": r.status[:200], "line": rt3_line(r.doc, r.opts)})
            continue
        if not fail(r, ask):
            continue
        grid["failing"] += 1
        cl, _case = classify(r, fail, ask)
        cl = [k for k in cl if k in known]
        if not cl:
            grid["unclassified"] += 1
            unclassified += 1
            if grid["unclassified"] <= 20:
                c.violation(f"{prop}: round trip failure outside every known class (small-structure sweep, classified without shrinking)",
                            {"doc": hx(r.doc), "opts": docgen.opts_token(r.opts), "doc_text": r.doc[:300],
                             "c1": (r.bytes_of("c1") or b"").decode("utf-8", "replace")[:400], "c2": (r.bytes_of("c2") or b"").decode("utf-8", "replace")[:400],
                             "h1": (r.bytes_of("h1") or b"").decode("utf-8", "replace")[:400], "h2": (r.bytes_of("h2") or b"").decode("utf-8", "replace")[:400],
                             "line": rt3_line(r.doc, r.opts)})
            continue
        for k in cl:
            grid["per_class"][k] = grid["per_class"].get(k, 0) + 1
            c.known_hit(k, {"doc": hx(r.doc), "opts": docgen.opts_token(r.opts)})
    grid["per_class"] = dict(sorted(grid["per_class"].items(), key=lambda kv: -kv[1]))
    c.cov["spec_checks"][f"{prop} end-to-end equation on the deterministic small-structure sweep (block pairs x contexts, word triples x widths)"] = len(grecs)
    c.cov["small_structure_sweep"] = grid
    proc.close()
    total = len(recs)
    c.cov["spec_checks"][f"{prop} end-to-end equation on generated documents x options"] = total
    c.cov["round_trip"] = {"documents": total, "clean": clean, "clean_proportion": round(clean / max(1, total), 4),
                           "whitespace_only_under_wrapping": ws_only, "failing": len(failing), "unclassified": unclassified,
                           "not_shrunk_for_time": unshrunk, "per_class": dict(sorted(counts.items(), key=lambda kv: -kv[1])),
                           "failures_by_construct_present": dict(sorted(feat_fail.items(), key=lambda kv: -kv[1])),
                           "classes_extracted_from_coq": COQ_CLASSES, "classes_decided_on_outputs_python_only": OUTPUT_CLASSES}
    return counts
