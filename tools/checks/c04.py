"""C04 — the parsed tree is always structurally valid.
Theorems: coq/Props/C04.v (validator table, its consequences, table clause => S3, formatter clause
for the HTML and XML models, validator_not_enough, table-builder arithmetic) and coq/Props/C04_links.v
(link consistency after every operation history; phases in checks/c04_links.py, run from here).

Tie:  translator items `nodes` (block / contains_inlines / accepts_lines / can_contain_type ->
      Gen/Nodes.v, regenerated on every run; shape of Node::validate) and `table_rows` (loops and
      limits of parser/table.rs);
      correspondence nodes.table: the compiled can_contain_type / block / contains_inlines on all
      41 x 41 kind pairs against Gen/Nodes.v (exhaustive);
      correspondence nodes.validate: Node::validate against the extracted Valid.validate on synthetic
      trees, valid and invalid (verdict and the offending pair);
      correspondence table.rows: the cell counts and counters of the tables the real parser builds
      against the extracted try_opening_header_cells / try_opening_row_cells, including the
      500000 autocompleted-cell limit.
Search on the IMPLEMENTATION: generated documents x option sets (random sets, the pairs the property
is sensitive to, and ALL combinations of the inline-extension options on a fixed document set);
for every tree the real parser returns: the library's validate() accepts it; the link walk through
the public accessors is consistent; the extracted validate agrees with the library's verdict; every
shape invariant of Spec/Valid.v holds (root, heading levels, lists, tables, leaves, S3); none of the
three formatters panics.  Failing cases are shrunk (document by ddmin, then the option set)."""
import itertools, os, re
import vlib, docgen, e2e, shrink
from vlib import hx, unhx
from checks import c04_links
from checks import c09 as treegen

BITS = ["s2 (root is a Document)", "heading levels 1..6", "lists contain only items", "tables (cells = columns = alignments, header first)",
        "literal kinds are leaves", "S3"]


# ----------------------------------------------------------------------------- kinds
def ast_kinds():
    """harness kind names in the order of Model/Ast.v all_kinds"""
    ast = open(os.path.join(vlib.COQ, "Model", "Ast.v")).read()
    m = re.search(r"Definition all_kinds : list kind :=\s*\[(.*?)\]\.", ast, re.S)
    return [k[1:] for k in re.findall(r"\bK[A-Za-z]+", m.group(1))]


class FixedRng:
    """minimal rng for treegen.fields: always the first choice"""
    def choice(self, l):
        return l[0]
    def randrange(self, a, b=None):
        return 0 if b is None else a
    def random(self):
        return 0.99


def single(kind):
    f = treegen.fields(kind, FixedRng(), p="x")
    return "( %s 1 1 1 1%s )" % (kind, (" " + f) if f else "")


# ----------------------------------------------------------------------------- synthetic trees
def synth_tree(rng, kinds, allowed, depth=0, maxdepth=5, p_bad=0.08, parent=None):
    """random tree; children are drawn from the kinds the (real) table allows under the parent, with
    probability p_bad from all kinds"""
    if parent is None:
        k = "Document" if rng.random() < 0.9 else rng.choice(kinds)
    else:
        pool = allowed[parent]
        if not pool or rng.random() < p_bad:
            pool = kinds
        k = rng.choice(pool)
    ch = []
    if depth < maxdepth:
        can = allowed[k]
        n = rng.choice([0, 1, 1, 2, 3]) if (can or rng.random() < p_bad) else 0
        for _ in range(n):
            ch.append(synth_tree(rng, kinds, allowed, depth + 1, maxdepth, p_bad, k))
    return treegen.node(k, rng, ch, p=rng.choice(["x", "a b", "|", "é"]))


# ----------------------------------------------------------------------------- documents and options
SENSITIVE = [
    {"table": True, "spoiler": True},
    {"table": True, "subscript": True},                         # subscript without strikethrough
    {"table": True, "subscript": True, "strikethrough": True},
    {"table": True, "escaped_char_spans": True},
    {"table": True, "spoiler": True, "subscript": True, "escaped_char_spans": True, "superscript": True, "underline": True},
    {"description_lists": True, "table": True},
    {"footnotes": True, "table": True},
    {"alerts": True, "multiline_block_quotes": True},
    {"tasklist": True, "relaxed_tasklist_matching": True},
    {"tasklist": True, "table": True, "footnotes": True, "description_lists": True, "alerts": True, "multiline_block_quotes": True},
    {"spoiler": True}, {"subscript": True}, {"escaped_char_spans": True},
    {"wikilinks_title_after_pipe": True, "table": True}, {"math_dollars": True, "math_code": True, "table": True},
    {"greentext": True, "multiline_block_quotes": True}, {"autolink": True, "relaxed_autolinks": True, "table": True, "footnotes": True},
]
COMBO_KEYS = ["strikethrough", "subscript", "spoiler", "superscript", "underline", "escaped_char_spans", "footnotes"]
CELLS = ["~x~", "~~x~~", "||x||", "\\|x\\|", "\\|\\|x\\|\\|", "\\*", "a\\|b", "^x^", "__x__", "*e*", "**s**", "`c|d`", "[^1]", "[l](u)", "![i](u)",
         "<b>", "$m$", "[[w]]", "[[w|t]]", "~a~~b~~c~", "||a|b||", "|", "\\", "~", "x\\", "http://a.b", "a@b.c", "&amp;", "~~~x~~~", "_~x~_", "*||x||*",
         "~||x||~", "\\~x\\~", "~x", "x~", "-", ":-:", "", " "]


def table_doc(rng):
    cols = rng.choice([1, 1, 2, 3])
    cell = lambda: rng.choice(CELLS) if rng.random() < 0.7 else docgen.inline(rng, 2)
    rows = ["|" + "|".join(" h%d " % i if rng.random() < 0.6 else " " + cell() + " " for i in range(cols)) + "|",
            "|" + "|".join(rng.choice(["-", ":-", "-:", ":-:", "---"]) for _ in range(cols)) + "|"]
    for _ in range(rng.choice([0, 1, 1, 2, 3])):
        n = max(1, rng.choice([cols, cols, cols, cols - 1, cols + 1, cols + 3]))
        rows.append("|" + "|".join(" " + cell() + " " for _ in range(n)) + "|")
    pre = rng.choice(["", "", "", "para\n", "> ", "- ", "1. ", "[^1]: ", "term\n\n: ", "> [!NOTE]\n> "])
    if pre.endswith("\n") or pre == "":
        return pre + "\n".join(rows) + "\n"
    ind = " " * len(pre) if not pre.startswith(">") else "> "
    if "\n" in pre:
        head, _, last = pre.rpartition("\n")
        return head + "\n" + "\n".join((last if i == 0 else ("  " if last.startswith(":") else last)) + r for i, r in enumerate(rows)) + "\n"
    return "\n".join((pre if i == 0 else ind) + r for i, r in enumerate(rows)) + "\n"


def struct_doc(rng):
    parts = []
    for _ in range(rng.choice([1, 2, 3, 4])):
        k = rng.choice(["table", "table", "heading", "setext", "list", "task", "dl", "foot", "alert", "mbq", "nest", "block", "inl"])
        if k == "table":
            parts.append(table_doc(rng))
        elif k == "heading":
            parts.append("#" * rng.choice([1, 2, 5, 6, 7, 8, 12]) + rng.choice([" ", " ", "", "\t"]) + docgen.inlines(rng) + rng.choice(["", " #", " ########"]) + "\n")
        elif k == "setext":
            parts.append(rng.choice(["t", "a\nb", "> q", "- l", "| a |"]) + "\n" + rng.choice(["=", "===", "-", "---", "= =", "--- -"]) + "\n")
        elif k == "list":
            parts.append(rng.choice(["- a\n  - b\n    1. c\n- d\n", "1. a\n\n   b\n2. c\n", "- a\n+ b\n* c\n", "-\n  a\n-\n", "1) x\n2. y\n", "- # h\n- > q\n- ```\n  c\n", "10. a\n   - b\n\n     c\n"]))
        elif k == "task":
            parts.append(rng.choice(["- [ ] a\n- [x] b\n", "- [x]\n- [ ] \n", "1. [X] t\n   - [ ] u\n", "- [ ] a\n\n  b\n- c\n", "- [~] r\n", "- [x] | a |\n  |---|\n", "- [ ]x\n", "* [x] # h\n"]))
        elif k == "dl":
            parts.append(rng.choice(["term\n\n: def\n", "t1\n: d1\n: d2\n\nt2\n\n: d3\n\n  more\n", "a\nb\n\n: c\n", "| t |\n\n: | a |\n  |---|\n", "- t\n\n  : d\n", "t\n\n: - l\n\n: > q\n", ": orphan\n", "t\n\n:\n"]))
        elif k == "foot":
            parts.append(rng.choice(["x[^1]\n\n[^1]: y\n", "x[^a] [^b]\n\n[^a]: p\n\n    q\n[^b]: - l\n", "[^1]: unused\n", "x[^1]\n\n> [^1]: in quote\n", "x[^1][^1]\n\n[^1]: [^1]\n", "[^a]: | h |\n      |---|\n\nr[^a]\n", "# h[^1]\n\n[^1]: # g\n"]))
        elif k == "alert":
            parts.append(rng.choice(["> [!NOTE]\n> a\n", "> [!TIP] T\n> - l\n>\n> | a |\n> |---|\n", "> [!WARNING]\n", "> [!caution]\n> > [!NOTE]\n> > x\n", ">>> [!NOTE]\nx\n>>>\n", "- > [!IMPORTANT]\n  > y\n"]))
        elif k == "mbq":
            parts.append(rng.choice([">>>\na\n>>>\n", ">>>\n- l\n\n| a |\n|---|\n>>>\n", ">>>>\n>>>\nx\n>>>\n>>>>\n", ">>>\nunclosed\n", "- >>>\n  x\n  >>>\n", ">>>\n# h\n>>>\ny\n"]))
        elif k == "nest":
            parts.append(docgen.gen_malformed(rng) if rng.random() < 0.3 else docgen.block(rng, 2) + "\n")
        elif k == "block":
            parts.append(docgen.block(rng) + "\n")
        else:
            parts.append(" ".join(rng.choice(CELLS) for _ in range(rng.choice([1, 2, 4]))) + "\n")
    return "\n".join(parts)


def gen_opts(rng):
    r = rng.random()
    if r < 0.45:
        return docgen.gen_opts(rng)
    o = dict(rng.choice(SENSITIVE))
    if rng.random() < 0.5:
        for k in docgen.ALL_BOOL:
            if k != "experimental_minimize_commonmark" and rng.random() < 0.15:
                o.setdefault(k, True)
    if rng.random() < 0.2:
        o["width"] = rng.choice([1, 10, 40])
    if rng.random() < 0.15:
        o["header_ids"] = rng.choice(["", "x-"])
    return o


COMBO_DOCS = [
    "| h |\n|---|\n| ~x~ |\n", "| h |\n|---|\n| ~~x~~ |\n", "| h |\n|---|\n| ||x|| |\n", "| h |\n|---|\n| \\|x\\| |\n",
    "| ~a~ | ^b^ |\n|:-|-:|\n| __u__ \\* | x[^1] |\n\n[^1]: ~y~ \\_\n", "~x~ ~~y~~ ||z|| |w| ^s^ __u__ \\* [^1]\n\n[^1]: n\n",
    "- [x] ~a~\n- | h |\n  |---|\n  | ~~b~~ \\| |\n", "# ~h~ \\#\n\n> ||s|| ~~t~~\n\nt\n\n: ~d~\n", "| \\|a\\| ~b |\n|--|\n| ~c~ ~~d~ |\n| e | f | g |\n",
    "*~a~* **~~b~~** _||c||_ [~d~](u) ![~~e~~](v)\n", "| [~a~](u) | `~b~` |\n|-|-|\n| <b>~c~</b> | $~d~$ |\n", "x~\n~y ~~\n~~ ~z~w~ ~~~q~~~\n",
    "| a |\n|---|\n| \\~x\\~ ~\\~y~ |\n", "||a ~b|| c~ | ~d ||e~||\n", "| ~~a~~~b~ |\n|---|\n| ~c~~d~~ |\n", "| a\\*b |\n|---|\n| \\~ \\| \\\\ |\n",
]


# ----------------------------------------------------------------------------- evaluation of one record
def failures(r, m):
    """classes of failure of one pipeline record r with the model line m (c04tree); [] = fine.
    returns (violations [(class, text)], tie problems [text])"""
    v, ties = [], []
    if r.status != "ok":
        v.append(("panic:parse", f"parse_document does not return: {r.status[:200]}"))
        return v, ties
    if r.valid != "1":
        pair = r.valid[2:] if r.valid.startswith("0 ") else r.valid
        v.append(("validator:" + pair, f"the library's own validator rejects the parser's tree: {pair} (parent>child)"))
    if not (r.links or "").startswith("1"):
        msg = unhx((r.links or "0 -").split(" ")[1]).decode("utf-8", "replace") if " " in (r.links or "") else ""
        v.append(("links", f"parent / child / sibling links are not mutually consistent: {msg}"))
    for name, tag in (("html", "H"), ("xml", "X"), ("cm", "C")):
        pan = r.stage_panic(name)
        if pan is not None:
            v.append((f"panic:{name}", f"format_{'commonmark' if name == 'cm' else name} panics on the parser's tree: {pan[0][:160]} at {pan[1]}"))
    mt = m.split(" ")
    if len(mt) != 4 or mt[0] != "ok" or len(mt[3]) != 6:
        ties.append(f"driver c04tree: {m[:120]}")
        return v, ties
    want = "1 -" if r.valid == "1" else r.valid
    got = f"{mt[1]} {mt[2]}" if mt[1] == "0" else "1 -"
    if (mt[1] == "1") != (mt[2] == "-"):
        ties.append(f"extracted valid and validate disagree with each other: {m}")
    if want.replace("0 ", "0 ", 1) != got:
        ties.append(f"library verdict `{r.valid}` but extracted validate says `{got}`")
    for i, b in enumerate(mt[3]):
        if b != "1":
            v.append((f"shape:{i}", f"shape invariant violated on the parser's tree: {BITS[i]}"))
    return v, ties


def eval_case(doc, opts):
    """(record, model line) of one (doc, opts) — used by the shrinker"""
    r = e2e.parse_pipe(vlib.run_one(vlib.VH["debug"], f"pipe {docgen.opts_token(opts)} {hx(doc)}", timeout=60))
    r.doc, r.opts = doc, opts
    m = vlib.run_one(vlib.DRIVER, f"c04tree {r.tree}", timeout=60) if r.status == "ok" else "-"
    return r, m


def minimise(doc, opts, cls):
    def bad(d, o):
        try:
            d.encode("utf-8")
        except UnicodeEncodeError:
            return False
        r, m = eval_case(d, o)
        return any(k == cls for k, _ in failures(r, m)[0])
    if not bad(doc, opts):
        return doc, opts
    d = doc
    if len(d) <= 4000:
        d = shrink.ddmin(d, lambda x: bad(x, opts))
    o = shrink.shrink_opts(opts, lambda x: bad(d, x))
    if len(d) <= 400:
        d = shrink.ddmin(d, lambda x: bad(x, o))
    return d, o


# ----------------------------------------------------------------------------- table builder correspondence
def table_cases(rng, n):
    cases = []
    for _ in range(n):
        cols = rng.choice([1, 2, 3, 4, 6])
        hdr = cols if rng.random() < 0.85 else rng.choice([max(1, cols - 1), cols + 1])
        rows = [rng.choice([1, cols - 1, cols, cols, cols + 1, cols + 4, 2 * cols]) for _ in range(rng.choice([0, 1, 2, 3, 5]))]
        rows = [max(1, x) for x in rows]
        cases.append((hdr, cols, rows))
    return cases


def table_md(hdr, cols, rows):
    line = lambda n: "|" + "|".join("x" for _ in range(n)) + "|"
    return line(hdr) + "\n|" + "|".join("-" for _ in range(cols)) + "|\n" + "".join(line(n) + "\n" for n in rows)


def model_table(drv_lines_runner, hdr, cols, rows):
    """fold the extracted builder functions over the rows: expected `tablerows` answer or None (no table)"""
    h = drv_lines_runner(f"header_cells {hdr} {cols}")
    if h == "none":
        return None
    _, al, nc, k = h.split(" ")
    al, nc = int(al), int(nc)
    counts = [int(k)]
    nrows, nonempty = 0, 0
    for n in rows:
        a = drv_lines_runner(f"row_cells 0 {nc} {nrows} {nonempty} {al} {n}")
        if a == "none":
            break       # the row is refused: the table ends here (the line becomes a paragraph)
        _, k, ne = a.split(" ")
        counts.append(int(k))
        nrows += 1
        nonempty = int(ne)
    return f"T {al} {nc} {nrows} {nonempty} " + " ".join(map(str, counts))


# ----------------------------------------------------------------------------- the report Parse_valid_corollaries (third clause) is about
CELL_DOCS = ["| a\\ |\n|---|\n| b  |\n", "| a |\n|---|\n| b\\\n", "| a  \n|---|\n| b\\", "| a |\r|---|\r| b\\ |\r| c  |\r\n", "x | y\n--|--\n1 | 2\\\n3 | 4  \n",
             "| &#10; |\n|---|\n| &#13; x |\n", "| <a\nb> |\n|---|\n", "|a|\n|-|\n|`x\n", "- | a\\ |\n  |---|\n  | b  |\n", "> | a |\n> |---|\n> | b\\\n> c\n",
             "[^1]: | a |\n      |---|\n      | x[^1]\\ |\n\ny[^1]\n", "p\nq | r\\\n--|--\ns  \n", "| a \\| b\\ |\n|---|\n", "||a\\||\n|-|\n||b  ||\n"]


def model_report(c, rng, n):
    """driver op `pvalid` = Spec/ParseValidSpec.v parse_valid_report on generated documents: `ok 1 1` expected everywhere
    (bcells_ok holds of the block tree: Parse_cells_blocks; structurally_valid holds of the tree parse_document_model
    returns: Parse_valid; together Props/ParseValid.v Parse_valid_corollaries - another answer means the extracted code and the theorem
    disagree).  The oracle of a
    document is asked from the compiled library (harness op parseu), as in parse_tie."""
    from checks import parse_tie
    docs = list(CELL_DOCS) + list(COMBO_DOCS)
    while len(docs) < n:
        r = rng.random()
        docs.append(table_doc(rng) if r < 0.5 else struct_doc(rng) if r < 0.9 else " ".join(rng.choice(CELLS) for _ in range(rng.choice([1, 3, 6]))) + "\n")
    cases = []
    for d in docs:
        try:
            md = d.encode("utf-8")
        except UnicodeEncodeError:
            continue
        o = gen_opts(rng)
        if rng.random() < 0.7:
            o["table"] = True
        cases.append((docgen.opts_token({k: v for k, v in o.items() if k not in ("width", "header_ids")}), md))
    real = vlib.run_lines(vlib.VH["debug"], parse_tie.harness_lines(cases), timeout=900)
    jobs = []
    for (o, md), a in zip(cases, real):
        r = parse_tie.model_line(o, md, a)
        if r is not None:
            jobs.append((o, md, r[1].replace("parse_model", "pvalid", 1)))
    ans = vlib.run_lines(vlib.DRIVER, [j[2] for j in jobs], timeout=1800)
    tally = {}
    for (o, md, line), m in zip(jobs, ans):
        tally[m] = tally.get(m, 0) + 1
        c.count(b"pvalid:" + o.encode() + b":" + md, md.count(b"|") > 2)
        if m == "ok 1 1" or m == "none":
            continue
        case = {"doc": hx(md), "opts": o, "line": line[:4000]}
        if m == "ok 0 1" or m == "ok 0 0":
            c.problem("proof", "Parse_cells_blocks", f"bcells_ok is FALSE of the block tree of the parser model (a TableCell content holds CR / LF): `{m}` - contradicts "
                      f"Parse_cells_blocks for this document" + ("; the final tree is NOT structurally valid (contradicts Parse_valid)" if m.endswith("0") else ""), case)
        else:
            c.problem("proof", "Parse_valid_report", f"driver pvalid answers `{m[:200]}` (contradicts Parse_valid_corollaries)", case)
    c.cov["spec_checks"]["model trees (parse_document_model): bcells_ok of the block tree (Parse_cells_blocks) and Spec.Valid.structurally_valid of the final tree (Parse_valid) hold (driver op pvalid)"] = len(jobs)
    c.cov["model_report"] = {"cases": len(jobs), "answers": tally, "expected": "ok 1 1 (bcells_ok, structurally_valid)"}


# ----------------------------------------------------------------------------- main
def main(tier):
    c = vlib.Check("C04", tier)
    quick = tier == "quick"
    rng = c.rng
    c.phase_translator(["nodes", "table_rows", "add_child"])
    tr = dict(c.cov.get("translator", {}))
    c.phase_proofs("C04")
    ok = c04_links.run(c, quick_histories=1200)
    tr.update(c.cov.get("translator", {}))
    c.cov["translator"] = tr
    if not ok:
        c.finish(rule="build failed")
    drv, vh = vlib.DRIVER, vlib.VH["debug"]
    # ---- the parser half: Blocks_valid / Blocks_lists_only_items (Props/Blocks.v: every tree the block phase
    # returns is valid, for every option set and input) and inline_values_accepted / insert_emph_values_inline
    # (Props/Inlines.v: every value the inline phase constructs is an inline the containment table accepts);
    # both parser models are tied to the compiled parser here (full scopes in the thorough tier)
    from checks import layerc
    # (Props/Blocks.v and Props/Inlines.v are compiled as dependencies of Props/Parse.v, whose Parse_valid rests on them;
    # their own Print Assumptions pass runs in C01 / BLOCKS_TIE / INLINES_TIE and, here, in the thorough tier)
    layerc.blocks(c, tier, 0.2 if quick else 1.0, proofs=not quick)
    layerc.inlines(c, tier, 0.15 if quick else 1.0, proofs=not quick)
    # the FINAL tree: Parse_valid_partial / Parse_shape (Props/Parse.v) about Model/Parse.v parse_document_model, the whole
    # parser as one function, tied end to end to parse_document here
    layerc.whole(c, tier, 0.2 if quick else 0.5)
    c.phase_proofs("ParseValid")   # Parse_cells_scanner, Parse_valid_corollaries: what follows from Parse_valid without premise
    # Parse_valid (Props/Parse.v): structurally_valid of the final tree; Parse_cells_blocks: no CR / LF in the content of a
    # TableCell of the block tree.  Both are evaluated on the MODEL's own trees (Props/ParseValid.v Parse_valid_corollaries, third clause)
    model_report(c, rng, 300 if quick else 6000)

    # ---- tables at the auto-completion cap (500000 cells): every row the parser keeps has exactly |alignments| cells
    capdocs = [(1000, [1] * 520), (700, [2] * 800), (65535, [1] * 9)]
    capres = vlib.run_lines(vh, ["tablerows6 table=1 %s" % hx("|a" * cols + "|\n" + "|-" * cols + "|\n" + "".join("|b" * r + "|\n" for r in rows)) for cols, rows in capdocs], timeout=900)
    for (cols, rows), a in zip(capdocs, capres):
        c.count(("cap:%d:%d" % (cols, len(rows))).encode(), True)
        if not a.startswith("ok "):
            c.problem("harness", "tablerows6", a[:200])
            continue
        nrows, ncells, _ = [int(x) for x in a[3:].split(" ")]
        if ncells != nrows * cols:
            c.violation("a table at the auto-completion cap has a row whose number of cells differs from the number of columns",
                        {"columns": cols, "body_rows_written": len(rows), "rows_in_tree": nrows, "cells_in_tree": ncells,
                         "line": "tablerows6 table=1 <%d columns, %d body rows of %d cell(s)>" % (cols, len(rows), rows[0])})
    c.cov["spec_checks"]["tables at the auto-completion cap: cells = rows x columns"] = len(capdocs)

    # ---- correspondence nodes.table: the whole can_contain_type table, block, contains_inlines
    kinds = ast_kinds()
    impl = vlib.run_one(vh, "kinds " + " ".join(single(k) for k in kinds))
    model = vlib.run_one(drv, "kinds_table")
    it, mt = impl.split(" "), model.split(" ")
    n = len(kinds)
    allowed = {k: [] for k in kinds}
    diffs = 0
    if len(it) != 5 or len(mt) != 6 or it[1] != str(n) or mt[1] != str(n) or len(it[2]) != n * n:
        c.problem("correspondence", "nodes.table", f"unexpected answers: impl {impl[:80]} / model {model[:80]}")
    else:
        for i, p in enumerate(kinds):
            for j, ch in enumerate(kinds):
                a, b = it[2][i * n + j], mt[2][i * n + j]
                if a == "1":
                    allowed[p].append(ch)
                if a != b:
                    diffs += 1
                    if diffs <= 5:
                        c.problem("correspondence", "nodes.table", f"can_contain_type({p}, {ch}) = {a} in the implementation, {b} in Gen/Nodes.v",
                                  {"line": f"validate ( {single(p)[2:-2]} {single(ch)} )"})
        for name, a, b in (("block", it[3], mt[3]), ("contains_inlines", it[4], mt[4])):
            for i, k in enumerate(kinds):
                if a[i] != b[i]:
                    diffs += 1
                    c.problem("correspondence", "nodes.table", f"{name}({k}) = {a[i]} in the implementation, {b[i]} in Gen/Nodes.v")
        c.cov["correspondences"]["nodes.table"] = {"cases": n * n + 2 * n, "agree": n * n + 2 * n - diffs,
                                                   "exhaustive": f"all {n}x{n} (parent, child) kind pairs + block + contains_inlines of all {n} kinds",
                                                   "not_compared": "accepts_lines is crate-private (translator only)"}
        for i in range(n * n + 2 * n):
            c.count(f"kindpair:{i}", False)

    # ---- correspondence nodes.validate: synthetic trees
    nsyn = 4000 if quick else 40000
    trees = []
    for p, ch in itertools.product(kinds, kinds):
        trees.append("( %s %s )" % (single(p)[2:-2], single(ch)))                     # every pair as a two-node tree
    for i in range(nsyn):
        trees.append(synth_tree(rng, kinds, allowed, p_bad=rng.choice([0.0, 0.0, 0.03, 0.1, 0.3])))
    for i in range(nsyn // 5):
        trees.append(treegen.random_tree(rng, allow_bad=(rng.random() < 0.3)))
    trees += [t for _, t in treegen.shape_violations(rng)]
    iv = vlib.run_lines(vh, ["validate " + t for t in trees])
    mv = vlib.run_lines(drv, ["c04tree " + t for t in trees])
    agree = nvalid = 0
    rep = 0
    for t, a, b in zip(trees, iv, mv):
        c.count("validate:" + t, t.count("(") > 3)
        bt = b.split(" ")
        got = ("ok 1" if len(bt) == 4 and bt[1] == "1" and bt[2] == "-" else f"ok 0 {bt[2]}" if len(bt) == 4 and bt[1] == "0" else b)
        if a == "ok 1":
            nvalid += 1
        if a == got and a.startswith("ok"):
            agree += 1
        elif rep < 4:
            rep += 1
            toks = t.split(" ")
            c.problem("correspondence", "nodes.validate", f"Node::validate says `{a}`, extracted Valid.validate says `{got}`", {"line": "validate " + t[:3000]})
    c.cov["correspondences"]["nodes.validate"] = {"cases": len(trees), "agree": agree, "valid_trees": nvalid, "invalid_trees": len(trees) - nvalid,
                                                  "compared": "verdict and the (parent>child) pair reported first"}

    # ---- correspondence table.rows
    tcases = table_cases(rng, 150 if quick else 2000)
    tcases += [(h, cl, [r]) for h in (1, 2, 3) for cl in (1, 2, 3) for r in (1, 2, 3, 4)]
    big = (1000, 1000, [1] * 504)     # 1000 columns, rows of one cell: the 500000 limit stops the table after 502 body rows
    tcases.append(big)
    timpl = vlib.run_lines(vlib.VH["release"], [f"tablerows table=1 {hx(table_md(*tc))}" for tc in tcases], timeout=300)
    cache = {}

    def drv1(line):
        if line not in cache:
            cache[line] = vlib.run_one(drv, line)
        return cache[line]
    # batch the driver calls: collect the lines a fold needs by running the fold twice (second time cached)
    tagree = 0
    for tc, a in zip(tcases, timpl):
        exp = model_table(drv1, *tc)
        got = a[3:] if a.startswith("ok T") else (None if a == "ok" else a)
        c.count("tablerows:%s" % (tc,), len(tc[2]) > 0)
        if exp == got:
            tagree += 1
        else:
            c.problem("correspondence", "table.rows", f"header cells {tc[0]}, delimiter cells {tc[1]}, body rows {tc[2][:12]}: implementation `{(a or '')[:200]}`, model `{(exp or 'no table')[:200]}`",
                      {"line": f"tablerows table=1 {hx(table_md(*tc))}"[:4000]})
    c.cov["correspondences"]["table.rows"] = {"cases": len(tcases), "agree": tagree,
                                              "compared": "alignments, num_columns, num_rows, num_nonempty_cells and the number of cells of every row; includes the MAX_AUTOCOMPLETED_CELLS cut-off (1000 columns x 504 one-cell rows)"}

    # ---- search on the implementation
    ndocs = 14000 if quick else 60000
    cases = []
    for i in range(ndocs):
        r = rng.random()
        d = struct_doc(rng) if r < 0.55 else (docgen.gen_malformed(rng) if r < 0.65 else docgen.gen_doc(rng))
        cases.append((d, gen_opts(rng)))
    combo_docs = COMBO_DOCS + [struct_doc(rng) for _ in range(8 if quick else 60)]
    ncombo = 0
    for bits in itertools.product([False, True], repeat=len(COMBO_KEYS)):
        o = {"table": True, "tasklist": True, "description_lists": True}
        o.update({k: True for k, b in zip(COMBO_KEYS, bits) if b})
        for d in combo_docs:
            cases.append((d, o))
            ncombo += 1
    recs = e2e.run_pipe(cases, timeout=900)
    live = [r for r in recs if r.status == "ok"]
    ml = vlib.run_lines(drv, [f"c04tree {r.tree}" for r in live], timeout=900)
    mm = {id(r): m for r, m in zip(live, ml)}
    classes = {}
    tie_reported = 0
    feats = {}
    for r in recs:
        m = mm.get(id(r), "-")
        c.count(("c04:" + docgen.opts_token(r.opts) + ":" + r.doc).encode("utf-8", "surrogatepass"), bool(r.tree and r.tree.count("(") > 4))
        if r.tree:
            for k in ("Table", "TableCell", "Heading", "List", "TaskItem", "DescriptionList", "FootnoteDefinition", "Alert", "MultilineBlockQuote", "EscapedTag", "Escaped",
                      "Subscript", "SpoileredText", "Strikethrough"):
                if f"( {k} " in r.tree:
                    feats[k] = feats.get(k, 0) + 1
        v, ties = failures(r, m)
        for t in ties:
            tie_reported += 1
            if tie_reported <= 3:
                c.problem("correspondence", "nodes.validate(parser trees)", t, {"doc": hx(r.doc), "opts": docgen.opts_token(r.opts), "line": f"pipe {docgen.opts_token(r.opts)} {hx(r.doc)}"})
        for cls, text in v:
            classes.setdefault(cls, []).append((r, text))
    for cls in sorted(classes):
        lst = classes[cls]
        lst.sort(key=lambda x: len(x[0].doc))
        r, text = lst[0]
        d, o = minimise(r.doc, r.opts, cls)
        r2, m2 = eval_case(d, o)
        f2 = [t for k, t in failures(r2, m2)[0] if k == cls]
        c.violation(f2[0] if f2 else text,
                    {"doc": hx(d), "doc_text": d, "opts": docgen.opts_token(o), "class": cls, "occurrences_in_this_run": len(lst),
                     "tree": (r2.tree or "")[:1500], "validator": r2.valid, "line": f"pipe {docgen.opts_token(o)} {hx(d)}",
                     "original_doc": hx(r.doc)[:2000], "original_opts": docgen.opts_token(r.opts)})
    c.cov["spec_checks"]["parser trees: validate() accepts; link walk consistent; extracted validate agrees; s2, heading levels, lists, tables, leaves, S3 all hold; html / xml / commonmark formatters do not panic"] = len(recs)
    c.cov["search"] = {"documents_x_option_sets": len(cases), "all_combinations_block": f"{ncombo} = 2^{len(COMBO_KEYS)} settings of {COMBO_KEYS} x {len(combo_docs)} documents (table, tasklist, description_lists on)",
                       "trees_containing": feats, "failure_classes": {k: len(v) for k, v in classes.items()}}
    if recs:
        c.cov["samples"].append({"doc": recs[0].doc[:200], "opts": docgen.opts_token(recs[0].opts), "validator": recs[0].valid, "model": mm.get(id(recs[0]), "-")})
    c.cov["partial_clauses"] = [
        "`forall input options, structurally_valid (parse options input)` is a THEOREM about the whole parser model, for the runs that return Ok: Model/Parse.v parse_document_model is the whole parser as one Coq function (tied end to end, correspondence parser.whole); Props/Parse.v Parse_valid (= Parse_valid_full_statement) proves Spec.Valid.structurally_valid of every tree it returns, no premise (containment at every edge above AND below the leaves - Parse_inline_forest_valid, Parse_post_forest_valid: Link / Image / Emph / WikiLink / ... accept their children, literal kinds have none; footnote pass, task-list effects and the second attach preserve it - root, heading levels, lists, table shape and the column-count equation); the former premise is proved for every input: Props/ParseValid.v Parse_cells_scanner / Parse_cells_row (the prefix scanners::table_cell returns, both spoiler settings, holds neither CR nor LF, so every cell table.rs::row cuts is free of them) and Parse_cells_blocks (the block phase never puts a line end into a TableCell: add_line only reaches a Paragraph, Heading, CodeBlock or HtmlBlock; identifiers are fresh); corollaries Props/ParseValid.v Parse_valid_corollaries (the validator model accepts every tree, the HTML and XML renderer models return Ok on it, the report answers (true, true)). NOT proved: that the model returns Ok for every input (totality of the block phase is Props/Blocks.v Blocks_total_full_statement, of the inline phase Props/Inlines.v) - a run of the model that panics or runs out of fuel is outside the statement; the report (bcells_ok, structurally_valid) is still evaluated on the model's trees of generated documents in this run (driver op pvalid: any answer but `ok 1 1` now contradicts a theorem), and validate() on every tree the real parser returns",
        "the formatter clause is proved for the HTML and XML renderer models (valid, S2, S3 => Ok); for the CommonMark formatter it is observed only (no panic on any parser tree of this run)",
        "table builder (Props/C04.v): the arithmetic of try_opening_header / try_opening_row is modelled and proved with cell splitting (fn row) as a parameter; in the whole-parser model (Model/Blocks.v) fn row is transcribed and Parse_cells_row is about it",
        "links: see C04_links (acyclicity is not implied by link consistency)"]
    c.assumptions += ["Gen/Nodes.v is generated from nodes.rs and compared exhaustively with the compiled can_contain_type on every run",
                      "the harness' tree dump (harness/src/tree.rs) and the driver's tree reader (ocaml/d_0tree.ml) are trusted to transport the tree"]
    c.finish(level="proof",
             rule="distinct by (options, document) / synthetic tree / operation history; non-trivial = the tree has more than four nodes (parser trees), more than three (synthetic), a body row (table cases), a node with parent and sibling (histories)",
             trusted_base=["Coq 8.16.1 kernel", "no axioms (Print Assumptions: closed for every theorem of Props/C04.v and Props/C04_links.v)",
                           "tools/gen_model.py items nodes, table_rows, arena", "extraction (ExtrOcamlBasic only) + ocaml/d_valid.ml, d_0tree.ml, d_arena.ml",
                           "harness/src/ops_c04.rs, ops.rs (pipe: validate(), link walk, catch_unwind per formatter), tree.rs"])
