"""C14 — tagfilter.  Theorems: coq/Props/C14.v.  Tie: translator item `tagfilter` (blacklist, terminator byte set,
bodies of tagfilter / tagfilter_block, option cascade of the two raw-HTML renderers) + correspondences
leaf.tagfilter, leaf.tagfilter_block, render.html_block, render.html_inline.
Search on the implementation: the extracted GFM spec (Spec/GfmFilter.v: disallowed_at, gfm_filter,
lt_escape_first, any_disallowed, lt_expansion) evaluated against the compiled functions, against trees
rendered with and without the option, and against documents rendered end to end.
The witness of the repaired finding C14-a (tagfilter_vt_ff: a name followed by form feed / line tabulation was
not neutralised) is replayed on every run; no input class is excused."""
import itertools, json, os
import vlib, docgen
from vlib import hx, unhx

NAMES = ["title", "textarea", "style", "xmp", "iframe", "noembed", "noframes", "script", "plaintext"]
ALPHABET = [b"<", b"/", b">", b" ", b"\n", b'"', b"t", b"T", b"i", b"l", b"e", b"x", b"s"]
FIXED_ID = "C14-a"          # repaired: replayed below, excuses nothing
OMITTED = b"<!-- raw HTML omitted -->"


def mixed(n):
    return "".join(ch.upper() if i % 2 else ch for i, ch in enumerate(n))


def product_cases():
    out = []
    terms = [b" ", b"\t", b"\n", b">", b"/>", b"/", b"x", b"s", None, "é".encode(), b"\r", b"\x0b", b"\x0c"]
    for n in NAMES:
        for form in (n, n.upper(), mixed(n)):
            for prefix in (b"", b"x", b"<"):
                for slash in (b"", b"/"):
                    for t in terms:
                        for suffix in (b"", b"y", b">"):
                            if t is None:
                                if suffix:
                                    continue
                                s = prefix + b"<" + slash + form.encode()
                            else:
                                s = prefix + b"<" + slash + form.encode() + t + suffix
                            out.append(s)
    return out


def edge_literals():
    out = [b"", b"<", b"</", b"<>", b"< ", b"a", b"<a", b"</>", b"<t", b"<t>", b"<x>"]
    for n in NAMES:
        for f in (n, n.upper()):
            out += [b"<" + f.encode(), b"</" + f.encode(), b"<" + f.encode()[:-1], b"<" + f.encode() + b"/", b"</" + f.encode() + b"/",
                    b"<<" + f.encode() + b">", b"<<" + f.encode(), b"<" + f.encode() + b"s>", b"<div>\n<" + f.encode(), b"<" + f.encode() + b"<" + f.encode() + b">"]
    return out


def gen_random(rng, n, big):
    pieces = [b"<", b"</", b"<<", b">", b"/>", b"/", b" ", b"\n", b"\t", b"\r", b"\x0b", b"\x0c", b"x", b"&lt;", b"&", b"\"", b"=", "é".encode(), "漢".encode(), b"<div>", b"</div>", b"<b>",
              b"<!--", b"-->", b"a b", b"<a title=\"", b"titles", b"xm", b"scrip"]
    for nm in NAMES:
        pieces += [nm.encode(), nm.upper().encode(), mixed(nm).encode(), b"<" + nm.encode(), b"</" + nm.encode() + b">", b"<" + nm.encode() + b">", b"<" + nm.upper().encode() + b" "]
    out = []
    for _ in range(n):
        k = rng.choice([1, 2, 3, 4, 6, 9, 14, 30, 80])
        out.append(b"".join(rng.choice(pieces) for _ in range(k)))
    for _ in range(big):
        # 64 KiB blocks: dense in LT and near-tags
        buf = []
        ln = 0
        while ln < 65536:
            p = rng.choice(pieces)
            buf.append(p)
            ln += len(p)
        out.append(b"".join(buf))
    return out


def is_utf8(b):
    try:
        b.decode("utf-8")
        return True
    except UnicodeDecodeError:
        return False


def okhex(line):
    """'ok <hex>' -> bytes, else None"""
    if line.startswith("ok "):
        return unhx(line[3:].strip())
    return None


def replay_fixed_witness(c, vh, drv):
    """the recorded witness of the repaired finding C14-a must be neutralised by the compiled code: leaf
    functions, the witness as an HtmlBlock / HtmlInline literal, and the recorded Markdown end to end"""
    with open(os.path.join(vlib.ROOT, "known_findings.json")) as f:
        ent = [e for e in json.load(f)["findings"] if e.get("id") == FIXED_ID]
    if len(ent) != 1 or not isinstance(ent[0].get("witness"), dict):
        c.problem("spec", "known_findings:" + FIXED_ID, "entry or its witness is missing from known_findings.json")
        return
    e, w = ent[0], ent[0]["witness"]
    why = f"the witness of the repaired class {e['class']} ({e['id']}, {e.get('commit')}) is not neutralised: the repair is missing from this tree or the defect has returned"
    rows = []
    lits = [unhx(w["input"])] + [unhx(x) for x in w.get("more_inputs", [])]
    for s in lits:
        a = vlib.run_one(vh, f"tagfilter {hx(s)}")
        b = vlib.run_one(vh, f"tagfilter_block {hx(s)}")
        c.count(b"fixed-witness:" + s, True)
        ok = a == "ok 1" and okhex(b) == b"&lt;" + s[1:]
        if ok:
            ok = vlib.run_one(drv, f"any_disallowed {hx(okhex(b))}") == "ok 0"
        rows.append({"input": hx(s), "tagfilter": a, "tagfilter_block": b, "passes": ok})
        if not ok:
            c.violation(why, {"fn": "tagfilter / tagfilter_block", "input": hx(s), "tagfilter": a, "expected_tagfilter": "ok 1",
                              "tagfilter_block": b, "expected_tagfilter_block": "ok " + hx(b"&lt;" + s[1:]), "line": f"tagfilter_block {hx(s)}"})
    md, optok = w["markdown"].encode("utf-8"), w["options"]
    line = f"md html {optok} {hx(md)}"
    a = vlib.run_one(vh, line)
    got = okhex(a.split(" S")[0])
    c.count(b"fixed-witness-md:" + md, True)
    ok = got is not None and got.decode("utf-8", "replace") == w["expected_html"]
    rows.append({"markdown": w["markdown"], "options": optok, "passes": ok})
    if not ok:
        c.violation(why, {"markdown": w["markdown"], "options": optok, "expected_html": w["expected_html"],
                          "observed_html": (got.decode("utf-8", "replace") if got is not None else a)[:600], "line": line})
    c.cov["spec_checks"]["witness of the repaired class tagfilter_vt_ff is neutralised (leaf functions and end to end)"] = rows


def main(tier):
    c = vlib.Check("C14", tier)
    rng = c.rng
    c.phase_translator(["tagfilter"])
    c.phase_proofs()
    if not c.phase_builds(("debug",)):
        c.finish(rule="build failed")
    vh, drv = vlib.VH["debug"], vlib.DRIVER
    quick = tier == "quick"

    T = lambda what: vlib.log(f"C14 [{__import__('time').time() - c.t0:6.1f}s] {what}")
    T('builds done')
    # ------------------------------------------------------------------ leaf cases
    maxlen = 5
    exh = [b"".join(t) for k in range(maxlen + 1) for t in itertools.product(ALPHABET, repeat=k)]
    prod = product_cases()
    edges = edge_literals()
    rnd = gen_random(rng, 20000 if quick else 150000, 6 if quick else 60)
    cases = exh + prod + edges + rnd

    replay_fixed_witness(c, vh, drv)

    def run_both(fn, inputs):
        lines = [f"{fn} {hx(s)}" for s in inputs]
        return vlib.run_lines(vh, lines), vlib.run_lines(drv, lines)

    # leaf.tagfilter
    impl, model = run_both("tagfilter", cases)
    spec = vlib.run_lines(drv, [f"disallowed_at {hx(s)}" for s in cases])
    agree = 0
    hits = 0
    for s, a, m, w in zip(cases, impl, model, spec):
        c.count(b"tagfilter:" + s, b"<" in s)
        if a == m:
            agree += 1
        else:
            c.problem("correspondence", "leaf.tagfilter", f"input={hx(s)} impl={a} model={m}", {"fn": "tagfilter", "input": hx(s), "impl": a, "model": m})
        if not a.startswith("ok "):
            c.violation("tagfilter does not return normally (rendering a raw-HTML node must never fail)", {"fn": "tagfilter", "input": hx(s), "observed": a})
        elif a != w:
            c.violation("tagfilter(literal) differs from the GFM rule (LT, optional SLASH, disallowed name in any case, then whitespace, GT or SLASH GT)",
                        {"fn": "tagfilter", "input": hx(s), "impl": a, "gfm_spec": w})
        if a == "ok 1":
            hits += 1
    c.cov["correspondences"]["leaf.tagfilter"] = {"cases": len(cases), "agree": agree, "positive": hits,
                                                  "exhaustive_len_le_5_alphabet13": len(exh), "product": len(prod), "edge": len(edges), "random": len(rnd)}
    c.cov["spec_checks"]["tagfilter: impl(s) = disallowed_at(s)"] = len(cases)
    c.cov["samples"].append({"fn": "tagfilter", "input": hx(prod[40]), "impl": impl[len(exh) + 40], "spec": spec[len(exh) + 40]})

    T('leaf.tagfilter done')
    # leaf.tagfilter_block
    # the model recomputes list lengths at every LT (unary nat), so it is quadratic where the Rust is linear:
    # blocks above 8 KiB are compared with the (linear) extracted spec only
    small = [len(s) <= 8192 for s in cases]
    impl = vlib.run_lines(vh, [f"tagfilter_block {hx(s)}" for s in cases])
    model_small = iter(vlib.run_lines(drv, [f"tagfilter_block {hx(s)}" for s, k in zip(cases, small) if k]))
    model = [next(model_small) if k else None for k in small]
    spec = vlib.run_lines(drv, [f"gfm_filter {hx(s)}" for s in cases])
    agree = 0
    changed = 0
    live = []
    for s, a, m, w in zip(cases, impl, model, spec):
        c.count(b"tagfilter_block:" + s, b"<" in s)
        if m is None:
            pass
        elif a == m:
            agree += 1
        else:
            c.problem("correspondence", "leaf.tagfilter_block", f"input={hx(s)} impl={a} model={m}", {"fn": "tagfilter_block", "input": hx(s), "impl": a, "model": m})
        o = okhex(a)
        if o is None:
            c.violation("tagfilter_block does not return normally (rendering a raw-HTML node must never fail)", {"fn": "tagfilter_block", "input": hx(s), "observed": a})
            continue
        if o != s:
            changed += 1
        live.append((s, o))
        if a != w:
            c.violation("tagfilter_block(literal) differs from gfm_filter(literal): a disallowed tag was not neutralised or something else was altered",
                        {"fn": "tagfilter_block", "input": hx(s), "impl": a, "gfm_spec": w})
    c.cov["correspondences"]["leaf.tagfilter_block"] = {"cases": sum(small), "agree": agree, "spec_only_large_blocks": len(cases) - sum(small), "output_differs_from_input": changed}
    # spec predicates on the implementation's own outputs
    surv = vlib.run_lines(drv, [f"any_disallowed {hx(o)}" for _, o in live])
    expn = vlib.run_lines(drv, [f"lt_expansion {hx(s)} {hx(o)}" for s, o in live])
    for (s, o), sv, ex in zip(live, surv, expn):
        if sv != "ok 0":
            c.violation("a disallowed tag survives in the output of tagfilter_block", {"fn": "tagfilter_block", "input": hx(s), "output": hx(o), "any_disallowed": sv})
        if ex != "ok 1":
            c.violation("tagfilter_block output is not the input with some LT written as &lt; (something else was altered)", {"fn": "tagfilter_block", "input": hx(s), "output": hx(o), "lt_expansion": ex})
    c.cov["spec_checks"]["tagfilter_block: impl(s) = gfm_filter(s); any_disallowed(impl(s)) = false; lt_expansion(s, impl(s))"] = len(live)
    c.cov["samples"].append({"fn": "tagfilter_block", "input": hx(prod[41]), "impl": impl[len(exh) + 41]})

    T('leaf.tagfilter_block done')
    # ------------------------------------------------------------------ (a) literals placed in trees
    exh_tree = [b"".join(t) for k in range(4) for t in itertools.product(ALPHABET, repeat=k)]
    sample5 = rng.sample(exh, 6000 if quick else 60000)
    lits = [s for s in exh_tree + sample5 + prod + edges + rnd[: (8000 if quick else 60000)] if is_utf8(s) and len(s) < 4096]
    # de-duplicate, keep order
    seen = set()
    lits = [s for s in lits if not (s in seen or seen.add(s))]
    PRE_B, POST_B = b"<p>a</p>\n", b"<p>b</p>\n"
    PRE_I, POST_I = b"<p>a", b"b</p>\n"

    def tree(kind, lit):
        if kind == "block":
            return f"( Document 1 1 1 1 ( Paragraph 1 1 1 1 ( Text 1 1 1 1 61 ) ) ( HtmlBlock 1 1 1 1 6 {hx(lit)} ) ( Paragraph 1 1 1 1 ( Text 1 1 1 1 62 ) ) )"
        return f"( Document 1 1 1 1 ( Paragraph 1 1 1 1 ( Text 1 1 1 1 61 ) ( HtmlInline 1 1 1 1 {hx(lit)} ) ( Text 1 1 1 1 62 ) ) )"

    OPTS = [  # (escape, unsafe, tagfilter)
        (0, 1, 0), (0, 1, 1), (1, 1, 0), (1, 1, 1), (0, 0, 0), (0, 0, 1), (1, 0, 0), (1, 0, 1)]

    def otok(e, u, t):
        d = {}
        if e:
            d["escape"] = True
        if u:
            d["unsafe"] = True
        if t:
            d["tagfilter"] = True
        return docgen.opts_token(d)

    wide_b = [okhex(x) for x in vlib.run_lines(drv, [f"gfm_filter {hx(s)}" for s in lits])]
    wide_i = [okhex(x) for x in vlib.run_lines(drv, [f"lt_escape_first {hx(s)}" for s in lits])]
    for kind, pre, post, wide in (("block", PRE_B, POST_B, wide_b), ("inline", PRE_I, POST_I, wide_i)):
        lines = []
        mlines = []
        for s in lits:
            t = tree(kind, s)
            for (e, u, tf) in OPTS:
                lines.append(f"render html {otok(e, u, tf)} {t}")
                mlines.append(f"{kind}_payload {e} {u} {tf} {hx(s)}")
        impl = [x.split(" S")[0] for x in vlib.run_lines(vh, lines)]  # drop the slug-oracle section of `render html`
        model = vlib.run_lines(drv, mlines)
        agree = 0
        ncases = 0
        for ix, s in enumerate(lits):
            res = {}
            for k, o in enumerate(OPTS):
                a = impl[ix * len(OPTS) + k]
                m = okhex(model[ix * len(OPTS) + k])
                out = okhex(a)
                res[o] = out
                ncases += 1
                c.count(f"render:{kind}:{o}:".encode() + s, b"<" in s and o[1] == 1 and o[0] == 0)
                case = {"line": lines[ix * len(OPTS) + k], "node": kind, "options": otok(*o), "literal": hx(s), "observed": a}
                if out is None:
                    c.violation(f"rendering an Html{kind.capitalize()} node does not return normally", case)
                    continue
                # correspondence with the payload model (cr() after a block: a newline unless the payload is empty or ends in one)
                if m is None:
                    c.problem("correspondence", f"render.html_{kind}", f"model does not return: {model[ix * len(OPTS) + k]}", case)
                else:
                    cr = b"" if kind == "inline" or m == b"" or m.endswith(b"\n") else b"\n"
                    if out == pre + m + cr + post:
                        agree += 1
                    else:
                        c.problem("correspondence", f"render.html_{kind}", f"literal={hx(s)} options={otok(*o)} impl={a} model_payload={hx(m)}", case)
            if any(v is None for v in res.values()):
                continue
            # with escape, or without unsafe, the option changes nothing
            for e, u in ((1, 1), (0, 0), (1, 0)):
                if res[(e, u, 0)] != res[(e, u, 1)]:
                    c.violation("the tagfilter option changes the output although raw HTML is escaped or omitted",
                                {"line": lines[ix * len(OPTS) + OPTS.index((e, u, 1))], "node": kind, "literal": hx(s), "options": otok(e, u, 0), "without": hx(res[(e, u, 0)]), "with": hx(res[(e, u, 1)])})
            without, with_ = res[(0, 1, 0)], res[(0, 1, 1)]
            # spec: output with tagfilter = output without, the literal replaced by its filtered form
            if not (without.startswith(pre + s) and without.endswith(post)):
                c.problem("correspondence", f"render.html_{kind}", f"literal not written verbatim under unsafe: literal={hx(s)} impl={hx(without)}", None)
                continue
            tail = without[len(pre) + len(s):]
            want = pre + wide[ix] + tail
            if with_ != want:
                case = {"line": lines[ix * len(OPTS) + 1], "node": kind, "literal": hx(s), "options": "unsafe=1 vs tagfilter=1,unsafe=1",
                        "without": hx(without), "with": hx(with_), "gfm_expected": hx(want)}
                c.violation(f"Html{kind.capitalize()} under unsafe+tagfilter: output is not the unfiltered output with the GFM-disallowed LT written as &lt;", case)
        c.cov["correspondences"][f"render.html_{kind}"] = {"cases": ncases, "agree": agree, "literals": len(lits), "option_sets": len(OPTS)}
        c.cov["spec_checks"][f"render html Html{kind.capitalize()}: with = without[literal := {'gfm_filter' if kind == 'block' else 'lt_escape_first'}(literal)]; option inert under escape / not unsafe; no panic"] = len(lits)
        c.cov["samples"].append({"op": "render html", "node": kind, "literal": hx(lits[len(exh_tree) + 10]), "impl_unsafe_tagfilter": impl[(len(exh_tree) + 10) * len(OPTS) + 1]})

    T('trees done')
    # ------------------------------------------------------------------ (b) end to end from Markdown
    ndocs = 10000 if quick else 100000
    docs = []
    tagpool = [p for p in prod if is_utf8(p)]
    for i in range(ndocs):
        r = rng.random()
        if r < 0.35:
            d = docgen.gen_doc(rng)
        elif r < 0.45:
            d = docgen.gen_malformed(rng)
        else:
            t1 = rng.choice(tagpool).decode("utf-8")
            t2 = rng.choice(tagpool).decode("utf-8")
            d = rng.choice([
                "<div>\n{a}\n{b}x\n</div>\n\npara {b} *e*\n",
                "{a}\nfoo\n\n- item {b}\n",
                "text {a} and `{b}` and {b}\n",
                "> <table>\n> {a}\n\n{b}\n",
                "<!--\n{a}\n-->\n\n{b}\n",
                "<pre>\n{a}\n\n{b}\n</pre>\n",
                "<{a}\n\n<a title=\"{b}\">\n",
                "    {a}\n\n```\n{b}\n```\n\n{a}",
            ]).format(a=t1, b=t2)
        docs.append(d.encode("utf-8"))
    base_opts = [{}, {"sourcepos": True}, {"hardbreaks": True, "table": True, "strikethrough": True, "autolink": True, "tasklist": True, "footnotes": True}, {"github_pre_lang": True, "smart": True}]
    lines_wo, lines_w, lines_p = [], [], []
    for d in docs:
        b = dict(rng.choice(base_opts))
        b["unsafe"] = True
        lines_wo.append(f"md html {docgen.opts_token(b)} {hx(d)}")
        b2 = dict(b)
        b2["tagfilter"] = True
        lines_w.append(f"md html {docgen.opts_token(b2)} {hx(d)}")
        lines_p.append(f"parse {docgen.opts_token(b2)} {hx(d)}")
    out_wo = vlib.run_lines(vh, lines_wo)
    out_w = vlib.run_lines(vh, lines_w)
    trees = vlib.run_lines(vh, lines_p)
    pairs = []
    for d, lw, a, b in zip(docs, lines_w, out_wo, out_w):
        c.count(b"md:" + lw.encode(), b"<" in d)
        oa, ob = okhex(a), okhex(b)
        if oa is None or ob is None:
            c.violation("md html does not return normally on a document with raw HTML", {"line": lw, "without": a[:400], "with": b[:400]})
            continue
        pairs.append((d, lw, oa, ob))
    rel = vlib.run_lines(drv, [f"lt_expansion {hx(oa)} {hx(ob)}" for _, _, oa, ob in pairs])
    nchanged = 0
    for (d, lw, oa, ob), r in zip(pairs, rel):
        if oa != ob:
            nchanged += 1
        if r != "ok 1":
            c.violation("end to end: the output with tagfilter is not the output without it with some LT written as &lt;",
                        {"line": lw, "without": hx(oa), "with": hx(ob), "lt_expansion": r})
    # every raw-HTML literal of the parsed tree appears in the tagfilter output in its filtered form
    blk, inl = [], []
    for (d, lw, a, b), t in zip(zip(docs, lines_w, out_wo, out_w), trees):
        ob = okhex(b)
        if ob is None or not t.startswith("ok "):
            continue
        toks = t.split(" ")
        for i, tk in enumerate(toks):
            if tk == "HtmlBlock" and i + 6 < len(toks):
                blk.append((lw, unhx(toks[i + 6]), ob))
            elif tk == "HtmlInline" and i + 5 < len(toks):
                inl.append((lw, unhx(toks[i + 5]), ob))
    fb = vlib.run_lines(drv, [f"gfm_filter {hx(l)}" for _, l, _ in blk])
    fi = vlib.run_lines(drv, [f"lt_escape_first {hx(l)}" for _, l, _ in inl])
    for (lw, l, ob), w in zip(blk, fb):
        if okhex(w) not in ob:
            case = {"line": lw, "html_block_literal": hx(l), "gfm_filtered": w, "output": hx(ob)}
            c.violation("end to end: an HTML block of the parsed document does not appear gfm-filtered in the tagfilter output", case)
    # (inline literals can be rendered as plain text, e.g. inside an image description, so no substring claim
    #  is made for them; they are covered by the tree search above and by lt_expansion here)
    inl_seen = sum(1 for (lw, l, ob), w in zip(inl, fi) if okhex(w) in ob)
    c.cov["spec_checks"]["md html: lt_expansion(without, with); every parsed HtmlBlock literal appears gfm-filtered in the output"] = {
        "documents": len(docs), "outputs_changed_by_tagfilter": nchanged, "html_blocks": len(blk), "html_inlines": len(inl), "html_inlines_found_filtered_in_output": inl_seen}
    c.cov["samples"].append({"op": lines_w[ndocs // 2][:300], "impl": out_w[ndocs // 2][:300]})

    T('end to end done')
    c.cov["exhaustive"] = True
    c.cov["exhaustive_domain"] = ("leaf.tagfilter and leaf.tagfilter_block: all %d strings of length <= 5 over the 13-symbol alphabet {< / > space LF quote t T i l e x s}; "
                                  "render html: all %d strings of length <= 3 over the same alphabet as HtmlBlock and HtmlInline literals under 8 option sets; everything else is sampled" % (len(exh), len(exh_tree)))
    c.cov["input_distribution"] = {"exhaustive_len_le_5": len(exh), "product": len(prod), "edge": len(edges), "random": len(rnd),
                                   "tree_literals": len(lits), "documents": len(docs)}
    c.cov["partial_clauses"] = [
        "inline literals: only the leading LT is examined (C14_inline_cascade); parser-produced inline literals are one construct",
        "the cascade theorems are about the bytes written for the literal; context.cr() and the surrounding renderer are tied by the render.html_* correspondence only"]
    c.assumptions = [
        "Model/Tagfilter.v is a hand transcription of tagfilter, tagfilter_block and the literal-writing cascade of render_html_block / render_html_inline; blacklist, the byte set that ends a tag name (the matches! pattern), both bodies and both cascades are regenerated / shape-checked from src on every run (translator item tagfilter)",
        "tagfilter_block's index arithmetic is modelled on list suffixes (input[i..]); the inner loop's input[i] is guarded by i < size in the same condition (pinned by the shape check)",
        "io::Write is modelled as an infallible append-only buffer; context.escape is html::escape (C19 model)"]
    c.finish(rule="distinct by (operation, options, input bytes); non-trivial = the literal / document contains at least one LT byte (for rendered trees additionally: raw HTML is allowed and not escaped, so the tagfilter branch is the one taken)",
             trusted_base=["Coq 8.16.1 kernel (vm_compute for the 256-byte finite checks and the blacklist facts)", "no axioms (Print Assumptions: closed for every theorem)",
                           "tools/gen_model.py recognisers (TAGFILTER_BLACKLIST, terminator pattern of tagfilter, whole-body comparison of tagfilter / tagfilter_block, cascade fragments)",
                           "extraction (ExtrOcamlBasic only, no Extract Constant) + ocaml/driver.ml byte mapping (self-checked at start-up)",
                           "harness/src (hex protocol, tree builder, catch_unwind)"])
