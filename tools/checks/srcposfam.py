"""Shared part of the C11 / C12 checks: document generator rich in position-relevant shapes, the
parse -> sp_report pipeline (extracted Spec/SourcePos.v + Spec/SourcePosKnown.v on the dumped tree), tree
access for reports, witness replay and shrinking."""
import json, os, sys, time
sys.setrecursionlimit(20000)
import vlib, docgen, shrink
from vlib import hx, unhx

NF = {"Document": 0, "FrontMatter": 1, "BlockQuote": 0, "List": 8, "Item": 8, "DescriptionList": 0, "DescriptionItem": 3,
      "DescriptionTerm": 0, "DescriptionDetails": 0, "CodeBlock": 6, "HtmlBlock": 2, "Paragraph": 0, "Heading": 2,
      "ThematicBreak": 0, "FootnoteDefinition": 2, "Table": 4, "TableRow": 1, "TableCell": 0, "Text": 1, "TaskItem": 1,
      "SoftBreak": 0, "LineBreak": 0, "Code": 2, "HtmlInline": 1, "Raw": 1, "Emph": 0, "Strong": 0, "Strikethrough": 0,
      "Superscript": 0, "Link": 2, "Image": 2, "FootnoteReference": 3, "Math": 3, "MultilineBlockQuote": 2, "Escaped": 0,
      "WikiLink": 1, "Underline": 0, "Subscript": 0, "SpoileredText": 0, "EscapedTag": 1, "Alert": 5}
CLAUSE_NAME = {"B": "in bounds (lines within the source, start <= end, columns within their lines)",
               "N": "child range within parent range (reliable kinds)",
               "S": "siblings increasing and non-overlapping (reliable kinds)",
               "V": "slice at the position is the node's own source"}


def parse_tree(toks):
    i = [0]

    def node():
        assert toks[i[0]] == "("
        k = toks[i[0] + 1]
        sp = tuple(int(x) for x in toks[i[0] + 2:i[0] + 6])
        i[0] += 6
        f = toks[i[0]:i[0] + NF[k]]
        i[0] += NF[k]
        ch = []
        while toks[i[0]] != ")":
            ch.append(node())
        i[0] += 1
        return (k, sp, f, ch)
    return node()


def node_at(t, path):
    for j in path:
        t = t[3][j]
    return t


def count_nodes_toks(toks):
    return sum(1 for x in toks if x == "(")


def kinds_of_toks(toks):
    return {toks[i + 1] for i, x in enumerate(toks) if x == "("}


# --------------------------------------------------------------------------- generator
WORDS = ["foo", "bar", "a", "I", "x1", "é", "漢字", "Ünï", "9", "z-z", "w.x", "😀"]
INL = [lambda r: r.choice(WORDS), lambda r: r.choice(WORDS) + " " + r.choice(WORDS),
       lambda r: "*" + r.choice(WORDS) + "*", lambda r: "**" + r.choice(WORDS) + "**", lambda r: "_" + r.choice(WORDS) + " " + r.choice(WORDS) + "_",
       lambda r: "***" + r.choice(WORDS) + "***", lambda r: "*a **" + r.choice(WORDS) + "** b*", lambda r: "~~" + r.choice(WORDS) + "~~",
       lambda r: "`" + r.choice(["x", "a b", " y ", "é", "a|b"]) + "`", lambda r: "``a`b``",
       lambda r: "[" + r.choice(WORDS) + "](/u)", lambda r: "[" + r.choice(WORDS) + "](/u \"t\")", lambda r: "![" + r.choice(WORDS) + "](/i)",
       lambda r: "[*" + r.choice(WORDS) + "*][r]", lambda r: "[r]", lambda r: "[r][]", lambda r: "![r]",
       lambda r: "<http://x.y/" + r.choice(["", "z", "é"]) + ">", lambda r: "<a@b.c>", lambda r: "http://e.x/" + r.choice(["a", "b_c", "q?x=1"]),
       lambda r: "www.e.x", lambda r: r.choice(["news://e.x/a", "owncloud://a.b/c", "browser://x.y", "twitter://t", "swift://s.t/u"]), lambda r: "a@b.c", lambda r: "x.y+z@w.org", lambda r: "<b>", lambda r: "<i a=\"b\">", lambda r: "<!-- c -->",
       lambda r: "\\*", lambda r: "&amp;", lambda r: "&#65;", lambda r: "[^f]", lambda r: "\t", lambda r: "  ", lambda r: r.choice(["--", "...", "'q'", "\"q\""]),
       lambda r: "$x$", lambda r: "~s~", lambda r: "^s^", lambda r: "||sp||", lambda r: "[[w]]", lambda r: "__u__", lambda r: "\\", lambda r: "!", lambda r: "]",
       lambda r: "\x00"]
ML_INL = ["*a\nb*", "**a\nb**", "[a\nb](/u)", "[a](/u\n\"t\")", "`a\nb`", "``a\n b``", "<b\nc=\"d\">", "~~a\nb~~", "![a\nb](/i)", "a  \nb", "a\\\nb",
          "[a\nb][r]", "<!-- a\nb -->", "$a\nb$", "*a `b\nc` d*", "[^f\ng]", "a   \n   b"]


def gen_inlines(rng, multiline=True):
    n = rng.choice([1, 1, 2, 3, 4])
    parts = []
    for _ in range(n):
        if multiline and rng.random() < 0.15:
            parts.append(rng.choice(ML_INL))
        else:
            parts.append(rng.choice(INL)(rng))
    return rng.choice([" ", " ", "", "\t", "  "]).join(parts)


def gen_para(rng):
    lines = [gen_inlines(rng) for _ in range(rng.choice([1, 1, 2, 3]))]
    if rng.random() < 0.2:
        lines = [rng.choice(["", " ", "  ", "   "]) + l for l in lines]
    if rng.random() < 0.15:
        lines = [l + rng.choice([" ", "  ", "\t"]) for l in lines]
    return "\n".join(lines)


def gen_leaf(rng):
    k = rng.choice(["para", "para", "para", "atx", "atxclose", "setext", "fence", "indent", "hr", "html", "table", "refdef", "refpara", "footdef", "para"])
    if k == "para":
        return gen_para(rng)
    if k == "atx":
        return "#" * rng.choice([1, 2, 3, 6]) + rng.choice([" ", "  ", "\t"]) + gen_inlines(rng, False) + rng.choice(["", " ", "  "])
    if k == "atxclose":
        return "#" * rng.choice([1, 2]) + " " + gen_inlines(rng, False) + rng.choice([" #", " ##", " ###  ", "\t#", " \\#", "#"])
    if k == "setext":
        return gen_para(rng) + "\n" + rng.choice(["===", "---", "=", "--  ", " =="])
    if k == "fence":
        ch = rng.choice("`~")
        n = rng.choice([3, 3, 4])
        ind = rng.choice(["", "", " ", "  "])
        return ind + ch * n + rng.choice(["", "rust", " py ", "é"]) + "\n" + rng.choice(["code", "a\n b", "", "\n", "\ta", "*x*", ind + "x"]) + "\n" + rng.choice([ind + ch * n, ch * (n + 1), "", ch * n + "  "])
    if k == "indent":
        return "\n".join(rng.choice(["    ", "\t", "  \t", "     "]) + rng.choice(["code", "x y", "é"]) for _ in range(rng.choice([1, 2]))) + rng.choice(["", "\n"])
    if k == "hr":
        return rng.choice(["", " ", "   "]) + rng.choice(["---", "***", "___", "- - -", "* * *", "-----", "_ _ _"]) + rng.choice(["", " ", "\t"])
    if k == "html":
        return rng.choice(["<div>\nx\n</div>", "<pre>\nx\n</pre>", "<!-- c -->", "<?x\n?>", "<!DOCTYPE x>", "<script>\n\nx</script>", "<p>\n*x*", "</div>", "<x-y z>", "<![CDATA[\nx]]>"])
    if k == "table":
        cols = rng.choice([1, 2, 3])
        cell = lambda: rng.choice([rng.choice(WORDS), "a\\|b", "`x\\|y`", "", " ", "**b**", "*e* f", "[l](/u)", "a@b.c", "é é", "\\\\"])
        row = lambda n: rng.choice(["|", "| ", "", " |"]) + rng.choice([" | ", "|", " |", "| "]).join(cell() for _ in range(n)) + rng.choice(["|", " |", "", "| "])
        head = row(cols)
        dl = rng.choice(["|", ""]) + "|".join(rng.choice(["---", ":-", "-:", ":-:", " - "]) for _ in range(cols)) + rng.choice(["|", ""])
        rows = [row(rng.choice([cols, cols, cols - 1 or 1, cols + 1])) for _ in range(rng.choice([0, 1, 2]))]
        return "\n".join([head, dl] + rows)
    if k == "refdef":
        return rng.choice(["[r]: /u", "[r]: /u \"t\"", "[R2]:\n /u2\n 'a\nb'", "[é]: <x y>", "[r]: /u\n[s]: /v"])
    if k == "refpara":
        return rng.choice(["[r]: /u", "[r]: /u 't'", "[q]:\n  /u", "[r]: /u\n[s]: /v"]) + "\n" + gen_para(rng)
    if k == "footdef":
        b = gen_para(rng).split("\n")
        return "[^f]: " + b[0] + "".join("\n    " + l for l in b[1:])
    return gen_para(rng)


def wrap(rng, text, depth):
    """put a block into a random container: returns the wrapped text"""
    lines = text.split("\n")
    k = rng.choice(["quote", "quote", "bullet", "ordered", "task", "lazyquote", "items", "alert"])
    if k in ("quote", "lazyquote", "alert"):
        m = rng.choice(["> ", "> ", ">", ">  ", ">\t", " > "])
        out = []
        for i, l in enumerate(lines):
            if k == "lazyquote" and i > 0 and l.strip() and rng.random() < 0.6:
                out.append(l)
            else:
                out.append((m + l) if l or rng.random() < 0.7 else ">")
        if k == "alert":
            out.insert(0, m.rstrip() + " [!NOTE]")
        return "\n".join(out)
    if k in ("bullet", "ordered", "task"):
        mk = rng.choice("-+*") if k != "ordered" else rng.choice(["1.", "2)", "10.", "007."])
        if k == "task":
            mk = rng.choice("-*") + " " + rng.choice(["[ ]", "[x]", "[X]"])
        pad = rng.choice([" ", " ", "  ", "   ", "\t"])
        w = len(mk) + (len(pad) if pad != "\t" else (4 - len(mk) % 4))
        ind = " " * w
        part = rng.random() < 0.12   # partially consumed / short indentation on continuation lines
        out = [mk + pad + lines[0]]
        for l in lines[1:]:
            if not l:
                out.append(l)
            elif part:
                out.append(rng.choice([ind[:-1], ind + " ", "\t", ind]) + l)
            else:
                out.append(ind + l)
        return "\n".join(out)
    # several items
    items = []
    bul = rng.choice("-*+")
    for i in range(rng.choice([2, 3])):
        body = gen_leaf(rng).split("\n") if i else lines
        items.append("\n".join([bul + " " + body[0]] + [("  " + l if l else l) for l in body[1:]]))
    return rng.choice(["\n", "\n\n"]).join(items)


def gen_block(rng, depth=0):
    t = gen_leaf(rng)
    d = rng.choice([0, 0, 0, 1, 1, 2, 3])
    for _ in range(d):
        t = wrap(rng, t, depth)
        if rng.random() < 0.25:
            t = t + rng.choice(["\n", "\n\n"]) + gen_leaf(rng) if rng.random() < 0.5 else gen_leaf(rng) + "\n\n" + t
    return t


def eol_rewrite(rng, doc):
    m = rng.random()
    if m < 0.62:
        return doc
    if m < 0.76:
        return doc.replace("\n", "\r\n")
    if m < 0.86:
        return doc.replace("\n", "\r")
    return "".join(rng.choice(["\n", "\r\n", "\r"]) if c == "\n" else c for c in doc)


def gen_doc(rng):
    n = rng.choice([1, 1, 2, 2, 3, 4])
    parts = [gen_block(rng) for _ in range(n)]
    doc = ""
    for i, p in enumerate(parts):
        doc += p + (rng.choice(["\n\n", "\n\n", "\n", "\n\n\n", "\n \n"]) if i + 1 < n else rng.choice(["\n", "", "\n\n", "  \n", "\n   "]))
    if rng.random() < 0.04:
        doc = "﻿" + doc
    return eol_rewrite(rng, doc)


ALL_EXT = {k: True for k in docgen.BOOL_EXT}
GFM = {k: True for k in docgen.GFM}


def gen_opts(rng, smart_p=0.15):
    m = rng.random()
    if m < 0.18:
        o = {}
    elif m < 0.4:
        o = dict(GFM)
    elif m < 0.62:
        o = dict(ALL_EXT)
        o.update({"relaxed_autolinks": True, "relaxed_tasklist_matching": True})
    else:
        o = docgen.gen_opts(rng, exclude=("front_matter_delimiter", "header_ids", "default_info_string", "width", "ol_width", "list_style"), strings=False)
    o.pop("smart", None)
    o.pop("experimental_minimize_commonmark", None)
    if rng.random() < smart_p:
        o["smart"] = True
    return o


def exhaustive_small(maxlen=4):
    alpha = ["*", "a", " ", "\n", ">", "-", "`", "[", "\t", "|"]
    docs = [""]
    cur = [""]
    for _ in range(maxlen):
        cur = [d + c for d in cur for c in alpha]
        docs += cur
    return docs


def build_cases(rng, tier):
    """-> list of (opts dict, src bytes, origin)"""
    cases = []
    curated = ["Hello *world*!", "# h #\n", "> a\nb\n", "- a\n\n  b\n", "|a|b|\n|-|-|\n|c|d|\n", "```\nx\n```\n", "a\r\nb\r\n", "*a\nb*\n",
               "[r]: /u\n[r] é**é**", "﻿---\nabc\n", "1. > - x\n", "\t\tx\n", ">\t\tx\n", "-\t\tx\n", "a  \nb\n", "- [ ] t\n- [x] u\n", "[^a]: n\n\nx[^a]\n",
               "a@b.c x@y.z\n", "www.a.b http://c.d\n", "| a\\|b | `c\\|d` |\n|-|-|\n", "Setext\nh\n===\n", "<a@b.c> <http://x>\n", "~~~\nx\n", "> ```\n> x\n> ```\n",
               # delimiter runs that are consumed in part (the leftover text keeps the rest of the run), multi-line
               # inlines followed by more inlines, hard break before a lazy line
               "**foo*** bar\n", "x ***a** y\n", "> q\n> ***b* z\n", "___é__ w\n", "a __b___\n", "x **y**** z\n", "**a*\n", "*a**\n", "~~~a~~ b\n",
               "`foo\nbar` baz\n", "x <span\nclass=\"a\"> y *z*\n", "> a ``b\n> c`` d\n", "> one\\\n  two *three*\n", "- a\\\n b `c`\n"]
    for d in curated:
        for o in ({}, dict(ALL_EXT)):
            cases.append((o, d.encode(), "curated"))
    # every ordered pair of inline constructs glued together (no space / one space), alone, after a soft break in a
    # block quote, and in a list item: what one construct consumes beyond its own end shows in its neighbour
    ADJ = ["w", "*e*", "**s**", "_u_", "`c`", "``c`d``", "[t](/u)", "[t](/u \"x\")", "![i](/i)", "[r]", "[r][]", "[t][r]", "![r]", "[^f]", "[^g]", "[x]", "[[w]]",
           "<http://x.y>", "<a@b.c>", "http://e.x/a", "news://e.x/a", "owncloud://a.b/c", "www.e.x", "a@b.c", "<b>", "<!-- c -->", "\\*", "&amp;", "&#65;", "$x$", "~~d~~", "~s~", "^p^", "||o||",
           "__n__", "é", "!", "]", "[", "(", ")", ":", "\t"]
    TAIL = "\n\n[r]: /u\n\n[^f]: n\n"
    for a in ADJ:
        for b in ADJ:
            for glue in ("", " "):
                t = a + glue + b
                pick = rng.random()
                ctx = (t + " z" + TAIL) if pick < 0.4 else ("> q\n> " + t + " z" + TAIL) if pick < 0.7 else ("- " + t + "\n  " + t + TAIL)
                cases.append((dict(ALL_EXT, relaxed_autolinks=True) if rng.random() < 0.5 else dict(ALL_EXT), ctx.encode(), "adjacent"))
    allx = dict(ALL_EXT)
    for d in exhaustive_small(4 if tier == "quick" else 5):
        cases.append((allx, d.encode(), "exhaustive"))
    n1 = 9000 if tier == "quick" else 120000
    n2 = 14000 if tier == "quick" else 200000
    for _ in range(n1):
        d = docgen.gen_doc(rng) if rng.random() < 0.85 else docgen.gen_malformed(rng)
        if len(d) > 1500:
            d = d[:1500]
        cases.append((gen_opts(rng), d.encode("utf-8", "replace"), "docgen"))
    for _ in range(n2):
        cases.append((gen_opts(rng), gen_doc(rng).encode(), "srcgen"))
    return cases


# --------------------------------------------------------------------------- pipeline
def evaluate(cases):
    """cases: list of (opts dict, src bytes, origin).  -> list of dict(impl=raw line, tree, fails=[(clause, path, cls)]) """
    toks = [docgen.opts_token(o) for o, _, _ in cases]
    impl = vlib.run_lines(vlib.VH["debug"], [f"parse {t} {hx(s)}" for t, (_, s, _) in zip(toks, cases)])
    lines, idx = [], []
    for i, ((o, s, _), r) in enumerate(zip(cases, impl)):
        if r.startswith("ok "):
            lines.append(f"sp_report {1 if o.get('smart') else 0} {hx(s)} {r[3:]}")
            idx.append(i)
    rep = vlib.run_lines(vlib.DRIVER, lines)
    out = [{"impl": r, "tree": None, "fails": None, "report": None} for r in impl]
    for i, r in zip(idx, rep):
        out[i]["report"] = r
        if not r.startswith("ok"):
            continue
        fs = []
        for tok in r.split()[1:]:
            c, p, k = tok.split(":")
            fs.append((c, () if p == "r" else tuple(int(x) for x in p.split(".")), k))
        out[i]["fails"] = fs
        out[i]["tree_toks"] = impl[i].split()[1:]
    return out


def fail_desc(tree_toks, c, p):
    t = parse_tree(tree_toks)
    n = node_at(t, p)
    par = node_at(t, p[:-1]) if p else None
    d = {"clause": c, "clause_text": CLAUSE_NAME[c], "path": list(p), "kind": n[0], "sourcepos": "%d:%d-%d:%d" % n[1]}
    if par:
        d["parent"] = par[0]
        d["parent_sourcepos"] = "%d:%d-%d:%d" % par[1]
    if c == "S" and p and p[-1] > 0:
        pv = node_at(t, p[:-1] + (p[-1] - 1,))
        d["previous_sibling"] = pv[0]
        d["previous_sourcepos"] = "%d:%d-%d:%d" % pv[1]
    return d


def shrink_case(opts, src, pred):
    """pred(opts, srcbytes) -> bool.  ddmin over characters then over option keys"""
    try:
        s = src.decode()
    except UnicodeDecodeError:
        return opts, src
    try:
        m = shrink.ddmin(s, lambda x: pred(opts, x.encode()))
        o = shrink.shrink_opts(opts, lambda d: pred(d, m.encode()))
        return o, m.encode()
    except AssertionError:
        return opts, src


def run(prop, clauses, tier, after_proofs=None):
    c = vlib.Check(prop, tier)
    rng = c.rng
    c.phase_translator(["srcpos"])
    c.phase_proofs()
    if after_proofs:
        after_proofs(c)
    if not c.phase_builds(("debug",)):
        c.finish(rule="build failed")
    known = {e["class"]: e for e in c.known}
    # ---- witnesses of the known classes: each must still be classified into its class
    wit = []
    for cls, e in known.items():
        w = e["witness"]
        wit.append((_opts_from_token(w["options"]), bytes.fromhex(w["input"]) if w["input"] != "-" else b"", "witness:" + cls))
    cases = wit + build_cases(rng, tier)
    t1 = time.time()
    res = evaluate(cases)
    vlib.log(f"{prop}: {len(cases)} cases evaluated in {time.time() - t1:.1f}s (setup {t1 - c.t0:.1f}s)")
    reproduced = {}
    origin_count, kinds_seen = {}, set()
    nfail = {k: 0 for k in clauses}
    unknown = []
    nodes = 0
    for (o, s, origin), r in zip(cases, res):
        origin_count[origin.split(":")[0]] = origin_count.get(origin.split(":")[0], 0) + 1
        if r["fails"] is None:
            if r["report"] is not None:
                c.problem("driver", "sp_report", f"driver answered {r['report'][:200]}", {"line": f"parse {docgen.opts_token(o)} {hx(s)}"})
            # a parse that does not return is C01's business (F25 panics there); counted, not judged here
            c.count(b"noparse:" + s, False)
            continue
        nn = count_nodes_toks(r["tree_toks"])
        nodes += nn
        kinds_seen |= kinds_of_toks(r["tree_toks"])
        c.count(docgen.opts_token(o).encode() + b"|" + s, nn > 2)
        for cl, p, k in r["fails"]:
            if cl not in clauses:
                continue
            nfail[cl] += 1
            if k != "-" and k in known:
                ex = {"options": docgen.opts_token(o), "input": hx(s), "markdown": s.decode("utf-8", "replace")[:300], **fail_desc(r["tree_toks"], cl, p)}
                if origin.startswith("witness:") and origin[8:] == k:
                    reproduced[k] = ex
                    c.known_hits[k] = ex
                else:
                    c.known_hit(k, ex)
            else:
                unknown.append((o, s, cl, p, k, r["tree_toks"]))
    for cls in known:
        if cls not in reproduced:
            c.problem("known-finding", f"witness:{cls}", "the recorded witness of this class is no longer classified into it (defect fixed, or class predicate changed): update known_findings.json",
                      {"line": f"parse {known[cls]['witness']['options']} {known[cls]['witness']['input']}"})
    # ---- violations: shrink the first few
    seen_keys = set()
    unknown.sort(key=lambda u: len(u[1]))
    for o, s, cl, p, k, toks in unknown:
        d = fail_desc(toks, cl, p)
        key = (cl, d.get("parent", ""), d["kind"])
        if key in seen_keys or len(seen_keys) >= 5:
            if len(c.violations) < 60:
                c.violations.append({"what": f"{prop}: {CLAUSE_NAME[cl]} fails ({d['kind']} at {d['sourcepos']})",
                                     "case": {"line": f"parse {docgen.opts_token(o)} {hx(s)}", "failure": d}})
            continue
        seen_keys.add(key)

        def pred(oo, ss, key=key, cl=cl):
            rr = evaluate([(oo, ss, "shrink")])[0]
            if rr["fails"] is None:
                return False
            for c2, p2, k2 in rr["fails"]:
                if c2 == cl and (k2 == "-" or k2 not in known):
                    d2 = fail_desc(rr["tree_toks"], c2, p2)
                    if (c2, d2.get("parent", ""), d2["kind"]) == key:
                        return True
            return False
        o2, s2 = shrink_case(o, s, pred) if len(s) < 3000 else (o, s)
        rr = evaluate([(o2, s2, "shrunk")])[0]
        dd = d
        for c2, p2, k2 in rr["fails"] or []:
            if c2 == cl and (k2 == "-" or k2 not in known):
                dd = fail_desc(rr["tree_toks"], c2, p2)
                break
        c.violations.insert(len(seen_keys) - 1, {"what": f"{prop}: {CLAUSE_NAME[cl]} fails for a {dd['kind']} at {dd['sourcepos']} and is in no known class" + (f" (class predicate {k} has no entry in known_findings.json)" if k != "-" else ""),
                    "case": {"line": f"parse {docgen.opts_token(o2)} {hx(s2)}", "options": docgen.opts_token(o2), "input": hx(s2),
                     "markdown": s2.decode("utf-8", "replace"), "failure": dd, "tree": " ".join((rr.get("tree_toks") or [])[:400]),
                     "original_input": hx(s)[:4000]}})
    c.cov["input_distribution"] = origin_count
    c.cov["nodes_checked"] = nodes
    c.cov["kinds_seen"] = sorted(kinds_seen)
    c.cov["clause_failures_all_known"] = nfail
    c.cov["spec_checks"] = {CLAUSE_NAME[k]: len(cases) for k in clauses}
    c.cov["known_witnesses_reproduced"] = sorted(reproduced)
    c.cov["samples"] = [{"options": docgen.opts_token(o), "input": hx(s)[:200], "report": r["report"][:200] if r["report"] else None} for (o, s, _), r in list(zip(cases, res))[len(wit):len(wit) + 6]]
    c.cov["exhaustive"] = False
    return c


def _opts_from_token(tok):
    if tok in ("-", ""):
        return {}
    d = {}
    for kv in tok.split(","):
        k, _, v = kv.partition("=")
        d[k] = True if v in ("1", "") else v
    return d
