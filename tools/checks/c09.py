"""C09 — XML output is well-formed and mirrors the tree node for node.
Theorems: coq/Props/C09.v (totality iff cells_ok, escaper, xml_well_formed, xml_mirrors, indent cap).
Tie: translator item `nodes_xml` (name tables, XML_UNSAFE + escape arms, MAX_INDENT, prolog, shapes of
escape/indent/format, per-arm audit of format_node compared in Coq) + correspondence render.xml: the
compiled format_xml against the extracted model, byte for byte (panic for panic), on parser trees
and on synthetic trees.  Search on the implementation: the extracted reader `xml_read` must accept
every real output and return exactly the extracted `tree_to_xtree` of the dumped tree; the shape
preconditions of the theorems (cells_ok, literal_leaves) are evaluated on every dumped tree."""
import os
import vlib, docgen
from vlib import hx, unhx

PAYLOADS = ['"', "<", ">", "&", "'", '" < > & \'', "]]>", "-->", "<!--", "<![CDATA[x]]>", "&amp;", "&lt;", "&#x3c;", "&quot", "&",
            "</text>", "</code_block>", '" onload="x', 'a"b<c', "\x01", "\x1f\x7f", "\t\n\r", "\n    <x/>", " ", "", "é", "漢字", "😀", "é\"<漢>&😀",
            "math", "x" * 300 + "<", "?>", "<?xml", "/>", "=\"\"", "\\", " ", "﻿", "a\x00b"]

INLINE_LEAF = ["Text", "Code", "HtmlInline", "Raw", "Math", "FootnoteReference", "SoftBreak", "LineBreak", "EscapedTag"]
INLINE_CONT = ["Emph", "Strong", "Strikethrough", "Superscript", "Link", "Image", "WikiLink", "Underline", "Subscript", "SpoileredText", "Escaped"]
BLOCK_LEAF = ["CodeBlock", "HtmlBlock", "ThematicBreak", "FrontMatter"]
BLOCK_CONT = ["BlockQuote", "List", "Item", "DescriptionList", "DescriptionItem", "DescriptionTerm", "DescriptionDetails", "Paragraph",
              "Heading", "FootnoteDefinition", "Table", "TableRow", "TaskItem", "MultilineBlockQuote", "Alert", "Document"]
LITERAL = {"Text", "Code", "HtmlInline", "Raw", "Math", "CodeBlock", "HtmlBlock"}


def sp_tok(rng):
    r = rng.random()
    if r < 0.15:
        return "0 0 0 0"
    if r < 0.25:
        return "0 %d %d %d" % (rng.randrange(5), rng.randrange(5), rng.randrange(5))
    return "%d %d %d %d" % (rng.choice([1, 2, 9, 10, 123, 4294967296]), rng.randrange(1, 80), rng.choice([1, 3, 99, 1000]), rng.randrange(0, 200))


def pay(rng):
    r = rng.random()
    if r < 0.7:
        return rng.choice(PAYLOADS)
    return "".join(rng.choice(PAYLOADS + ["a", "b c", "x"]) for _ in range(rng.choice([2, 3, 5])))


def list_fields(rng):
    return "%s %d %d %d %s %d %d %d" % (rng.choice("bo"), rng.randrange(4), rng.randrange(6), rng.choice([0, 1, 2, 9, 10, 123456789, 4611686018427387903]),
                                       rng.choice("pr"), rng.choice([42, 43, 45, 0]), rng.randrange(2), rng.randrange(2))


def fields(kind, rng, p=None):
    """field tokens of one node; p = forced payload for every string field"""
    s = (lambda: p) if p is not None else (lambda: pay(rng))
    h = lambda x: hx(x)
    if kind in ("Text", "HtmlInline", "Raw", "WikiLink", "EscapedTag", "FrontMatter"):
        return h(s())
    if kind in ("List", "Item"):
        return list_fields(rng)
    if kind == "DescriptionItem":
        return "%d %d %d" % (rng.randrange(4), rng.randrange(4), rng.randrange(2))
    if kind == "CodeBlock":
        info = s() if rng.random() < 0.8 or p is not None else ""
        return "%d %d %d %d %s %s" % (rng.randrange(2), rng.choice([96, 126, 0]), rng.randrange(6), rng.randrange(4), h(info), h(s()))
    if kind == "HtmlBlock":
        return "%d %s" % (rng.randrange(8), h(s()))
    if kind == "Heading":
        return "%d %d" % (rng.choice([1, 2, 3, 6, 0, 7, 255]), rng.randrange(2))
    if kind == "FootnoteDefinition":
        return "%s %d" % (h(s()), rng.randrange(3))
    if kind == "Table":
        n = rng.randrange(0, 5)
        al = "".join(rng.choice("nlcr") for _ in range(n)) or "-"
        return "%d %d %d %s" % (n, rng.randrange(4), rng.randrange(4), al)
    if kind == "TableRow":
        return str(rng.randrange(2))
    if kind == "TaskItem":
        return rng.choice(["n", "s" + hx("x"), "s" + hx("X"), "s" + hx("é")])
    if kind == "Code":
        return "%d %s" % (rng.randrange(1, 4), h(s()))
    if kind in ("Link", "Image"):
        return "%s %s" % (h(s()), h(s()))
    if kind == "FootnoteReference":
        return "%s %d %d" % (h(s()), rng.randrange(3), rng.randrange(3))
    if kind == "Math":
        return "%d %d %s" % (rng.randrange(2), rng.randrange(2), h(s()))
    if kind == "MultilineBlockQuote":
        return "%d %d" % (rng.randrange(3, 6), rng.randrange(3))
    if kind == "Alert":
        title = "n" if (rng.random() < 0.3 and p is None) else "s" + hx(s())
        return "%d %s %d %d %d" % (rng.randrange(5), title, rng.randrange(2), rng.randrange(4), rng.randrange(3))
    return ""


def node(kind, rng, children=(), p=None, sp=None):
    f = fields(kind, rng, p)
    return "( %s %s%s%s )" % (kind, sp or sp_tok(rng), (" " + f) if f else "", "".join(" " + c for c in children))


def random_tree(rng, depth=0, maxdepth=6, allow_bad=False):
    """random nesting of any kinds (the renderer does not validate containment); table cells only
    inside rows of tables unless allow_bad"""
    kinds = INLINE_LEAF + INLINE_CONT + BLOCK_LEAF + BLOCK_CONT
    k = rng.choice(kinds) if depth else "Document"
    if k == "Table":
        n = rng.randrange(0, 4)
        al = "".join(rng.choice("nlcr") for _ in range(n)) or "-"
        rows = []
        for ri in range(rng.randrange(0, 3)):
            ncell = n if not allow_bad else rng.choice([n, n, n + 1, n + 2])
            cells = [node("TableCell", rng, [random_tree(rng, depth + 3, maxdepth)] if rng.random() < 0.5 else []) for _ in range(ncell)]
            rows.append("( TableRow %s %d%s )" % (sp_tok(rng), 1 if ri == 0 and rng.random() < 0.9 else rng.randrange(2), "".join(" " + c for c in cells)))
        return "( Table %s %d %d %d %s%s )" % (sp_tok(rng), n, len(rows), 0, al, "".join(" " + r for r in rows))
    if k == "TableRow":
        k = "Paragraph"
    leaf = k in INLINE_LEAF or k in BLOCK_LEAF
    ch = []
    if depth < maxdepth and (not leaf or (allow_bad and rng.random() < 0.2)):
        for _ in range(rng.choice([0, 1, 1, 2, 3])):
            ch.append(random_tree(rng, depth + 1, maxdepth, allow_bad))
    if allow_bad and rng.random() < 0.05:
        ch.append(node("TableCell", rng))
    return node(k, rng, ch)


def chain(rng, n):
    """a chain n deep (indentation beyond the cap)"""
    t = node("Text", rng, p="x")
    for i in range(n):
        t = node(rng.choice(["Emph", "Strong", "BlockQuote", "Item", "Link"]), rng, [t])
    return node("Document", rng, [t])


def systematic(rng):
    """every payload in every payload position, one node under document/paragraph"""
    out = []
    positions = ["Text", "Code", "HtmlBlock", "HtmlInline", "Raw", "CodeBlock", "Link", "Image", "WikiLink", "FootnoteDefinition",
                 "FootnoteReference", "Alert", "Math", "EscapedTag", "FrontMatter"]
    for k in positions:
        for p in PAYLOADS:
            if "\x00" in p and False:
                continue
            inner = node(k, rng, [node("Text", rng, p="t")] if k in ("Link", "Image", "WikiLink", "FootnoteDefinition", "Alert", "EscapedTag") else [], p=p)
            if k in ("HtmlBlock", "CodeBlock", "FootnoteDefinition", "Alert", "FrontMatter"):
                t = node("Document", rng, [inner])
            else:
                t = node("Document", rng, [node("Paragraph", rng, [inner])])
            out.append(("payload:" + k, t))
    return out


def shape_violations(rng):
    sp = "1 1 1 1"
    cell = "( TableCell %s )" % sp
    out = [
        ("cell-root", cell),
        ("cell-under-document", "( Document %s %s )" % (sp, cell)),
        ("cell-under-paragraph", "( Document %s ( Paragraph %s %s ) )" % (sp, sp, cell)),
        ("cell-under-headerrow-root", "( TableRow %s 1 %s )" % (sp, cell)),
        ("cell-under-row-under-document", "( Document %s ( TableRow %s 1 %s %s ) )" % (sp, sp, cell, cell)),
        ("header-2-cells-1-alignment", "( Document %s ( Table %s 1 1 1 l ( TableRow %s 1 %s %s ) ) )" % (sp, sp, sp, cell, cell)),
        ("header-1-cell-0-alignments", "( Document %s ( Table %s 0 1 0 - ( TableRow %s 1 %s ) ) )" % (sp, sp, sp, cell)),
        ("body-row-more-cells", "( Document %s ( Table %s 1 2 1 c ( TableRow %s 1 %s ) ( TableRow %s 0 %s %s %s ) ) )" % (sp, sp, sp, cell, sp, cell, cell, cell)),
        ("table-root", "( Table %s 2 1 2 lr ( TableRow %s 1 %s %s ) )" % (sp, sp, cell, cell)),
        ("header-not-first-child", "( Document %s ( Table %s 2 1 2 rc ( TableRow %s 1 ( Text %s 61 ) %s %s ) ) )" % (sp, sp, sp, sp, cell, cell)),
        ("header-not-first-child-overflow", "( Document %s ( Table %s 2 1 2 rc ( TableRow %s 1 ( Text %s 61 ) %s %s %s ) ) )" % (sp, sp, sp, sp, cell, cell, cell)),
        ("text-with-children", "( Document %s ( Paragraph %s ( Text %s 61 ( Emph %s ) ( Text %s 62 ) ) ) )" % (sp, sp, sp, sp, sp)),
        ("codeblock-with-child", "( Document %s ( CodeBlock %s 1 96 3 0 - 61 ( Paragraph %s ) ) )" % (sp, sp, sp)),
    ]
    return out


def classify_panic(real):
    """real harness line of a panicking render -> the model's panic site it must correspond to"""
    if not real.startswith("panic "):
        return None
    parts = real.split(" ")
    msg = unhx(parts[1]).decode("utf-8", "replace") if len(parts) > 1 else ""
    loc = parts[2] if len(parts) > 2 else ""
    if "xml.rs" not in loc:
        return "other:" + msg + "@" + loc
    if "index out of bounds" in msg:
        return "alignments[ix]"
    if "unwrap" in msg and "None" in msg:
        return "unwrap"
    return "other:" + msg + "@" + loc


def model_panic_class(m):
    if not m.startswith("panic "):
        return None
    site = m[6:]
    if site.endswith("alignments[ix]"):
        return "alignments[ix]"
    if site.endswith("parent.unwrap") or site.endswith("grandparent.unwrap"):
        return "unwrap"
    return "other:" + site


def big_stack(exe):
    """the extracted reader recurses once per sibling / per byte of a literal: give the driver a large stack"""
    w = exe + "_bigstack"
    body = "#!/bin/sh\nulimit -s 4000000 2>/dev/null || ulimit -s unlimited 2>/dev/null\nexec %s \"$@\"\n" % exe
    if not os.path.exists(w) or open(w).read() != body:
        with open(w, "w") as f:
            f.write(body)
        os.chmod(w, 0o755)
    return w


def main(tier):
    c = vlib.Check("C09", tier)
    rng = c.rng
    c.phase_translator(["tables", "nodes_xml"])
    c.phase_proofs()
    if not c.phase_builds(("debug",)):
        c.finish(rule="build failed")
    vh, drv = vlib.VH["debug"], big_stack(vlib.DRIVER)

    # ------------------------------------------------------------------ (i) parser trees
    ndocs = 12000 if tier == "quick" else 120000
    docs = []
    for i in range(ndocs):
        r = rng.random()
        d = docgen.gen_doc(rng) if r < 0.8 else docgen.gen_malformed(rng)
        force = {"sourcepos": True} if rng.random() < 0.3 else None
        o = docgen.gen_opts(rng, force=force)
        docs.append((d, docgen.opts_token(o)))
    # a few large inputs: long literals, many nodes, deep nesting
    big = ["```\n" + ("<&\">x" * 12000) + "\n```\n", "a <b> & \"c\" " * 6000, "> " * 300 + "x", "* a\n" * 3000,
           "|a|b|\n|:-|-:|\n" + "|<|&|\n" * 2000, "[x](</u\"v> \"t&\") " * 2000]
    for d in big:
        docs.append((d, docgen.opts_token({"table": True, "sourcepos": True})))
    lines = [f"pipe {o} {hx(d)}" for d, o in docs]
    impl = vlib.run_lines(vh, lines)
    parsed = []   # (doc, opts, tree, X)
    for (d, o), r in zip(docs, impl):
        if not r.startswith("ok "):
            c.problem("correspondence", "render.xml", f"pipe failed: {r[:200]}", {"doc": hx(d), "opts": o, "observed": r[:500]})
            continue
        parts = r[3:].split(" | ")
        if len(parts) < 6 or not parts[4].startswith("X "):
            c.problem("correspondence", "render.xml", f"unexpected pipe output: {r[:200]}", {"doc": hx(d), "opts": o})
            continue
        parsed.append((d, o, parts[0], parts[4][2:]))
    model = vlib.run_lines(drv, [f"xml {o} {t}" for d, o, t, x in parsed], timeout=900)
    agree = 0
    for (d, o, t, x), m in zip(parsed, model):
        c.count(("P:" + ("SP:" if "sourcepos=1" in o else "") + t).encode(), t.count("(") > 2)
        if x.startswith("!"):
            c.violation("format_xml panics on a tree produced by the parser", {"source": "parser", "doc": hx(d), "opts": o, "observed": x, "model": m[:200], "line": f"render xml {o} {t}"})
            continue
        if m != "ok " + x:
            c.problem("correspondence", "render.xml", f"parser tree: doc={hx(d)[:400]} opts={o} impl={x[:300]} model={m[:300]}",
                      {"source": "parser", "doc": hx(d), "opts": o, "tree": t, "impl": x, "model": m, "line": f"render xml {o} {t}"})
        else:
            agree += 1
    c.cov["correspondences"]["render.xml/parser-trees"] = {"cases": len(parsed), "agree": agree}
    if parsed:
        d, o, t, x = parsed[0]
        c.cov["samples"].append({"source": "parser", "doc": d, "opts": o, "tree": t[:600], "xml": unhx(x).decode("utf-8", "replace")[:800] if not x.startswith("!") else x})

    # ------------------------------------------------------------------ (ii) synthetic trees
    synth = systematic(rng)
    nrand = 3000 if tier == "quick" else 30000
    for i in range(nrand):
        synth.append(("random", random_tree(rng, maxdepth=rng.choice([3, 5, 7]))))
    for i in range(nrand // 6):
        synth.append(("random-bad", random_tree(rng, maxdepth=5, allow_bad=True)))
    for n in (1, 19, 20, 21, 22, 40, 41, 100, 1500):
        synth.append(("chain", chain(rng, n)))
    synth.append(("big-literal", node("Document", rng, [node("CodeBlock", rng, p="<&\">\n  " * 20000)])))
    viol = shape_violations(rng)
    synth += viol
    sopts = []
    for _ in synth:
        sopts.append(docgen.opts_token({"sourcepos": True}) if rng.random() < 0.5 else "-")
    real = vlib.run_lines(vh, [f"render xml {o} {t}" for (_, t), o in zip(synth, sopts)], timeout=900)
    mod = vlib.run_lines(drv, [f"xml {o} {t}" for (_, t), o in zip(synth, sopts)], timeout=900)
    agree = 0
    panics = 0
    by_src = {}
    for (src, t), o, a, m in zip(synth, sopts, real, mod):
        c.count(("S:" + o + ":" + t).encode(), True)
        by_src[src.split(":")[0]] = by_src.get(src.split(":")[0], 0) + 1
        ok = False
        if a.startswith("ok "):
            ok = (a == m)
        elif a.startswith("panic "):
            ok = classify_panic(a) is not None and classify_panic(a) == model_panic_class(m)
            panics += ok
        if ok:
            agree += 1
        else:
            c.problem("correspondence", "render.xml", f"synthetic tree ({src}): tree={t[:400]} opts={o} impl={a[:300]} model={m[:300]}",
                      {"source": src, "opts": o, "tree": t, "impl": a, "model": m, "line": f"render xml {o} {t}"})
    c.cov["correspondences"]["render.xml/synthetic-trees"] = {"cases": len(synth), "agree": agree, "coinciding_panics": panics, "by_source": by_src}
    # the Coq witnesses of C09_xml_total_refuted, on the implementation
    wit = dict(viol)
    for name in ("cell-root", "header-2-cells-1-alignment"):
        r = vlib.run_one(vh, f"render xml - {wit[name]}")
        if not r.startswith("panic "):
            c.problem("correspondence", "render.xml", f"refutation witness {name} does not panic on the implementation: {r[:200]}", {"tree": wit[name], "observed": r})
    c.cov["samples"].append({"source": "synthetic", "tree": synth[3][1], "opts": sopts[3], "impl": real[3][:400]})

    # ------------------------------------------------------------------ the property on the implementation
    cases = [("parser", d, o, t, x) for d, o, t, x in parsed if not x.startswith("!")]
    cases += [(src, None, o, t, a[3:]) for (src, t), o, a in zip(synth, sopts, real) if a.startswith("ok ")]
    res = vlib.run_lines(drv, [f"xml_check {o} {x} {t}" for _, _, o, t, x in cases], timeout=900)
    n_prop = 0
    n_out = 0
    maxind = 0
    for (src, d, o, t, x), r in zip(cases, res):
        if not r.startswith("ok read="):
            c.problem("correspondence", "xml_check", f"driver: {r[:200]}", {"source": src, "opts": o, "tree": t[:2000], "xml": x[:2000]})
            continue
        f = dict(kv.split("=", 1) for kv in r[3:].split(" ") if "=" in kv)
        case = {"source": src, "opts": o, "tree": t, "xml": x, "checked": r, "line": f"render xml {o} {t}"}
        if d is not None:
            case["doc"] = hx(d)
        shape = f["cells"] == "1" and f["leaves"] == "1"
        if src == "parser" and not shape:
            c.violation("the parser produced a tree outside the shape the XML theorems assume (table cell without row/table/alignment, or a literal node with children)", case)
        if not shape:
            n_out += 1
            continue
        n_prop += 1
        maxind = max(maxind, int(f["indent"]))
        if f["read"] != "1":
            c.violation("XML output is not well-formed (rejected by the reader: nesting, names, quoting, escaping, duplicate attributes or trailing content)", case)
        elif f["mirror"] != "1":
            c.violation("XML element tree differs from the node tree (kind, order, nesting, or a literal / destination / title / label not carried exactly): " + f.get("diff", ""), case)
        if int(f["indent"]) > 40:
            c.violation("a tag is indented by more than 40 spaces", case)
    c.cov["spec_checks"]["xml_read(impl xml) = tree_to_xtree(dumped tree), shape_ok evaluated, tag indent <= 40"] = n_prop
    c.cov["spec_checks"]["synthetic trees outside shape_ok (bytes compared with the model only)"] = n_out
    c.cov["max_tag_indent_seen"] = maxind
    c.cov["input_distribution"] = {"generated_documents": ndocs, "large_documents": len(big), "synthetic_by_source": by_src,
                                   "payloads": len(PAYLOADS), "max_nodes_in_a_parser_tree": max((t.count("(") for _, _, t, _ in parsed), default=0)}
    c.cov["partial_clauses"] = [
        "theorems assume shape_ok (cells_ok && literal_leaves) of the tree; it is evaluated on every parser tree of this run, not proved of the parser",
        "XML 1.0 Char production (control characters) is outside the property's list and not checked (DESIGN C09 scope note i)",
        "front matter text, list padding, fence characters, ref_num/ix are not printed by format_xml and not part of the mirror (scope note ii)",
        "indent_capped is proved of the indentation function; per line it is evaluated on the real outputs (max_tag_indent)"]
    c.assumptions = ["Model/Xml.v is a hand transcription of src/xml.rs; tables, arms, MAX_INDENT, prolog, loop shapes and the per-arm audit of format_node are regenerated from /repo on every run (translator item nodes_xml)",
                     "io::Write is modelled as an infallible append-only buffer; the work stack of format() as depth-first recursion (plain is never true: format_node ends with Ok(false), checked by the translator)",
                     "payload strings are valid UTF-8 (Rust String)"]
    c.finish(rule="distinct by (tree tokens, sourcepos on/off); a parser case is non-trivial when its tree has more than two nodes; every synthetic case is non-trivial (adversarial payload or shape)",
             trusted_base=["Coq 8.16.1 kernel (vm_compute for finite checks)", "no axioms (Print Assumptions: closed for every theorem)",
                           "tools/gen_model.py recognisers (match arms, character_set!, shapes, audit events)",
                           "extraction (ExtrOcamlBasic only) + ocaml/d_0tree.ml tree/option token parser + ocaml/d_xml.ml",
                           "harness/src (tree dump/build, hex protocol, catch_unwind)"])
