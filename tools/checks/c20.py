"""C20 — front matter is carried verbatim and never leaks into the document.
Theorems: coq/Props/C20.v (splitter: the model IS the line-based specification on every str and for every
well-formed delimiter — C20_split_vs_spec —, totality on UTF-8, soundness, line count; the four witnesses that
refuted the statement before the repair `fix: front matter is cut by lines` are Examples of the specified
behaviour).  Tie: translator item `frontmatter` (normalised bodies of split_off_front_matter / line_at /
count_line_endings / trim_start_match, the feed prologue, the FrontMatter arms of the three renderers; the
pre-repair text raises TranslatorError) + correspondence leaf.split_off_front_matter (model vs compiled function).
Search on the implementation:
 (a) split_fm vs the extracted line-based spec: ANY disagreement is a violation (the classes of the repaired
     defects F9, F10, F11, C20-a excuse nothing any more; the extracted fm_class only labels the coverage);
     the recorded witnesses of those classes are replayed and must split / render as recorded;
 (b) end to end on (front matter f, rest r): CommonMark output starts with f byte for byte, HTML equals
     the HTML of r alone, with sourcepos the line numbers are those of r shifted by the lines of f, the
     process_line log equals that of r; look-alikes render as if no delimiter were configured."""
import itertools, re
import vlib, docgen
from vlib import hx, unhx

BOM = b"\xef\xbb\xbf"
# fm_class labels of the REPAIRED classes (known_findings F11, C20-a, F9, F10: status fixed).  Coverage labels only.
CLASSES = {1: "lone_cr", 2: "empty_front_matter", 3: "later_crlf_closer", 4: "prefix_line_hides_eof_closer"}
DELIMS = [b"---", b"+++", b"-", "é—".encode(), b"--"]   # `-` is a substring of `--` and `---`
EOLS = {"LF": [b"\n"], "CRLF": [b"\r\n"], "CR": [b"\r"], "mixed": [b"\n", b"\r\n", b"\r"], "mixed_lf_crlf": [b"\n", b"\r\n"]}


def gen_leaf():
    """delimiters x bodies over the line alphabet x line endings x endings x BOM"""
    cases = []
    for di, d in enumerate(DELIMS):
        alpha = [d, d + b"x", b"x" + d, b" " + d, d + b" ", b"", b"text"]
        maxlines = 4 if di == 0 else 3
        for n in range(0, maxlines + 1):
            for body in itertools.product(alpha, repeat=n):
                ls = [d] + list(body) + [d]
                for le, es in EOLS.items():
                    if le == "mixed_lf_crlf" and n > 3:
                        continue
                    for ending in (b"", None, 2, b"rest"):
                        for bom in ((b"", BOM) if n <= 3 else (b"",)):
                            out = bom
                            for i, l in enumerate(ls):
                                e = es[(i + n) % len(es)]
                                if i == len(ls) - 1:
                                    if ending == b"":
                                        out += l
                                    elif ending is None:
                                        out += l + e
                                    elif ending == 2:
                                        out += l + e + e
                                    else:
                                        out += l + e + ending
                                else:
                                    out += l + e
                            cases.append((d, out))
    return cases


def gen_leaf_random(rng, n):
    cases = []
    for _ in range(n):
        d = rng.choice(DELIMS + [b"", b"\n", b"a\nb", b"\r", b"- -"]) if rng.random() < 0.15 else rng.choice(DELIMS)
        toks = [d, d, b"\n", b"\n", b"\r\n", b"\r", b"x", b" ", b"-", BOM, "é".encode()]
        k = rng.randrange(0, 14)
        s = b"".join(rng.choice(toks) for _ in range(k))
        if rng.random() < 0.7:
            s = d + rng.choice([b"\n", b"\r\n"]) + s
        if rng.random() < 0.1:
            s = BOM + s
        cases.append((d, s))
    return cases


def fm_blocks(rng, d, n):
    """front matter blocks as the documentation describes them (LF, CRLF or CR line endings, closer terminated);
    mixed line endings are produced afterwards by remix_eols"""
    out = []
    for _ in range(n):
        e = rng.choice([b"\n", b"\n", b"\n", b"\r\n", b"\r\n", b"\r"])
        k = rng.choice([0, 1, 1, 2, 3, 5])
        body = []
        for _ in range(k):
            body.append(rng.choice([b"title: FMMARK", b"FMMARK: [a](b) *x* <i>", b"  - FMMARK", b"# FMMARK", b"", b"x" + d, b" " + d, d + b" x" if rng.random() < 0.3 else b"k: FMMARK",
                                    "FMMARK é 漢".encode(), b"> FMMARK", b"```", b"FMMARK\t|a|b|"]))
        if body and body[0] == d:
            body[0] = b"FMMARK"
        f = d + e + b"".join(l + e for l in body) + d + e
        if rng.random() < 0.3:
            f += e          # the blank line that goes with the front matter
        out.append(f)
    return out


def remix_eols(rng, f):
    """the same lines with every line ending drawn again from LF / CRLF / CR (what the result means is decided by
    the specification, which is evaluated on it)"""
    parts = re.split(rb"\r\n|\n|\r", f)
    out = b""
    for l in parts[:-1]:
        out += l + rng.choice([b"\n", b"\r\n", b"\r"])
    return out + parts[-1]


SP = re.compile(rb'((?:data-)?sourcepos=")(\d+):(\d+)-(\d+):(\d+)(")')


def shift_sourcepos(html, k):
    return SP.sub(lambda m: m.group(1) + b"%d:%s-%d:%s" % (int(m.group(2)) + k, m.group(3), int(m.group(4)) + k, m.group(5)) + m.group(6), html)


def main(tier):
    c = vlib.Check("C20", tier)
    rng = c.rng
    c.phase_translator(["frontmatter"])
    c.phase_proofs()
    if not c.phase_builds(("debug",)):
        c.finish(rule="build failed")
    vh, drv = vlib.VH["debug"], vlib.DRIVER
    # Blocks_front_matter_factor (Props/Blocks.v): the parser is the prologue followed by the block phase on the
    # lines of the remainder; the block-phase model is tied here
    from checks import layerc
    layerc.blocks(c, tier, 0.25 if tier == "quick" else 0.1)

    def classify(d, s, what, case, cls_line):
        """a failure on input s is a violation; fm_class only labels it (the four classes are repaired)"""
        k = int(cls_line.split()[1]) if cls_line.startswith("ok ") else 0
        c.violation(what + (f" (input inside the repaired class {CLASSES[k]})" if k in CLASSES else ""), case)

    # ------------------------------------------------------------------ leaf correspondence
    leaf = gen_leaf()
    n_exh = len(leaf)
    leaf += gen_leaf_random(rng, 40000 if tier == "quick" else 400000)
    lines = [f"split_fm {hx(d)} {hx(s)}" for d, s in leaf]
    impl = vlib.run_lines(vh, lines)
    model = vlib.run_lines(drv, lines)
    agree = 0
    for (d, s), a, m in zip(leaf, impl, model):
        c.count(b"split:" + d + b"|" + s, a.startswith("ok "))
        if a != m:
            c.problem("correspondence", "leaf.split_off_front_matter", f"delimiter={hx(d)} input={hx(s)} impl={a} model={m}",
                      {"fn": "split_fm", "delimiter": hx(d), "input": hx(s), "impl": a, "model": m})
        else:
            agree += 1
    c.cov["correspondences"]["leaf.split_off_front_matter"] = {"cases": len(leaf), "agree": agree, "exhaustive_product": n_exh}
    c.cov["samples"].append({"fn": "split_fm", "case": lines[7], "impl": impl[7]})

    # ------------------------------------------------------------------ (a) implementation vs line-based spec
    okd = vlib.run_lines(drv, [f"delim_ok {hx(d)}" for d in sorted(set(d for d, _ in leaf))])
    good = {d for d, r in zip(sorted(set(d for d, _ in leaf)), okd) if r == "ok 1"}
    sel = [i for i, (d, s) in enumerate(leaf) if d in good]
    spec = vlib.run_lines(drv, [lines[i].replace("split_fm", "spec_split", 1) for i in sel])
    cls = vlib.run_lines(drv, [lines[i].replace("split_fm", "fm_class", 1) for i in sel])
    ndis = {}
    for i, sp, k in zip(sel, spec, cls):
        d, s = leaf[i]
        a = impl[i]
        if not (a.startswith("ok ") or a == "none"):
            c.violation("split_off_front_matter does not return normally", {"fn": "split_fm", "delimiter": hx(d), "input": hx(s), "observed": a})
            continue
        if a.startswith("ok "):
            fm, rest = [unhx(x) for x in a.split()[1:3]]
            stripped = s[3:] if s.startswith(BOM) else s
            if fm + rest != stripped:
                c.violation("split_off_front_matter: front matter ++ rest is not the input", {"fn": "split_fm", "delimiter": hx(d), "input": hx(s), "observed": a})
        if a != sp:
            ndis[k] = ndis.get(k, 0) + 1
            classify(d, s, "split_off_front_matter disagrees with the line-based spec",
                     {"fn": "split_fm", "delimiter": hx(d), "input": hx(s), "impl": a, "spec": sp, "fm_class": k}, k)
    ncls = {}
    for k in cls:
        ncls[k] = ncls.get(k, 0) + 1
    c.cov["spec_checks"]["split_fm(impl) = spec_split on every case (no class is excused)"] = {"cases": len(sel), "disagreements_by_class": ndis, "cases_by_former_class(fm_class)": ncls}

    # ------------------------------------------------------------------ (b) end to end
    npairs = 1500 if tier == "quick" else 15000
    pairs = []
    for _ in range(npairs):
        d = rng.choice(DELIMS[:4])
        f = fm_blocks(rng, d, 1)[0]
        if rng.random() < 0.2:
            f = remix_eols(rng, f)
        mode = rng.random()
        if mode < 0.7:
            r = docgen.gen_doc(rng).encode()
        elif mode < 0.85:
            r = docgen.gen_malformed(rng).encode()
        elif mode < 0.9:
            r = b""
        else:
            r = rng.choice([b"text\n", b"\ntext\n", b"\n\ntext\n", d + b"\n", d + b"\nx\n" + d + b"\n", b"x\n" + d + b"\r\nmore\n", b"\r\ntext", BOM + b"text\n",
                            b"# h\n\n" + d + b"\n", b"    code\n", b"> q\n> q\n", b"\ttab\n", b"[a]: /u\n\n[a]\n",
                            # a first paragraph that begins with an ESCAPED block marker: the CommonMark formatter must
                            # still know it is at the beginning of a line after the verbatim front matter
                            b"\\- not a list\n", b"1986\\. year\n", b"\\# no heading\n", b"\\> no quote\n", b"&#45; x\n", b"7\\) x\n", b"\\+ a\n\n\\= b\n"])
        o = docgen.gen_opts(rng, exclude=("front_matter_delimiter", "sourcepos", "experimental_minimize_commonmark"), strings=False) if rng.random() < 0.6 else {}
        pairs.append((d, f, r, o))
    # what the spec says about f ++ r
    sp = vlib.run_lines(drv, [f"spec_split {hx(d)} {hx(f + r)}" for d, f, r, o in pairs])
    kl = vlib.run_lines(drv, [f"fm_class {hx(d)} {hx(f + r)}" for d, f, r, o in pairs])
    jobs = []
    meta = []
    for (d, f, r, o), s_, k in zip(pairs, sp, kl):
        if not s_.startswith("ok "):
            c.problem("generator", "e2e.generator", f"spec_split finds no front matter in a generated document: d={hx(d)} doc={hx(f + r)}")
            continue
        fm_s, rest_s = [unhx(x) for x in s_.split()[1:3]]
        with_d = docgen.opts_token(dict(o, front_matter_delimiter=d.decode()))
        with_d_sp = docgen.opts_token(dict(o, front_matter_delimiter=d.decode(), sourcepos=True))
        without = docgen.opts_token(o)
        without_sp = docgen.opts_token(dict(o, sourcepos=True))
        doc = f + r
        meta.append((d, f, r, o, fm_s, rest_s, k, len(jobs)))
        jobs += [f"md cm {with_d} {hx(doc)}", f"md html {with_d} {hx(doc)}", f"md html {without} {hx(rest_s)}",
                 f"md html {with_d_sp} {hx(doc)}", f"md html {without_sp} {hx(rest_s)}",
                 f"lines {with_d} {hx(doc)}", f"lines {without} {hx(rest_s)}", f"md xml {with_d} {hx(doc)}", f"md cm {without} {hx(rest_s)}"]
    res = vlib.run_lines(vh, jobs)
    lc = vlib.run_lines(drv, [f"spec_line_count {hx(m[4])}" for m in meta])
    rb = vlib.run_lines(drv, [f"rest_has_bom {hx(m[5])}" for m in meta])
    ne2e = 0
    e2e_fail = {}
    cr_state = []
    for (d, f, r, o, fm_s, rest_s, k, j), lcount, hasbom in zip(meta, lc, rb):
        cm, h, h_r, hsp, hsp_r, ln, ln_r, xml, cm_r = res[j:j + 9]
        case = {"delimiter": hx(d), "front_matter": hx(f), "rest": hx(r), "opts": docgen.opts_token(o), "spec_fm": hx(fm_s), "fm_class": k}
        c.count(b"e2e:" + d + f + r + docgen.opts_token(o).encode(), True)
        ne2e += 1
        fails = []
        if not all(x.startswith("ok") for x in (cm, h, h_r, hsp, hsp_r, ln, ln_r, xml, cm_r)):
            fails.append(("a render or parse stage does not return normally", {"observed": [x[:200] for x in (cm, h, h_r, hsp, hsp_r, ln, ln_r, xml, cm_r) if not x.startswith("ok")]}))
        else:
            un = lambda x: unhx(x.split()[1]) if len(x.split()) > 1 else b""
            if not un(cm).startswith(fm_s):
                fails.append(("CommonMark output does not start with the front matter byte for byte", {"cm": hx(un(cm)[:len(fm_s) + 20])}))
            elif un(cm) not in (fm_s + un(cm_r), fm_s + b"\n" + un(cm_r), fm_s + b"\n\n" + un(cm_r)):
                # the rest is formatted as on its own, after the verbatim front matter and at most a blank line (a first
                # block that asks for one, the final line end of an unterminated closing line)
                if fm_s.endswith(b"\r"):
                    # known (C20-b): the formatter's literal output only takes LF for a line end, so after front matter
                    # whose last line ends in a bare CR it believes it is in the middle of a line
                    cr_state.append(dict(case, cm=hx(un(cm)[-200:]), cm_rest=hx(un(cm_r)[-200:])))
                else:
                    fails.append(("CommonMark output of front matter ++ rest is not the front matter followed by the CommonMark output of the rest alone",
                                  {"cm": hx(un(cm)), "cm_rest": hx(un(cm_r))}))
            if un(h) != un(h_r):
                fails.append(("HTML of front matter ++ rest differs from the HTML of the rest alone", {"html": hx(un(h)), "html_rest": hx(un(h_r))}))
            if b"FMMARK" in un(h) and b"FMMARK" not in rest_s:
                fails.append(("front matter text appears in the HTML", {"html": hx(un(h))}))
            shift = int(lcount.split()[1])
            if un(hsp) != shift_sourcepos(un(hsp_r), shift):
                fails.append(("sourcepos of the rest is not shifted by the number of front matter lines", {"shift": shift, "html": hx(un(hsp)), "html_rest": hx(un(hsp_r))}))
            if ln != ln_r:
                fails.append(("lines handed to process_line differ from those of the rest alone", {"lines": ln, "lines_rest": ln_r}))
            if un(xml).count(b"<front_matter") + un(xml).count(b"<frontmatter") != 1 or b"FMMARK" in un(xml) and b"FMMARK" not in rest_s:
                fails.append(("XML does not hold exactly one empty front matter element", {"xml": hx(un(xml))}))
        for what, extra in fails:
            cs = dict(case, **extra)
            key = "bom_after_front_matter" if hasbom == "ok 1" else k
            e2e_fail[key] = e2e_fail.get(key, 0) + 1
            if hasbom == "ok 1":
                c.known_hit("bom_after_front_matter", cs)
            else:
                classify(d, f + r, what, cs, k)
    for cs in cr_state[:3]:
        c.known_hit("cm_line_state_after_cr_front_matter", cs)
    e2e_fail["cm_line_state_after_cr_front_matter"] = len(cr_state)
    c.cov["spec_checks"]["e2e: cm = fm ++ cm(rest); html = html(rest); sourcepos shifted; line log = line log(rest); xml one element"] = {"pairs": ne2e, "failed_clauses_by_class": e2e_fail}

    # look-alikes: the spec finds no front matter => everything renders as with no delimiter configured
    looks = []
    for _ in range(1200 if tier == "quick" else 12000):
        d = rng.choice(DELIMS[:4])
        f = fm_blocks(rng, d, 1)[0]
        r = rng.choice([b"text\n", docgen.gen_doc(rng).encode(), b"", d + b"\n"])
        e = b"\r\n" if b"\r\n" in f else (b"\r" if b"\r" in f else b"\n")
        body = f[len(d) + len(e):]
        kind = rng.randrange(9)
        if kind == 0:
            s = rng.choice([b"x\n", b"\n", b" ", b"x", b"\n\n", b"\t", BOM + BOM, b"> "]) + f + r          # not at the very start
        elif kind == 1:
            s = d + e + b"k: v" + e + r.replace(d, b"=")                                                    # unterminated
        elif kind == 2:
            s = d + rng.choice([b" x", b"x", b" ", b"\t", d[:1]]) + e + body + r.replace(d, b"=")            # opener not alone on its line
        elif kind == 3:
            s = d + e + b"k: v" + e + d + rng.choice([b" x", b"x", b" ", d[:1]]) + e + r.replace(d, b"=")    # closer not alone on its line
        elif kind == 4:
            s = d + e + b"k: v" + e + b" " + d + e + r.replace(d, b"=")                                      # indented closer
        elif kind == 5:
            s = d                                                                                           # delimiter only
        elif kind == 6:
            s = d + e                                                                                       # opener only
        elif kind == 7:
            s = d + d + e + body + r                                                                        # doubled opener
        else:
            s = f.replace(d, d[:-1] + b"=") + r.replace(d, b"=") if len(d) > 1 else b"x" + f
        o = docgen.gen_opts(rng, exclude=("front_matter_delimiter", "experimental_minimize_commonmark"), strings=False) if rng.random() < 0.5 else {}
        looks.append((d, s, o))
    sp = vlib.run_lines(drv, [f"spec_split {hx(d)} {hx(s)}" for d, s, o in looks])
    looks = [x for x, s_ in zip(looks, sp) if s_ == "none"]
    jobs = []
    for d, s, o in looks:
        w = docgen.opts_token(dict(o, front_matter_delimiter=d.decode()))
        wo = docgen.opts_token(o)
        jobs += [f"pipe {w} {hx(s)}", f"pipe {wo} {hx(s)}"]
    res = vlib.run_lines(vh, jobs)
    for i, (d, s, o) in enumerate(looks):
        c.count(b"look:" + d + s + docgen.opts_token(o).encode(), True)
        if res[2 * i] != res[2 * i + 1]:
            c.violation("text that only resembles front matter is not treated as ordinary Markdown (tree / HTML / XML / CommonMark differ from the run without a delimiter)",
                        {"delimiter": hx(d), "input": hx(s), "opts": docgen.opts_token(o), "with": res[2 * i][:2000], "without": res[2 * i + 1][:2000]})
    c.cov["spec_checks"]["look-alikes (spec_split = none): pipe with delimiter = pipe without"] = len(looks)

    # the witnesses of the repaired classes (known_findings status fixed: suppresses nothing), replayed on the
    # implementation: the split, the HTML and the HTML with sourcepos must be the recorded ones, and the recorded split
    # must be what the extracted specification and the model say
    import json as _json
    with open(vlib.os.path.join(vlib.ROOT, "known_findings.json")) as f:
        fixed = [e for e in _json.load(f)["findings"] if e["property"] == "C20" and e["status"] == "fixed" and isinstance(e.get("witness"), dict) and "expected_front_matter" in e["witness"]]
    rows = {}
    for e in fixed:
        w = e["witness"]
        d, x = unhx(w["delimiter"]), unhx(w["input"])
        want = "ok " + " ".join(hx(unhx(w[k])) for k in ("expected_front_matter", "expected_rest"))
        od = docgen.opts_token({"front_matter_delimiter": d.decode()})
        osp = docgen.opts_token({"front_matter_delimiter": d.decode(), "sourcepos": True})
        a, h, hsp = vlib.run_lines(vh, [f"split_fm {hx(d)} {hx(x)}", f"md html {od} {hx(x)}", f"md html {osp} {hx(x)}"])
        sp_, m_ = vlib.run_lines(drv, [f"spec_split {hx(d)} {hx(x)}", f"split_fm {hx(d)} {hx(x)}"])
        un = lambda r: (unhx(r.split()[1]).decode("utf-8", "replace") if len(r.split()) > 1 else "") if r.startswith("ok") else r
        got = {"split": a, "spec": sp_, "model": m_, "html": un(h), "html_sourcepos": un(hsp)}
        good = a == want and sp_ == want and m_ == want and got["html"] == w["expected_html"] and got["html_sourcepos"] == w["expected_html_sourcepos"]
        c.count(("fixed-witness:" + e["id"]).encode(), True)
        rows[e["class"]] = {"id": e["id"], "input": w["input"], "passes": good}
        if not good:
            c.violation(f"the witness of the repaired class {e['class']} ({e['id']}, {e.get('commit')}) is not split / rendered as recorded: the repair is missing from this tree or the defect has returned",
                        {"fn": "split_fm", "delimiter": w["delimiter"], "input": w["input"], "expected_split": want, "expected_html": w["expected_html"],
                         "expected_html_sourcepos": w["expected_html_sourcepos"], "observed": got, "line": f"split_fm {hx(d)} {hx(x)}"})
    if len(rows) != 4:
        c.problem("known_findings", "known_findings.C20.fixed", f"expected the four repaired classes with recorded witnesses, found {sorted(rows)}")
    c.cov["witnesses"] = rows

    c.cov["exhaustive"] = False
    c.cov["exhaustive_domain"] = ("leaf: the full product delimiters(5) x bodies of <= 4 (first delimiter) / <= 3 lines over the 7-line alphabet x 5 line-ending schemes x 4 endings x BOM "
                                 f"({n_exh} cases) is enumerated, plus random strings; end to end is sampled")
    c.cov["input_distribution"] = {"leaf_product": n_exh, "leaf_random": len(leaf) - n_exh, "e2e_pairs": ne2e, "look_alikes": len(looks)}
    c.cov["partial_clauses"] = [
        "the splitter is proved equal to the line-based spec for every str and every well-formed delimiter (C20_split_vs_spec); delimiters that are empty or contain CR / LF are outside the property's domain: for them only the model/implementation correspondence is checked",
        "'the rest renders as on its own, lines shifted' is observed end to end, not proved (Blocks_front_matter_factor is proved; the composition statement is not); fails when the rest begins with a BOM (F12)",
        "renderer clauses (absent from HTML, verbatim in CommonMark) are tied by translator shape checks of the three FrontMatter arms and observed end to end, not proved over a renderer model",
        "strings::count_line_endings has no hook of its own: its model is tied through the feed prologue (BLOCKS_TIE line numbers, the sourcepos clause of the end-to-end check incl. CR and mixed line endings) and its text is pinned by the translator"]
    c.assumptions = ["Model/FrontMatter.v is a hand transcription of split_off_front_matter / line_at / count_line_endings; their normalised bodies, trim_start_match, the feed prologue and the renderer arms are shape-checked on every run (translator item `frontmatter`)",
                     "Rust str slicing is modelled as char-boundary-checked skipn/firstn; byte-slice indexing as range-checked",
                     "spec: CommonMark line endings (LF, CRLF, lone CR); one blank line after the closer is accepted as part of the front matter (the documentation is silent on it)"]
    c.finish(rule="distinct by (kind, delimiter, input bytes, options); non-trivial = leaf: the implementation finds front matter; e2e and look-alike cases always",
             trusted_base=["Coq 8.16.1 kernel (vm_compute for the witness computations and 256-byte finite checks)", "no axioms (Print Assumptions: closed for every theorem)",
                           "tools/gen_model.py recogniser `frontmatter` (whole normalised function bodies)",
                           "extraction (ExtrOcamlBasic only) + ocaml/driver.ml", "harness/src (hex protocol, line log hook)"])
