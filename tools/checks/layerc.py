"""Layer C (parser models) as obligations of the property checks.

`blocks(c, tier, frac)` / `inlines(c, tier, frac)` add to check `c`: the translator items the parser model
reads, the theorems of coq/Props/Blocks.v / coq/Props/Inlines.v (compiled, Print Assumptions closed) and the
tie of Model/Blocks.v / Model/Inlines.v to the compiled parser on a `frac` share of the scopes of
blocks_tie / inlines_tie (the full scopes run in C04 thorough, BLOCKS_TIE and INLINES_TIE).  A property that
names a parser mechanism (C01 cursor, C04 containment, C08 line endings, C13 special characters, C20 front
matter) lists the theorem it relies on in its own Props file; this module makes the model those theorems
talk about an obligation of that check, so that a change of the parser which moves the model away from the
code is reported by the properties whose theorems would no longer be about the code."""
from checks import blocks_tie, inlines_tie

BLOCK_ITEMS = ["blocks", "nodes", "feed", "frontmatter", "scanners_re", "strleaf", "entities", "ctype"]


def blocks(c, tier, frac, proofs=True):
    c.phase_translator(BLOCK_ITEMS)
    if proofs:
        c.phase_proofs("Blocks")
    ok, counts = blocks_tie.tie_blocks(c, tier, frac=frac)
    return ok


def _unexamined(c):
    def f(o, md, detail, line):
        # a crash of parse_document is C01's business; here the case could not be examined
        c.cov["unexamined"] = c.cov.get("unexamined", 0) + 1
    return f


def inlines(c, tier, frac, proofs=True, profile="debug", on_impl_panic=None):
    c.phase_translator(inlines_tie.ITEMS)
    if proofs:
        c.phase_proofs("Inlines")
    if not c.phase_builds((profile,)):
        return False
    return inlines_tie.tie_inlines(c, tier, profile=profile, frac=frac, on_impl_panic=on_impl_panic or _unexamined(c))
