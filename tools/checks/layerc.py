"""Layer C (parser models) as obligations of the property checks.

`blocks(c, tier, frac)` / `inlines(c, tier, frac)` add to check `c`: the translator items the parser model
reads, the theorems of coq/Props/Blocks.v / coq/Props/Inlines.v (compiled, Print Assumptions closed) and the
tie of Model/Blocks.v / Model/Inlines.v to the compiled parser on a `frac` share of the scopes of
blocks_tie / inlines_tie (the full scopes run in C04 thorough, BLOCKS_TIE and INLINES_TIE).  A property that
names a parser mechanism (C01 cursor, C04 containment, C08 line endings, C13 special characters, C20 front
matter) lists the theorem it relies on in its own Props file; this module makes the model those theorems
talk about an obligation of that check, so that a change of the parser which moves the model away from the
code is reported by the properties whose theorems would no longer be about the code.

`whole(c, tier, frac)` does the same for the WHOLE parser as one function (coq/Model/Parse.v parse_document_model =
block phase + process_inlines + process_footnotes + postprocess_text_nodes): the translator items of the three models
and of the glue functions (parse_glue), the theorems of coq/Props/Parse.v (Parse_shape, Parse_C02, Parse_C10,
Parse_valid_partial, Parse_line_invariance ...: statements about the tree that ONE function of the input bytes returns)
and the end-to-end tie of that function to the compiled parse_document (tools/checks/parse_tie.py) on a `frac` share of
its scopes (the full scopes run in PARSE_TIE)."""
from checks import blocks_tie, inlines_tie, parse_tie

BLOCK_ITEMS = ["blocks", "nodes", "feed", "frontmatter", "scanners_re", "strleaf", "entities", "ctype"]


def blocks(c, tier, frac, proofs=True):
    c.phase_translator(BLOCK_ITEMS)
    if proofs:
        c.phase_proofs("Blocks")
    ok, counts = blocks_tie.tie_blocks(c, tier, frac=frac)
    return ok


def _unexamined(c):
    def f(o, md, detail, line):
        # a crash of parse_document is C01's business; here the case could not be examined
        c.cov["unexamined"] = c.cov.get("unexamined", 0) + 1
    return f


def inlines(c, tier, frac, proofs=True, profile="debug", on_impl_panic=None):
    c.phase_translator(inlines_tie.ITEMS)
    if proofs:
        c.phase_proofs("Inlines")
    if not c.phase_builds((profile,)):
        return False
    return inlines_tie.tie_inlines(c, tier, profile=profile, frac=frac, on_impl_panic=on_impl_panic or _unexamined(c))


def whole(c, tier, frac, proofs=True, profile="debug", more=False):
    c.phase_translator(parse_tie.ITEMS)
    if proofs:
        c.phase_proofs("Parse")
        if more:
            c.phase_proofs("ParseMore")   # the C08 rewrites, the links to ParserShapeAttach / final_tree
    return parse_tie.tie_parse(c, tier, frac=frac, profile=profile)
