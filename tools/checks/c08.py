"""C08 — output invariant under line-ending style, final newline, NUL, BOM.  Theorems: coq/Props/C08.v.
Tie: translator item `feed` (constants + text of the feed loop, process_line prologue, finish, budget,
single call site of feed / three of process_line) + correspondence feed.lines (the `lines` op = every
slice handed to process_line by the COMPILED parser, against the extracted model `feed_lines_res` and the
independent `spec_lines`).
Search on the implementation (metamorphic, end to end): html(x) == html(T x) for the rewrites T of
Spec/LineEndings.v (computed by the extracted Coq functions), on generated documents x options."""
import itertools, os, re
import vlib, docgen, shrink
from vlib import hx, unhx

BOM = b"\xef\xbb\xbf"
UNITS = [b"a", b"\n", b"\r", b"\x00", b" ", BOM]
FLOOR = 100000


def exhaustive(maxlen):
    out = []
    for n in range(maxlen + 1):
        for t in itertools.product(UNITS, repeat=n):
            out.append(b"".join(t))
    return out


def mixed_eol(rng, x):
    """x without CR: every LF independently becomes LF, CRLF or CR -- except that a bare CR is never put
    directly before an LF (CR LF would be ONE line ending where the original has two)"""
    out = bytearray()
    bare_cr = False
    for b in x:
        if b == 10:
            e = rng.choice([b"\r\n", b"\r"] if bare_cr else [b"\n", b"\r\n", b"\r", b"\r\n"])
            out += e
            bare_cr = e == b"\r"
        else:
            out.append(b)
            bare_cr = False
    return bytes(out)


def gen_docs(rng, n):
    docs = []
    for i in range(n):
        r = rng.random()
        if r < 0.62:
            d = docgen.gen_doc(rng)
        elif r < 0.74:
            # literal content with line endings inside: code blocks, HTML blocks, code spans, hard breaks
            d = rng.choice(["```\na\n\n  b\n```\n", "    code\n\n    more\n", "<pre>\nx\n\ny\n</pre>\n\npara", "`a\nb` c  \nd\\\ne", "<div>\nline\n</div>",
                            "> q\n> r\n\n- a\n\n  b\n- c", "| a | b |\n|---|---|\n| c | d |\n", "[r]: /u\n 'ti\ntle'\n\n[r]", "a\n===\n\nb\n---\n", "$$\nx\ny\n$$\n",
                            "<!-- c\n\nd -->\nx", "~~~ info\n\n\n~~~", "* a\n\n\n* b", "x[^1]\n\n[^1]: a\n\n    b\n"]) + rng.choice(["", "\n", docgen.gen_doc(rng, 1)])
        elif r < 0.84:
            d = docgen.gen_malformed(rng)
        elif r < 0.92:
            # front matter, with a matching delimiter more often than not
            dl = rng.choice(["---", "+++", "-"])
            d = f"{dl}\n" + rng.choice(["title: x\n", "", "a\n\nb\n", "t: 1\n---x\n", "\n"]) + dl + rng.choice(["\n", "\n\n", "", "\n\n\n"]) + docgen.gen_doc(rng, rng.choice([1, 2]))
        else:
            d = docgen.gen_doc(rng)
            # sprinkle NUL
            k = rng.choice([1, 1, 2, 5])
            for _ in range(k):
                p = rng.randrange(0, len(d) + 1)
                d = d[:p] + "\x00" + d[p:]
        if rng.random() < 0.12:
            d = d.rstrip("\n")
        docs.append(d.encode("utf-8"))
    return docs


SP_RE = re.compile(rb' data-sourcepos="\d+:\d+-\d+:\d+"')


def strip_sourcepos(html):
    """delete the data-sourcepos attributes the renderer writes under options.render.sourcepos"""
    return SP_RE.sub(b"", html)


def html_line(opts, x):
    return f"md html {docgen.opts_token(opts)} {hx(x)}"


def main(tier):
    c = vlib.Check("C08", tier)
    rng = c.rng
    c.phase_translator(["feed"])
    c.phase_proofs()
    if not c.phase_builds(("debug",)):
        c.finish(rule="build failed")
    vh, drv = vlib.VH["debug"], vlib.DRIVER
    quick = tier == "quick"
    # the block phase: Blocks_line_invariance / _crlf / _cr / _final_newline / _nul (Props/Blocks.v) carry the
    # line-splitter theorems through process_line to the block tree; the model they talk about is tied here
    from checks import layerc
    layerc.blocks(c, tier, 0.3 if quick else 0.15, proofs=not quick)   # quick: the whole-parser forms Parse_crlf / _cr / _final_newline / _nul (Props/ParseMore.v) are the obligations
    # the whole pipeline up to the tree: Parse_line_invariance / Parse_crlf / Parse_cr / Parse_final_newline / Parse_nul
    # (Props/Parse.v) about Model/Parse.v parse_document_model, tied end to end to parse_document here
    layerc.whole(c, tier, 0.25 if quick else 0.15, more=True)

    # ================================================================== correspondence feed.lines
    exh = exhaustive(6 if quick else 7)
    ndocs = 1500 if quick else 12000
    docs = gen_docs(rng, ndocs)
    info = vlib.run_lines(drv, [f"c08_info {hx(d)}" for d in docs])
    variants = []   # (doc index, rewrite name, rewritten bytes)
    meta = []
    for i, (d, inf) in enumerate(zip(docs, info)):
        t = inf.split(" ")
        if t[0] != "ok" or len(t) != 9:
            c.problem("correspondence", "driver.c08_info", f"doc={hx(d)} got={inf[:200]}", {"line": f"c08_info {hx(d)}"})
            meta.append(None)
            continue
        m = {"no_cr": t[1] == "1", "ends_nl": t[2] == "1", "has_bom": t[3] == "1", "crlf": unhx(t[4]), "cr": unhx(t[5]),
             "final_nl": unhx(t[6]), "nul": unhx(t[7]), "bom": unhx(t[8])}
        meta.append(m)
        if m["no_cr"]:
            variants.append((i, "to_crlf", m["crlf"]))
            variants.append((i, "to_cr", m["cr"]))
            variants.append((i, "mixed", mixed_eol(rng, d)))
        if d and not m["ends_nl"]:
            variants.append((i, "add_final_nl", m["final_nl"]))
        variants.append((i, "nul_to_fffd", m["nul"]))
        variants.append((i, "prepend_bom", m["bom"]))
    # python cross-check of the extracted rewrites (catches a driver/extraction slip, not the code)
    for i, d in enumerate(docs):
        m = meta[i]
        if m is None:
            continue
        if m["crlf"] != d.replace(b"\n", b"\r\n") or m["cr"] != d.replace(b"\n", b"\r") or m["nul"] != d.replace(b"\x00", b"\xef\xbf\xbd") \
                or m["bom"] != BOM + d or m["final_nl"] != d + b"\n" or m["no_cr"] != (b"\r" not in d) or m["ends_nl"] != d.endswith(b"\n"):
            c.problem("correspondence", "driver.rewrites", f"extracted rewrite differs from the obvious one on {hx(d)}", {"line": f"c08_info {hx(d)}"})

    corr_inputs = exh + docs + [v[2] for v in variants]
    n_exh = len(exh)
    # option independence of the splitter: random options (never front matter, which the model does not cover)
    optsl = ["-"] * n_exh + [docgen.opts_token(docgen.gen_opts(rng, exclude=("front_matter_delimiter",))) if rng.random() < 0.3 else "-"
                             for _ in range(len(corr_inputs) - n_exh)]
    impl = vlib.run_lines(vh, [f"lines {o} {hx(s)}" for o, s in zip(optsl, corr_inputs)])
    model = vlib.run_lines(drv, [f"feed_lines {hx(s)}" for s in corr_inputs])
    spec = vlib.run_lines(drv, [f"spec_lines {hx(s)}" for s in corr_inputs])
    agree = 0
    impl_lines = {}
    for s, o, a, m, sp in zip(corr_inputs, optsl, impl, model, spec):
        c.count(b"lines:" + s, any(ch in s for ch in b"\r\n\x00") or s.startswith(BOM))
        mt = m.split(" ")
        m_lines = "ok" + "".join(" " + t for t in mt[2:]) if mt[0] == "ok" else m
        if a != m_lines or (mt[0] == "ok" and int(mt[1]) != len(s)):
            c.problem("correspondence", "feed.lines", f"input={hx(s)} opts={o} impl={a[:300]} model={m[:300]}",
                      {"line": f"lines {o} {hx(s)}", "model_line": f"feed_lines {hx(s)}", "impl": a, "model": m})
            # a disagreement with the CommonMark definition of a line is a failing input of the property itself
            if a != sp:
                c.violation("the lines handed to the block parser are not the CommonMark lines of the text (2.1 line endings, 2.3 NUL replacement)",
                            {"line": f"lines {o} {hx(s)}", "input": hx(s), "observed": a, "required": sp})
        else:
            agree += 1
        impl_lines[s] = a
    c.cov["correspondences"]["feed.lines"] = {"cases": len(corr_inputs), "agree": agree, "exhaustive_units_le": 6 if quick else 7, "exhaustive_cases": n_exh,
                                              "documents": len(docs), "rewritten_copies": len(variants)}
    c.cov["samples"].append({"op": "lines", "input": hx(corr_inputs[n_exh + 3]), "impl": impl[n_exh + 3][:400]})

    # ---- the line-level clauses of the theorems evaluated on the IMPLEMENTATION's lines
    nclean = 0
    cl_in, cl_ix = [], []
    for s in exh:
        a = impl_lines[s]
        if a.startswith("ok"):
            for t in a.split(" ")[1:]:
                cl_in.append(f"clean_line {t}")
                cl_ix.append(s)
    res = vlib.run_lines(drv, cl_in)
    for s, l, r in zip(cl_ix, cl_in, res):
        nclean += 1
        if r != "ok 1":
            c.violation("a line handed to the block parser contains CR, LF or NUL", {"input": hx(s), "line": f"lines - {hx(s)}", "slice": l})
    c.cov["spec_checks"]["clean_line(every slice of impl lines), exhaustive inputs"] = nclean
    nl = 0
    for i, name, tx in variants:
        if name == "prepend_bom":
            continue
        a, b = impl_lines.get(docs[i]), impl_lines.get(tx)
        nl += 1
        if a != b:
            c.violation(f"lines({name} x) differ from lines(x) on the implementation", {"rewrite": name, "input": hx(docs[i]), "rewritten": hx(tx),
                                                                                        "line": f"lines - {hx(tx)}", "observed": b, "required": a})
    # same on the exhaustive set, with the rewrites done here (they were cross-checked above)
    for s in exh:
        pairs = [("nul_to_fffd", s.replace(b"\x00", b"\xef\xbf\xbd"))]
        if b"\r" not in s:
            pairs += [("to_crlf", s.replace(b"\n", b"\r\n")), ("to_cr", s.replace(b"\n", b"\r"))]
        if s and not s.endswith(b"\n"):
            pairs.append(("add_final_nl", s + b"\n"))
        for name, tx in pairs:
            if tx in impl_lines:
                nl += 1
                if impl_lines[tx] != impl_lines[s]:
                    c.violation(f"lines({name} x) differ from lines(x) on the implementation", {"rewrite": name, "input": hx(s), "rewritten": hx(tx),
                                                                                                "line": f"lines - {hx(tx)}", "observed": impl_lines[tx], "required": impl_lines[s]})
    c.cov["spec_checks"]["impl lines(T x) == impl lines(x), T in to_crlf/to_cr/mixed/add_final_nl/nul_to_fffd"] = nl

    # ================================================================== correspondence process_line.bom_offset
    # the mark is skipped on the first line only: model bom_offset(line_number, line) against what the compiled parser
    # shows -- a mark at the start of line n+1 (n lines before it) is absent from the HTML iff the model skips it
    bo_cases = []   # (text before the line, the line, number of lines before it)
    for body in (b"b", b"# h", b"> q", b"- i", b"", b"\xef\xbb\xbfz", b"    c"):
        for pre, n in ((b"", 0), (b"\n", 1), (b"x\n", 1), (b"x\n\n", 2), (b"\n\n\n", 3), (b"> q\n\n- i\n\n", 4)):
            if n == 0 and body.startswith(BOM):
                continue    # the reference text (line without its first mark) would itself start with a mark on line 1
            bo_cases.append((pre, BOM + body + b"\n", n))
    bo_impl = vlib.run_lines(vh, [f"md html - {hx(p + l)}" for p, l, _ in bo_cases])
    bo_model = vlib.run_lines(drv, [f"bom_offset {n} {hx(l)}" for _, l, n in bo_cases])
    bo_ref = vlib.run_lines(vh, [f"md html - {hx(p + l[3:])}" for p, l, _ in bo_cases])
    bo_agree = 0
    for (p, l, n), a, m, r in zip(bo_cases, bo_impl, bo_model, bo_ref):
        c.count(b"bom_offset:" + p + l, n > 0)
        # model says 3: the line is read as if the mark were not there; model says 0: the mark is content and changes the output
        skipped = a == r
        if not a.startswith("ok ") or m not in ("ok 0", "ok 3") or skipped != (m == "ok 3"):
            c.problem("correspondence", "process_line.bom_offset", f"line_number={n} input={hx(p + l)} impl={a[:200]} without_mark={r[:200]} model={m}",
                      {"line": f"md html - {hx(p + l)}", "model_line": f"bom_offset {n} {hx(l)}", "impl": a, "model": m})
        else:
            bo_agree += 1
    c.cov["correspondences"]["process_line.bom_offset"] = {"cases": len(bo_cases), "agree": bo_agree}

    # ================================================================== metamorphic search, end to end
    fixed = [  # (document, options): witnesses of the known classes and small regression inputs, every run
        (b"\xef\xbb\xbf", {}), (b"# hi\n", {"sourcepos": True}), (b"---\nfm\n---\ntext\n", {"front_matter_delimiter": "---"}),
        (b"", {}), (b"a", {}), (b"a\x00b", {}), (b"\x00", {}), (b"```\na\n\nb\n```", {}), (b"a  \nb\\\nc `d\ne`", {"hardbreaks": True}),
        (b"<pre>\na\n\nb</pre>", {"unsafe": True}), (b"- a\n\n  b\n1. c", {"sourcepos": True}), (b"\ta\n\n    b", {}), (b"\n\n", {}), (b"\n", {}),
    ]
    jobs = []   # (x, opts, name, tx)
    per_doc_opts = 1 if quick else 2
    work = [(d, meta[i], None) for i, d in enumerate(docs)] + [(d, None, o) for d, o in fixed]
    fixed_info = vlib.run_lines(drv, [f"c08_info {hx(d)}" for d, _ in fixed])
    for k, (d, m, fo) in enumerate(work):
        if m is None and fo is not None:
            t = fixed_info[k - len(docs)].split(" ")
            m = {"no_cr": t[1] == "1", "ends_nl": t[2] == "1", "has_bom": t[3] == "1", "crlf": unhx(t[4]), "cr": unhx(t[5]),
                 "final_nl": unhx(t[6]), "nul": unhx(t[7]), "bom": unhx(t[8])}
        if m is None:
            continue
        for _ in range(1 if fo is not None else per_doc_opts):
            if fo is not None:
                o = fo
            else:
                force = None
                # a document that opens with a front matter delimiter gets the matching option half of the time
                fm = re.match(rb"(?:\xef\xbb\xbf)?(---|\+\+\+|-)\n", d)
                if fm and rng.random() < 0.6:
                    force = {"front_matter_delimiter": fm.group(1).decode()}
                o = docgen.gen_opts(rng, force=force, exclude=("experimental_minimize_commonmark",))
            if m["no_cr"]:
                jobs.append((d, o, "to_crlf", m["crlf"]))
                jobs.append((d, o, "to_cr", m["cr"]))
                # mixed endings inside front matter too: since the repair of the splitter (known_findings C20 F9/F11, fixed)
                # front matter is cut by lines whatever their endings
                jobs.append((d, o, "mixed", mixed_eol(rng, d)))
            if not m["ends_nl"]:
                jobs.append((d, o, "add_final_nl", m["final_nl"]))   # the empty text included: the property text has no exception for it
            jobs.append((d, o, "nul_to_fffd", m["nul"]))
            jobs.append((d, o, "prepend_bom", m["bom"]))
    # F18 witness: one definition of 1000 bytes, 105 uses, > 50000 line feeds: the LF text stays under the floor, its CRLF copy does not
    big = b"[a]: /" + b"u" * 994 + b"\n" + b"\n" * 60000 + b"[a]\n" * 105
    jobs.append((big, {}, "to_crlf", big.replace(b"\n", b"\r\n")))

    base_keys, base_lines = {}, []
    for x, o, _, _ in jobs:
        k = (docgen.opts_token(o), x)
        if k not in base_keys:
            base_keys[k] = len(base_lines)
            base_lines.append(html_line(o, x))
    base_out = vlib.run_lines(vh, base_lines)
    var_out = vlib.run_lines(vh, [html_line(o, tx) for _, o, _, tx in jobs])
    stats = {}
    pending_known = []   # (class, job, outputs) needing the second-level test
    for (x, o, name, tx), vo in zip(jobs, var_out):
        bo = base_out[base_keys[(docgen.opts_token(o), x)]]
        changed = tx != x
        c.count(name.encode() + b"|" + docgen.opts_token(o).encode() + b"|" + x, changed)
        st = stats.setdefault(name, {"cases": 0, "input_changed": 0, "identical_html": 0})
        st["cases"] += 1
        st["input_changed"] += 1 if changed else 0
        if not bo.startswith("ok ") or not vo.startswith("ok "):
            if bo != vo:
                c.violation(f"parse/render does not return normally on x or on {name} x", {"rewrite": name, "opts": o, "input": hx(x), "rewritten": hx(tx),
                                                                                          "line": html_line(o, tx), "observed": vo[:400], "base": bo[:400]})
            continue
        if bo == vo:
            st["identical_html"] += 1
            continue
        case = {"rewrite": name, "opts": o, "input": hx(x), "rewritten": hx(tx), "line": html_line(o, tx), "base_line": html_line(o, x),
                "observed": vo[:2000], "required": bo[:2000]}
        hb, hv = unhx(bo[3:]), unhx(vo[3:])
        # ---- known classes (decidable predicates; anything outside them is a violation)
        if len(x) > FLOOR or len(tx) > FLOOR:
            pending_known.append(("ref_budget_above_floor", case, tx))
            continue
        if name == "prepend_bom" and x.startswith(BOM):
            pending_known.append(("bom_on_bom", case, x))
            continue
        if name == "prepend_bom" and o.get("sourcepos") and strip_sourcepos(hv) == strip_sourcepos(hb):
            c.known_hit("bom_sourcepos", case)
            continue
        c.violation(f"html({name} x) != html(x)", case)

    # the byte predicates of the classes are the extracted Coq ones
    q = [("known_above_floor", t) for cl, _, t in pending_known if cl == "ref_budget_above_floor"] + \
        [("known_bom_on_bom", t) for cl, _, t in pending_known if cl == "bom_on_bom"]
    qa = dict(zip(q, vlib.run_lines(drv, [f"{fn} {hx(t)}" for fn, t in q])))
    for cl, case, t in pending_known:
        if cl == "ref_budget_above_floor":
            if qa.get(("known_above_floor", t)) == "ok 1":
                c.known_hit(cl, {k: (v if len(str(v)) < 300 else str(v)[:300] + "...") for k, v in case.items()})
            else:
                c.violation(f"html({case['rewrite']} x) != html(x)", case)
        elif cl == "bom_on_bom":
            if qa.get(("known_bom_on_bom", t)) == "ok 1":
                c.known_hit(cl, case)
            else:
                c.violation("html(prepend_bom x) != html(x)", case)

    # repaired classes (status fixed suppresses nothing): the recorded witness is replayed and must render as recorded
    import json as _json
    with open(vlib.os.path.join(vlib.ROOT, "known_findings.json")) as f:
        fixed = [e for e in _json.load(f)["findings"] if e["property"] == "C08" and e["status"] == "fixed" and isinstance(e.get("witness"), dict) and "expected_html" in e["witness"]]
    rows = []
    for e in fixed:
        w = e["witness"]
        x = unhx(w["input"])
        tx = {"to_cr": x.replace(b"\n", b"\r"), "to_crlf": x.replace(b"\n", b"\r\n")}[w["rewrite"]]
        for okey, hkey in (("opts", "expected_html"), ("opts_sourcepos", "expected_html_sourcepos")):
            if okey not in w:
                continue
            outs = vlib.run_lines(vh, [f"md html {w[okey]} {hx(y)}" for y in (x, tx)])
            got = [unhx(a.split(" ")[1]).decode("utf-8", "replace") if a.startswith("ok ") and len(a.split(" ")) > 1 else a for a in outs]
            c.count(("fixed-witness:" + e["id"] + okey).encode(), True)
            good = got[0] == w[hkey] and got[1] == w[hkey]
            rows.append({"id": e["id"], "class": e["class"], "opts": w[okey], "passes": good})
            if not good:
                c.violation(f"the witness of the repaired class {e['class']} ({e['id']}, {e.get('commit')}) does not render as recorded: the repair is missing from this tree or the defect has returned",
                            {"rewrite": w["rewrite"], "opts": w[okey], "input": w["input"], "rewritten": hx(tx), "expected_html": w[hkey], "observed_html_x": got[0][:600], "observed_html_rewritten": got[1][:600],
                             "line": f"md html {w[okey]} {hx(tx)}"})
    c.cov["spec_checks"]["witnesses of repaired classes render as recorded"] = rows
    c.cov["metamorphic"] = stats
    c.cov["spec_checks"]["impl html(T x) == impl html(x) (byte identity) outside the known classes"] = len(jobs)
    c.cov["samples"].append({"op": "md html", "rewrite": jobs[0][2], "opts": docgen.opts_token(jobs[0][1]), "input": hx(jobs[0][0]), "rewritten": hx(jobs[0][3]), "html": var_out[0][:300]})

    # shrink the first violation's document (same options, same rewrite) for a readable replay
    for v in c.violations[:2]:
        cs = v["case"]
        if "rewrite" in cs and "opts" in cs and v["what"].startswith("html("):
            try:
                v["case"]["shrunk"] = _shrink(vh, drv, cs)
            except Exception as e:  # shrinking is a convenience
                v["case"]["shrunk"] = f"shrink failed: {e}"

    feats = {}
    for d in docs:
        for k, n in docgen.feature_counts(d.decode("utf-8")).items():
            feats[k] = feats.get(k, 0) + n
    c.cov["exhaustive"] = True
    c.cov["exhaustive_domain"] = (f"feed.lines: all {n_exh} strings of at most {6 if quick else 7} units over the alphabet a, LF, CR, NUL, space, BOM (3 bytes); "
                                  "documents and the metamorphic search are generated, not exhaustive")
    c.cov["input_distribution"] = {"documents": len(docs), "rewritten_copies": len(variants), "metamorphic_pairs": len(jobs), "fixed_inputs": len(fixed),
                                   "constructs_in_documents": feats, "doc_len_hist": _hist([len(d) for d in docs])}
    c.cov["partial_clauses"] = [
        "equal lines + equal budget => equal TREE is proved for the whole parser as one function (Props/Parse.v Parse_line_invariance: without a front matter delimiter, lines x = lines y and max_ref_size(total_size x) = max_ref_size(total_size y) give parse_document_model o u x = parse_document_model o u y; Parse_crlf / _cr / _final_newline / _nul instantiate it; the model is tied end to end to parse_document, correspondence parser.whole); equal tree => equal HTML holds for the HTML renderer MODEL (a function of the tree and the options), whose tie to format_html is C02/C10's; the end-to-end HTML identity is still checked by the metamorphic search",
        "empty text vs one line feed: different line sequences (C08_lines_final_nl_refuted); the HTML identity is observed only",
        "BOM: proved that the block parser reads the same bytes from the first line's starting offset (C08_seen_lines_bom_partial); that offset 3 behaves like a stripped prefix inside the block parser is observed only; refuted for texts that already start with a mark (class bom_on_bom) and the sourcepos columns count the mark (class bom_sourcepos)",
        "front matter is outside the model of this property (C20 proves the splitter is the line-based specification for LF, CR LF and bare CR; the former class front_matter_cr_only, DESIGN F11, is repaired and its witness is replayed)",
        "documents longer than the reference budget floor: precondition of the factorisation theorems (class ref_budget_above_floor, DESIGN F18)",
    ]
    c.assumptions = [
        "Model/Feed.v is a hand transcription of Parser::feed / finish / the process_line prologue; the text of the loop and the constants are re-read from src/parser/mod.rs and src/strings.rs on every run (translator item `feed`)",
        "single buffer, eof = true, fresh parser (the only way parse_document calls feed; call sites counted by the translator)",
        "inputs are valid UTF-8 (parse_document takes &str)",
    ]
    c.finish(rule="feed.lines: distinct by input bytes, non-trivial = the input contains CR, LF or NUL or starts with a BOM; metamorphic: distinct by (rewrite, options, document), non-trivial = the rewrite changes the document",
             trusted_base=["Coq 8.16.1 kernel (vm_compute in two closed examples)", "no axioms (Print Assumptions: closed for every theorem)",
                           "tools/gen_model.py item `feed` (text comparison of the normalised loop)", "the guarded log hook at the top of process_line (crate::verif::log_line)",
                           "extraction (ExtrOcamlBasic only) + ocaml/d_feed.ml", "harness/src (hex protocol, lines / md ops)"])


def _shrink(vh, drv, cs):
    x = unhx(cs["input"]).decode("utf-8")
    o, name = cs["opts"], cs["rewrite"]
    key = {"to_crlf": 4, "to_cr": 5, "add_final_nl": 6, "nul_to_fffd": 7, "prepend_bom": 8}

    def fails(s):
        b = s.encode("utf-8")
        if name == "mixed":
            tx = b.replace(b"\n", b"\r")
            if b"\r" in b:
                return False
        else:
            t = vlib.run_one(drv, f"c08_info {hx(b)}").split(" ")
            if name in ("to_crlf", "to_cr") and t[1] != "1":
                return False
            if name == "add_final_nl" and t[2] == "1":
                return False
            tx = unhx(t[key[name]])
        a = vlib.run_one(vh, html_line(o, b))
        v = vlib.run_one(vh, html_line(o, tx))
        return a != v
    if not fails(x):
        return "not reproducible with a uniform rewrite"
    s = shrink.ddmin(x, fails)
    o2 = shrink.shrink_opts(o, lambda oo: _fails_with(vh, drv, s, oo, name, key))
    return {"input": hx(s.encode("utf-8")), "opts": o2}


def _fails_with(vh, drv, s, o, name, key):
    b = s.encode("utf-8")
    if name == "mixed":
        tx = b.replace(b"\n", b"\r")
    else:
        tx = unhx(vlib.run_one(drv, f"c08_info {hx(b)}").split(" ")[key[name]])
    return vlib.run_one(vh, html_line(o, b)) != vlib.run_one(vh, html_line(o, tx))


def _hist(xs):
    h = {}
    for x in xs:
        k = "0" if x == 0 else ("1-8" if x <= 8 else "9-55" if x <= 55 else "56-255" if x <= 255 else "256-1023" if x <= 1023 else "1024+")
        h[k] = h.get(k, 0) + 1
    return h
