"""C05 — rendering is a deterministic pure function of input and options.
Theorems: coq/Props/C05.v (attribute order of code blocks and footnote order are independent of hash
iteration order in the models; audits: the hash-ordered iteration sites and the global-state
declarations of src/ are exactly the examined ones).  Tie: translator item `determinism` (audits
regenerated from src/ on every run) + render.html correspondence (the model is a function of
(options, tree): any hidden input shows as a mismatch).  Search on the implementation (op `det`):
the same input rendered three times on one tree, then parsed and rendered on 8 threads sharing one
Options/Plugins (with and without the SyntectAdapter), and in 3 separate processes; all outputs
must be byte-identical."""
import subprocess
import vlib, docgen, e2e
from vlib import hx
from checks import htmlfam


def attr_heavy(rng):
    langs = ["rust", "c++", "", "math", "a\"b", "python x=y z", "rust meta more", "js {1,2}"]
    parts = []
    for _ in range(rng.choice([1, 2, 4])):
        k = rng.random()
        if k < 0.5:
            parts.append(f"``` {rng.choice(langs)}\nfn main() {{}}\n```\n")
        elif k < 0.7:
            parts.append("x[^b] y[^a] z[^b]\n\n[^a]: A\n\n[^b]: B\n\n[^c]: C\n")
        elif k < 0.85:
            parts.append("# T\n\n# T\n\n## t\n")
        else:
            parts.append(docgen.gen_doc(rng, 2))
    return "\n".join(parts)


def det_opts(rng):
    o = docgen.gen_opts(rng)
    for k in ("github_pre_lang", "full_info_string", "sourcepos", "footnotes"):
        if rng.random() < 0.6:
            o[k] = True
    o.pop("experimental_minimize_commonmark", None)
    return o


def main(tier):
    c = vlib.Check("C05", tier)
    c.phase_translator(["determinism"])
    c.phase_proofs()
    n = 1500 if tier == "quick" else 15000
    recs = htmlfam.tie_html(c, n, 200 if tier == "quick" else 2000, opts_fn=det_opts)
    if recs is None:
        c.finish(rule="build failed")
    rng = c.rng
    cases = [(attr_heavy(rng) if rng.random() < 0.6 else docgen.gen_doc(rng), det_opts(rng)) for _ in range(n)]
    # the experimental CommonMark minimiser keeps per-call state of its own: short documents with removable escapes
    # (it re-parses the document once per backslash, so they are kept short)
    for d in ["\\_\\_hi\n", "a \\* b \\_ c\n", "1\\. x\n", "\\# h\n", "plain\n", "- \\- a\n\n> \\> b\n", "x \\[y\\] z\n", "```\ncode\n```\n\n\\~ t\n"]:
        for extra in ({}, {"sourcepos": True}, {"width": 20}, {"strikethrough": True, "table": True}):
            cases.append((d, dict(extra, experimental_minimize_commonmark=True)))
    # fenced blocks whose language token the highlighter does not know (the syntax is then guessed from the first line)
    for d in ["```myscript\nplain text\n```\n", "```x\nno shebang\n```\n", "```myscript\n#!/bin/bash\nls\n```\n\n```myscript\nplain\n```\n"]:
        for extra in ({}, {"github_pre_lang": True}, {"full_info_string": True, "sourcepos": True}):
            cases.append((d, dict(extra)))
    lines = []
    for d, o in cases:
        r = rng.random()
        syn = " syn" if r < 0.4 else " css" if r < 0.7 else ""
        lines.append(f"det {docgen.opts_token(o)} {hx(d)}{syn}")
    # three separate processes (fresh hash seeds, fresh address space) per shard
    runs = [vlib.run_lines(vlib.VH["debug"], lines, timeout=900) for _ in range(3)]
    ndiff = 0
    for i, ((d, o), l) in enumerate(zip(cases, lines)):
        c.count(("det:" + l), "```" in d or "[^" in d or "#" in d)
        a = runs[0][i]
        if not a.startswith("ok "):
            # crashes belong to C01; a case that cannot be rendered cannot be compared
            c.cov["unexamined"] = c.cov.get("unexamined", 0) + 1
            continue
        if a.startswith("ok DIFF"):
            ndiff += 1
            c.violation("outputs of repeated / concurrent renderings of the same input differ within one process (" + a[8:] + ")",
                        {"doc": hx(d), "opts": docgen.opts_token(o), "line": l, "observed": a})
            continue
        for k in (1, 2):
            if runs[k][i] != a:
                ndiff += 1
                c.violation("outputs differ between separate processes", {"doc": hx(d), "opts": docgen.opts_token(o), "line": l, "run0": a, f"run{k}": runs[k][i]})
                break
    c.cov["spec_checks"]["det: 3 renderings of one tree + the same input again after five other documents + 8 fresh threads x 2 sharing Options/Plugins (40% themed SyntectAdapter, 30% CSS-class SyntectAdapter) x 3 processes, html+xml+cm"] = len(cases)
    c.cov["samples"].append({"line": lines[0][:300], "fingerprint": runs[0][0]})
    c.cov["partial_clauses"] = ["thread interleavings and process runs are observed, not proved; data races inside third-party plugins cannot be exhibited by the model",
                                "Send + Sync bounds of callbacks and adapters are compile-time facts of the crate"]
    c.assumptions = ["std HashMap iteration order is the only hash-seed dependent behaviour (RandomState); audited sites are listed in Props/C05.v"]
    c.finish(rule="distinct by (options, document, highlighter flag); non-trivial = the document has a fenced code block, a footnote or a heading (the constructs whose rendering goes through a map or set)",
             trusted_base=htmlfam.TRUSTED + ["harness/src/ops_det.rs (thread scope, fingerprints)"])
