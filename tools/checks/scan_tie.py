"""SCAN_TIE — Layer C, first brick: the re2c scanners (src/scanners.re -> src/scanners.rs).

Theorems: coq/Props/Scanners.v (regex engine correctness, facts about individual scanners).
Tie: translator item `scanners_re` (scanners.re -> Gen/ScannersRe.v, fails on anything unrecognised) +
correspondence scanner.<fn> between the COMPILED scanner (verif hook comrak::verif::scanners) and the
Coq model Model/Scan.v (extracted), for every scanner:
  * the bytes are partitioned by the boundaries of every byte range that occurs in the scanner's rules
    (classes after UTF-8 expansion, literals in both cases); one representative per part, plus whole
    multi-byte characters (2, 3, 4 bytes; the code points next to the surrogate gap and to U+10FFFF),
    ill-formed sequences (overlong, surrogate, > U+10FFFF) and lone invalid bytes;
  * every string of up to N symbols over that alphabet (N = 4 quick, 5 thorough; sampled down to CAP when larger);
  * strings generated from the rules (random derivations of the regular expressions), and truncations,
    byte mutations, insertions, deletions and extensions of them; a few long lines.
`tie_scanners(c, tier)` can be called from another check; `./check SCAN_TIE quick` runs it alone."""
import itertools
import os
import sys

import vlib
from vlib import hx

sys.path.insert(0, os.path.dirname(os.path.dirname(os.path.abspath(__file__))))

MULTI = ["é".encode(), "߿".encode(), "ࠀ".encode(), "漢".encode(), b"\xed\x9f\xbf", b"\xee\x80\x80", b"\xef\xbf\xbd",
         "😀".encode(), b"\xf0\x90\x80\x80", b"\xf4\x8f\xbf\xbf", b"\xc2\x80"]
ILL = [b"\xc0\x80", b"\xe0\x80\x80", b"\xed\xa0\x80", b"\xf4\x90\x80\x80", b"\xf0\x80\x80\x80", b"\xc3", b"\xe6\xbc", b"\xf0\x9f\x98"]


def _gm():
    import gen_model
    return gen_model


def expand(x, defs):
    """inline named definitions"""
    k = x[0]
    if k == "ref":
        return expand(defs[x[1]], defs)
    if k in ("cat", "alt"):
        return (k, [expand(y, defs) for y in x[1]])
    if k in ("star", "plus", "opt"):
        return (k, expand(x[1], defs))
    if k in ("pow", "atleast"):
        return (k, x[1], expand(x[2], defs))
    if k == "rep":
        return (k, x[1], x[2], expand(x[3], defs))
    return x


def byte_ranges(x, gm, acc):
    for y in gm.scre_walk(x):
        if y[0] == "cls":
            for sq in gm.scre_cls_seqs(y):
                for pos in sq:
                    acc.update(pos)
        elif y[0] == "lit":
            for b in y[1]:
                for v in {b, ord(chr(b).lower()), ord(chr(b).upper())}:
                    acc.add((v, v))


def representatives(ranges, ascii_only=False):
    """one byte per class of bytes that belong to exactly the same ranges"""
    rl = sorted(ranges)
    seen = {}
    for b in range(128 if ascii_only else 256):
        sig = tuple(lo <= b <= hi for lo, hi in rl)
        seen.setdefault(sig, b)
    reps = sorted(seen.values())
    if not ascii_only:
        # fixed extra bytes: continuation / never-valid bytes
        for extra in (0x80, 0xBF, 0xC0, 0xF5, 0xFF):
            if extra not in reps:
                reps.append(extra)
    else:
        for extra in (0, 10):
            if extra not in reps:
                reps.append(extra)
    return sorted(reps)


SC_LOCK = None


def build_harness_sc():
    """the second harness (comrak built with the `shortcodes` feature), for the scanner `shortcode`"""
    import shutil
    with vlib.Lock("cargo"):
        hdir = os.path.join(vlib.ROOT, "harness_sc")
        lock = os.path.join(hdir, "Cargo.lock")
        if not os.path.exists(lock):
            shutil.copy(os.path.join(vlib.REPO, "Cargo.lock"), lock)
        cmd = ["cargo", "build", "--offline", "--bin", "vh_sc"]
        env = dict(vlib.ENV)
        env["CARGO_TARGET_DIR"] = os.path.join(vlib.CACHE, "target-sc")
        rc, out = vlib.run(cmd, cwd=hdir, timeout=1800, env=env)
        if rc != 0:
            shutil.copy(os.path.join(vlib.REPO, "Cargo.lock"), lock)
            rc, out = vlib.run(cmd, cwd=hdir, timeout=1800, env=env)
        return rc == 0, out, os.path.join(vlib.CACHE, "target-sc", "debug", "vh_sc")


def gen_from(x, rng, gm, depth=0):
    """a random string matched by x"""
    k = x[0]
    if k == "cls":
        seqs = gm.scre_cls_seqs(x)
        # prefer ASCII members, sometimes multi-byte ones
        sq = seqs[0] if (rng.random() < 0.8 or len(seqs) == 1) else rng.choice(seqs)
        out = bytearray()
        for pos in sq:
            lo, hi = rng.choice(pos)
            if rng.random() < 0.5:
                out.append(rng.choice([lo, hi]))
            else:
                out.append(rng.randint(lo, hi))
        return bytes(out)
    if k == "lit":
        return bytes(rng.choice([ord(chr(b).lower()), ord(chr(b).upper())]) for b in x[1])
    if k == "tag":
        return b""
    if k == "cat":
        return b"".join(gen_from(y, rng, gm, depth + 1) for y in x[1])
    if k == "alt":
        return gen_from(rng.choice(x[1]), rng, gm, depth + 1)
    small = [0, 1, 1, 2, 3] if depth < 6 else [0, 1]
    if k == "star":
        return b"".join(gen_from(x[1], rng, gm, depth + 1) for _ in range(rng.choice(small)))
    if k == "plus":
        return b"".join(gen_from(x[1], rng, gm, depth + 1) for _ in range(1 + rng.choice(small)))
    if k == "opt":
        return gen_from(x[1], rng, gm, depth + 1) if rng.random() < 0.5 else b""
    if k == "pow":
        return b"".join(gen_from(x[2], rng, gm, depth + 1) for _ in range(x[1]))
    if k == "atleast":
        return b"".join(gen_from(x[2], rng, gm, depth + 1) for _ in range(x[1] + rng.choice([0, 0, 1, 2, 5])))
    if k == "rep":
        n = rng.choice([x[1], x[1], x[2], x[2], rng.randint(x[1], x[2])])
        return b"".join(gen_from(x[3], rng, gm, depth + 1) for _ in range(n))
    raise AssertionError(k)


def perturb(s, rng, syms):
    r = rng.random()
    if r < 0.2 and s:
        return s[:rng.randrange(len(s))]
    if r < 0.4 and s:
        i = rng.randrange(len(s))
        return s[:i] + rng.choice(syms) + s[i + 1:]
    if r < 0.55:
        i = rng.randrange(len(s) + 1)
        return s[:i] + rng.choice(syms) + s[i:]
    if r < 0.7 and s:
        i = rng.randrange(len(s))
        return s[:i] + s[i + 1:]
    if r < 0.85:
        return s + b"".join(rng.choice(syms) for _ in range(rng.choice([1, 1, 2, 3])))
    if s:
        i = rng.randrange(len(s))
        return s[:i] + bytes([s[i] ^ 0x20]) + s[i + 1:]
    return s


def scanner_cases(name, rules, defs, gm, rng, tier):
    ranges = set()
    full = []
    for r in rules:
        parts = [expand(p, defs) for p in r[1:-1]]
        for p in parts:
            byte_ranges(p, gm, ranges)
        full.append(parts[0] if len(parts) == 1 else ("cat", parts))
    reps = representatives(ranges)
    core_reps = representatives(ranges, ascii_only=True)
    # core alphabet: one byte per part of the ASCII range + one 2-byte and one 4-byte character + one invalid byte
    core = [bytes([b]) for b in core_reps] + [MULTI[0], MULTI[7], b"\xff"]
    syms = [bytes([b]) for b in reps] + MULTI + ILL
    maxlen = 4 if tier == "quick" else 5
    cap = 40000 if tier == "quick" else 250000
    cases = [b""]
    used = 0
    core_len = 0
    for n in range(1, maxlen + 2):
        if used + len(core) ** n > cap:
            break
        for t in itertools.product(core, repeat=n):
            cases.append(b"".join(t))
        used += len(core) ** n
        core_len = n
    wide_len = 0
    for n in range(1, 3):
        if len(syms) ** n > cap // 2:
            break
        for t in itertools.product(syms, repeat=n):
            cases.append(b"".join(t))
        used += len(syms) ** n
        wide_len = n
    while used < cap + cap // 2:
        ln = rng.randint(min(core_len, wide_len) + 1, maxlen + 2)
        al = syms if rng.random() < 0.5 else core
        cases.append(b"".join(rng.choice(al) for _ in range(ln)))
        used += 1
    # strings derived from the rules, and their neighbourhoods
    nder = 4000 if tier == "quick" else 30000
    der = []
    for i in range(nder):
        s = gen_from(full[i % len(full)], rng, gm)
        der.append(s)
        t = s
        for _ in range(rng.choice([1, 1, 2, 3])):
            t = perturb(t, rng, syms)
        der.append(t)
        if rng.random() < 0.3:
            der.append(s + rng.choice(syms))
        if rng.random() < 0.1:
            der.append(rng.choice([b" ", b"\t", b"a", b">", b"<"]) + s)
    # long lines: term growth / speed of the model, and deep automaton states
    longs = []
    for i in range(6 if tier == "quick" else 40):
        s = gen_from(full[i % len(full)], rng, gm)
        filler = b"".join(rng.choice([b"a", b" ", b"-", b"|", b"'", b"x=\"y\"", "é".encode(), b"\\]", b"=", b":", b"~", b"`", b">"]) for _ in range(rng.choice([200, 600, 1500])))
        cut = rng.randrange(len(s) + 1)
        longs.append(s[:cut] + filler + s[cut:])
        longs.append(s + filler + b"\n")
    return cases, der, longs, {"core_symbols": len(core), "exhaustive_len_core": core_len, "wide_symbols": len(syms), "exhaustive_len_wide": wide_len}


def tie_scanners(c, tier, only=None):
    """runs the correspondence scanner.<fn> for every scanner (or those in `only`); returns the number of disagreements"""
    gm = _gm()
    try:
        parsed = gm.scre_parse()
    except Exception as e:  # the translator phase reports this as well
        c.problem("translator", "translator:scanners_re", str(e))
        return -1
    rng = c.rng
    vh, drv = vlib.VH["debug"], vlib.DRIVER
    bad = 0
    import shrink
    for f in parsed["fns"]:
        for v in f["variants"]:
            name = f["name"] + v["suffix"]
            if only and name not in only:
                continue
            cases, der, longs, info = scanner_cases(name, v["rules"], parsed["defs"], gm, rng, tier)
            allc = cases + der + longs
            seen = set()
            uniq = []
            for s in allc:
                if s not in seen:
                    seen.add(s)
                    uniq.append(s)
            lines = [f"scan {name} {hx(s)}" for s in uniq]
            impl = vlib.run_lines(vh, lines)
            key = f"scanner.{name}"
            if impl and impl[0] == "err feature-off":
                # compiled only under a cargo feature: use the second harness built with that feature
                good, out, vh_sc = build_harness_sc() if f["feature"] == "shortcodes" else (False, "no harness for this feature", None)
                if good:
                    impl = vlib.run_lines(vh_sc, lines)
                else:
                    c.problem("build", "build:harness_sc", "\n".join(out.strip().split("\n")[-30:]))
            if impl and impl[0] == "err feature-off":
                c.cov["correspondences"][key] = {"cases": 0, "agree": 0, "skipped": f"comrak built without feature `{f['feature']}`: the scanner is not compiled into the harness"}
                continue
            model = vlib.run_lines(drv, lines)
            agree = 0
            matched = 0
            first = None
            for s, a, m in zip(uniq, impl, model):
                nontriv = a.startswith("ok") and a != "ok 0" or (f["ret"] != "bool" and a.startswith("ok"))
                if nontriv:
                    matched += 1
                c.count(name.encode() + b":" + s, nontriv)
                if a == m and not a.startswith(("err", "dead", "hang")):
                    agree += 1
                elif first is None:
                    first = (s, a, m)
            if first is not None:
                bad += 1
                s, a, m = first

                def still(t):
                    l = f"scan {name} {hx(t)}"
                    return vlib.run_one(vh, l) != vlib.run_one(drv, l)
                try:
                    small = shrink.ddmin(s, still) if len(s) <= 400 else s
                except Exception:
                    small = s
                l = f"scan {name} {hx(small)}"
                c.problem("correspondence", key, f"input={hx(small)} impl={vlib.run_one(vh, l)} model={vlib.run_one(drv, l)} (first of {len(uniq) - agree} disagreements)",
                          {"line": l, "fn": name, "input": hx(small), "original": hx(s), "impl": a, "model": m})
            info.update({"cases": len(uniq), "agree": agree, "impl_matches": matched, "enumerated": len(cases), "derived": len(der), "long": len(longs)})
            c.cov["correspondences"][key] = info
            if len(c.cov["samples"]) < 12 and matched:
                i = next(i for i, a in enumerate(impl) if a.startswith("ok") and a != "ok 0")
                c.cov["samples"].append({"fn": name, "input": hx(uniq[i]), "impl": impl[i]})
    return bad


def main(tier):
    c = vlib.Check("SCAN_TIE", tier)
    c.phase_translator(["scanners", "scanners_re"])
    c.phase_proofs(file="Scanners")
    if not c.phase_builds(("debug",)):
        c.finish(rule="build failed")
    tie_scanners(c, tier)
    c.cov["exhaustive"] = False
    c.cov["exhaustive_domain"] = "per scanner: all strings of up to `exhaustive_len` symbols over one representative per byte part + multi-byte / ill-formed units (see correspondences), sampled beyond"
    c.assumptions = ["Gen/ScannersRe.v is regenerated from src/scanners.re on every run; the compiled code is src/scanners.rs (generated by re2c from the same file, committed): the correspondence is what ties the two",
                     "re2c semantics modelled in Base/Re2c.v: longest match, earlier rule on ties, default rule, NUL at end of input, UTF-8 classes without surrogates, case-insensitive literals, greedy trailing context"]
    c.finish(rule="distinct by (scanner, input bytes); non-trivial = the compiled scanner returns a match",
             trusted_base=["Coq 8.16.1 kernel", "no axioms (Print Assumptions: closed for every theorem)",
                           "tools/gen_model.py item scanners_re (parser of scanners.re, UTF-8 range expansion)",
                           "extraction (ExtrOcamlBasic only) + ocaml/driver.ml", "harness/src (hex protocol)"])
