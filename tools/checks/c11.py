"""C11 — source positions lie inside the source and nest consistently.  Theorems: coq/Props/C11.v (Spx::consume
under the verbatim hypothesis and its refutation without it, the signed column arithmetic of make_inline /
column_add, the meaning of the executable predicates).  Tie: translator item `srcpos` (whole bodies of
Spx::consume, column_add, make_inline, adjust_node_newlines + the shapes the known classes rest on).
Search on the IMPLEMENTATION: `parse <opts> <md>` on generated documents x option sets, the extracted
predicates of Spec/SourcePos.v (in bounds, child within parent, sibling order) on every dumped tree; every
failing (node, clause) is classified by Spec/SourcePosKnown.v; outside the classes = violation."""
from checks import srcposfam


def block_positions(tier):
    """Props/BlocksPos.v: the position invariants of the block phase (1 <= start line / column; start and end line <= the
    line counter for every value but FrontMatter; start-line nesting parent <= child with description lists off; start <=
    end line for thematic breaks / fenced code / multiline block quotes) proved through every step of Model/Blocks.v; the model is tied to the compiled parser here, positions
    included (blocks_tie compares the dumped trees string for string)."""
    def f(c):
        c.phase_proofs("BlocksPos")
        from checks import layerc
        layerc.blocks(c, tier, 0.2 if tier == "quick" else 0.1, proofs=False)
        # the inline phase computes every inline position; its model (positions included) is tied here as well,
        # so a change of any inline position moves the code away from the model and is reported
        layerc.inlines(c, tier, 0.2 if tier == "quick" else 0.1, proofs=False)
    return f


def main(tier):
    c = srcposfam.run("C11", ("B", "N", "S"), tier, after_proofs=block_positions(tier))
    c.cov["partial_clauses"] = [
        "block phase (Props/BlocksPos.v), proved for every input, node and option set: 1 <= start line / column; start line <= line counter for every node and end line <= line counter for every value but FrontMatter (BlocksPos_lines = BlocksPos_lines_full_statement, BlocksPos_start_line; refuted for FrontMatter: its end is set from the stripped front matter); every Paragraph keeps at most one line_offsets entry per line (BlocksPos_line_offsets); proved with the description list extension off: every node starts at or before each of its children (BlocksPos_start_nest), refuted with it on below a DescriptionTerm (C11-l), not proved elsewhere with it on (BlocksPos_start_nest_full_statement); start line <= end line only for ThematicBreak, fenced CodeBlock, MultilineBlockQuote and only with description lists off (BlocksPos_start_le_end_full_statement is not proved; refuted for HtmlBlock, C11-h, and the empty Document, C11-a); end-line nesting and column upper bounds of blocks are not proved (searched: between reliable kinds the end-line nesting fails only in the known classes C11-i and C11-d)",
        "the global statement (forall inputs: in bounds and nested) is not proved; it is evaluated with the extracted predicates and FAILS in the known classes listed in known_findings.json (C11-a ...)",
        "nesting and sibling order are demanded only between reliable kinds (Spec/SourcePos.v `reliable`, quoted from the documentation)"]
    c.assumptions = ["Model/Spx.v is a hand transcription; the Rust bodies are compared with the transcribed text on every run (translator item srcpos)",
                     "usize subtraction has the debug-build semantics (panic on underflow); additions are unbounded (columns far below 2^63)",
                     "positions are judged against the ORIGINAL input bytes, lines split at LF, CR LF, CR (CommonMark 2.1)"]
    c.finish(level="proof", rule="distinct by (option token, input bytes); non-trivial = the parsed tree has more than two nodes",
             trusted_base=["Coq 8.16.1 kernel", "no axioms (Print Assumptions: closed for every theorem)", "tools/gen_model.py recognisers (item srcpos)",
                           "extraction (ExtrOcamlBasic only) + ocaml/d_srcpos.ml, ocaml/d_0tree.ml (tree token parser)", "harness/src (parse op, tree dump)"])
