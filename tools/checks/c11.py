"""C11 — source positions lie inside the source and nest consistently.  Theorems: coq/Props/C11.v (Spx::consume
under the verbatim hypothesis and its refutation without it, the signed column arithmetic of make_inline /
column_add, the meaning of the executable predicates).  Tie: translator item `srcpos` (whole bodies of
Spx::consume, column_add, make_inline, adjust_node_newlines + the shapes the known classes rest on).
Search on the IMPLEMENTATION: `parse <opts> <md>` on generated documents x option sets, the extracted
predicates of Spec/SourcePos.v (in bounds, child within parent, sibling order) on every dumped tree; every
failing (node, clause) is classified by Spec/SourcePosKnown.v; outside the classes = violation."""
from checks import srcposfam


def main(tier):
    c = srcposfam.run("C11", ("B", "N", "S"), tier)
    c.cov["partial_clauses"] = [
        "the global statement (forall inputs: in bounds and nested) is not proved; it is evaluated with the extracted predicates and FAILS in the known classes listed in known_findings.json (C11-a ...)",
        "nesting and sibling order are demanded only between reliable kinds (Spec/SourcePos.v `reliable`, quoted from the documentation)"]
    c.assumptions = ["Model/Spx.v is a hand transcription; the Rust bodies are compared with the transcribed text on every run (translator item srcpos)",
                     "usize subtraction has the debug-build semantics (panic on underflow); additions are unbounded (columns far below 2^63)",
                     "positions are judged against the ORIGINAL input bytes, lines split at LF, CR LF, CR (CommonMark 2.1)"]
    c.finish(level="proof", rule="distinct by (option token, input bytes); non-trivial = the parsed tree has more than two nodes",
             trusted_base=["Coq 8.16.1 kernel", "no axioms (Print Assumptions: closed for every theorem)", "tools/gen_model.py recognisers (item srcpos)",
                           "extraction (ExtrOcamlBasic only) + ocaml/d_srcpos.ml, ocaml/d_0tree.ml (tree token parser)", "harness/src (parse op, tree dump)"])
