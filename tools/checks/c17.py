"""C17 — CommonMark formatting is idempotent.
Proved (coq/Props/C17.v, all inputs): the thematic break and the ATX opening cm.rs writes are fixed points of the
spec's scanners (every level, every continuation), escaping is stable under one more read-write pass
(escape (unescape (escape t)) = escape t), the comparison's normalisations are idempotent.  NOT proved: the
global equation cm(parse(cm(parse x))) = cm(parse x).  It is evaluated here on the implementation exactly as in
C07 (same generator, options, shrinking, classes): C2 must equal C1 byte for byte."""
import vlib
from checks import rtfam


def main(tier):
    c = vlib.Check("C17", tier)
    c.phase_translator(["rt_outc"])
    c.phase_proofs()
    if not c.phase_builds(profiles=("debug", "release")):
        c.finish(rule="build failed")
    rtfam.run(c, "C17", tier)
    c.cov["partial_clauses"] = ["the global statement cm(parse(cm(parse x))) = cm(parse x) is not proved; it is evaluated on the implementation and fails on the recorded classes",
                                "fence choice, list renumbering, container prefixes and blank lines need Model/Cm.v plus a block parser model"]
    c.assumptions = ["documents are valid UTF-8 built from CommonMark + GFM constructs"]
    c.finish(level="proof", rule="distinct by (options, document); non-trivial = the parsed tree has more than three nodes", trusted_base=rtfam.TRUSTED)
