"""C16 — the command-line tool renders exactly what the library renders.
Theorems: coq/Props/C16.v over Gen/Cli.v (regenerated from src/main.rs: translator item `cli`),
Spec/CliDoc.v (README / --help), Model/CliModel.v (cli_with_config).
Correspondence cli.run: the compiled `comrak` binary is executed; its stdout / --output file / in-place
file and exit status are compared with what the LIBRARY produces (harness op `climd`, the same
format_*_with_plugins + SyntectAdapter calls as main.rs) under (a) options_of_cli / formatter_of /
sink_of as computed by the EXTRACTED Gen/Cli.v (tie of the generated model to the binary) and
(b) documented_options / documented_renderer / documented_sink (the property).  clap, shell_words, the
file system and process exit are not modelled: what the run sees of them is an observation."""
import concurrent.futures, os, shutil, subprocess, tempfile
import vlib
from vlib import hx, unhx

MASTER = b"""---
title: front
---

Title & "quotes" -- dashes... 'single'
=======================================

A paragraph with ~~strike~~ and ~sub~ and ^super^ and __under__ and ||spoiler|| text,
a soft break here, www.example.com and [https://example.org/x] plus ssh://host.example/p links,
math $x^2$ and $`y`$ inline, a wiki [[target|label]] link, \\* escaped \\_ chars, a_b*c,
an [](https://e.example/empty) link, ****nested strong**** and a footnote[^n]. This line is long enough to be wrapped when a small width is given to the CommonMark renderer for sure.

<script>alert(1)</script>

<div>raw <title>x</title> block</div>

Inline <b>raw</b> and <xmp>filtered</xmp> html, [dangerous](javascript:alert(1)).

| a | b |
|---|:-:|
| 1 | 2 |

- [x] done
- [ ] todo
- [~] odd

* star item
* other

1. one
2. two

    indented code

![image alt](https://e.example/i.png "image title")

``` rust extra meta
fn main() {}
```

```
no info
```

Term

: Definition text

>>>
multi
line
>>>

>greentext line

> [!NOTE]
> alert body

> quote
lazy

setext two
----------

[^n]: The note.
"""
# three files whose CONCATENATION matters: the first has no final newline, the second starts mid-paragraph
PART_A = "# Première ~~partie~~\n\nunterminated *emph".encode()
PART_B = b"asis* continues www.example.com\n\n- [x] task\n\n```python\nprint(1)\n```\n"
PART_C = b"| h |\n|---|\n| c |\n\n> [!TIP]\n> tip \"smart\" -- text[^1]\n\n[^1]: note\n"
SMALL = b"Hello *world* ~~x~~ www.example.com\n\n```rust\nlet a = 1;\n```\n"

# a document whose only code block is an INDENTED one (the highlighter plugin is applied to every code block, not only
# to fenced ones), and one without any code
INDENT_ONLY = b"Some *text* first.\n\n    indented code only\n    let a = 1;\n\nAnd more text.\n"
NO_CODE = b"Just a paragraph with ~~strike~~ and www.example.com\n\n- item\n"

THEMES = ["base16-ocean.dark", "InspiredGitHub", "Solarized (dark)", "base16-eighties.dark"]
VALUES = {
    "default_info_string": ["rust", "py thon", "x\"y"],
    "header_ids": ["user-content-", "", "a b", "é-"],
    "front_matter_delimiter": ["---", "+++"],
    "width": [0, 30, 72],
}


class Tables:
    def __init__(self, line):
        assert line.startswith("ok "), line
        kv = dict(p.split("=", 1) for p in line[3:].split(" "))
        self.flags = []
        for f in kv["flags"].split(";"):
            field, lng, sh, kind, default, app = f.split(":")
            self.flags.append({"field": field, "long": lng, "short": sh, "kind": kind, "default": default, "append": app == "1"})
        self.by = {f["field"]: f for f in self.flags}
        self.exts = kv["exts"].split(",")
        self.formats = kv["formats"].split(",")
        self.styles = kv["styles"].split(",")
        self.unset = kv["unset"].split(",")
        self.optfields = kv["optfields"].split(",")
        self.gfm = kv["gfm"].split(",")
        self.conflicts = kv["conflicts"].split(",")
        self.gated = kv["gated"]
        self.exit_read, self.exit_config, self.exit_ok, self.exit_usage = [int(x) for x in kv["exits"].split(":")]
        self.bools = [f["field"] for f in self.flags if f["kind"] == "bool" and f["field"] != "inplace"]


# ----------------------------------------------------------------------------------------------- words
def flag_words(T, rng, field, value, style=None):
    """command-line words for one argument; style None = random spelling"""
    f = T.by[field]
    long = "--" + f["long"]
    short = "-" + f["short"] if f["short"] else None
    if f["kind"] == "bool":
        return [short if short and rng.random() < 0.5 else long]
    if f["kind"] == "multi":
        names = list(value)
        how = style or rng.choice(["comma", "repeat", "short"])
        if how == "comma":
            return [long, ",".join(names)]
        if how == "short":
            return [short, ",".join(names)]
        out = []
        for n in names:
            out += [rng.choice([short, long]), n]
        return out
    v = str(value)
    name = short if short and rng.random() < 0.5 else long
    if name == long and rng.random() < 0.3 and f["kind"] != "optstring":
        return [long + "=" + v]
    if field == "front_matter_delimiter" or v.startswith("-"):
        return [long, v] if field == "front_matter_delimiter" else [long + "=" + v]
    return [name, v]


def shell_quote(rng, w):
    """one word of the config file, in one of the quoting styles shell_words understands"""
    safe = all(ch.isalnum() or ch in "-_=.,/+:" for ch in w) and w != ""
    if safe and rng.random() < 0.6:
        return w
    if "'" not in w and rng.random() < 0.5:
        return "'" + w + "'"
    return '"' + w.replace("\\", "\\\\").replace('"', '\\"').replace("$", "\\$").replace("`", "\\`") + '"'


def cli_token(T, assoc, files=None, inplace=False, output=None):
    parts = []
    for field, value in assoc:
        k = T.by[field]["kind"]
        if k == "bool":
            parts.append(f"{field}=1")
        elif k == "num":
            parts.append(f"{field}={value}")
        elif k == "multi":
            if value:
                parts.append(f"{field}=" + "+".join(value))
        elif k == "enum":
            parts.append(f"{field}={value}")
        else:
            parts.append(f"{field}={hx(value)}")
    # several -e groups merge into one list
    merged, exts = [], []
    for p in parts:
        if p.startswith("extensions="):
            exts += p.split("=", 1)[1].split("+")
        else:
            merged.append(p)
    if exts:
        merged.append("extensions=" + "+".join(exts))
    if files is not None:
        merged.append("files=" + "+".join(hx(f) for f in files))
    if inplace:
        merged.append("inplace=1")
    if output is not None:
        merged.append("output=" + hx(output))
    return ",".join(merged) if merged else "-"


# ----------------------------------------------------------------------------------------------- cases
class Case:
    """One execution of the binary.  real/cfg: lists of (field, value) over Cli field names."""

    def __init__(self, kind, real=(), cfg=(), cfg_mode="none", inp="stdin", docs=(MASTER,), sink="stdout", spell=None, extra=None):
        self.kind, self.real, self.cfg, self.cfg_mode = kind, list(real), list(cfg), cfg_mode
        self.inp, self.docs, self.sink = inp, list(docs), sink
        self.spell = spell
        self.extra = extra or {}
        self.obs = None


def run_case(args):
    """executed in a worker thread: set up a private directory, run the binary, observe everything"""
    binary, root, idx, spec = args
    d = os.path.join(root, "c%05d" % idx)
    os.makedirs(os.path.join(d, "xdg", "comrak"))
    for name, content in spec["files"].items():
        with open(os.path.join(d.encode(), name), "wb") as f:
            f.write(content)
    if spec.get("mkdirs"):
        for m in spec["mkdirs"]:
            os.makedirs(os.path.join(d, m), exist_ok=True)
    env = {"PATH": "/usr/bin:/bin", "HOME": d, "XDG_CONFIG_HOME": os.path.join(d, "xdg"), "RUST_BACKTRACE": "0"}
    try:
        p = subprocess.run([binary.encode()] + spec["argv"], cwd=d, env=env, input=spec["stdin"], stdout=subprocess.PIPE, stderr=subprocess.PIPE, timeout=20)
        rc, out, err = p.returncode, p.stdout, p.stderr
    except subprocess.TimeoutExpired:
        rc, out, err = "hang", b"", b""
    after = {}
    for name in os.listdir(d.encode()):
        pth = os.path.join(d.encode(), name)
        if os.path.isfile(pth):
            with open(pth, "rb") as f:
                after[name] = f.read()
    shutil.rmtree(d, ignore_errors=True)
    return {"rc": rc, "stdout": out, "stderr": err, "files": after}


def materialise(T, rng, case):
    """Case -> dict(argv, files, stdin) + bookkeeping on the case (file names, expected sink target)"""
    files = {}
    names = []
    if case.inp == "stdin":
        stdin = b"".join(case.docs)
    else:
        stdin = b""
        for i, dct in enumerate(case.docs):
            n = case.extra.get("names", ["in%d.md" % j for j in range(len(case.docs))])[i]
            n = n if isinstance(n, bytes) else n.encode()
            files[n] = dct
            names.append(n)
    argv = []
    real_words = []
    for field, value in case.real:
        real_words += flag_words(T, rng, field, value, case.spell)
    cfg_words = []
    for field, value in case.cfg:
        cfg_words += flag_words(T, rng, field, value, case.spell)
    cfg_words += [w for w in case.extra.get("cfg_files", [])]
    if case.cfg_mode == "none":
        argv += [rng.choice(["--config-file", "-c"]), "none"]
    elif case.cfg_mode == "file":
        files[b"my.config"] = case.extra.get("cfg_text", " ".join(shell_quote(rng, w) for w in cfg_words) + rng.choice(["", "\n"])).encode()
        argv += ["--config-file", "my.config"]
    elif case.cfg_mode == "xdg":
        files[b"xdg/comrak/config"] = ("\n".join(shell_quote(rng, w) for w in cfg_words) + "\n").encode()
    elif case.cfg_mode == "missing":
        argv += ["--config-file", "no-such.config"]
    elif case.cfg_mode == "default-missing":
        pass
    argv += real_words
    if case.sink == "output":
        files[b"out.bin"] = b"previous content of the output file\n"
        argv += [rng.choice(["-o", "--output"]), "out.bin"]
    elif case.sink == "inplace":
        argv += [rng.choice(["-i", "--inplace"])]
    argv += case.extra.get("raw_args", [])
    argv_b = [a.encode() if isinstance(a, str) else a for a in argv] + names
    case.names = names
    case.argv = argv_b
    case.files_before = dict(files)
    case.stdin = stdin
    return {"argv": argv_b, "files": files, "stdin": stdin}


def merged_assoc(case):
    return list(case.real) + list(case.cfg)


def fields_of(assoc):
    return [f for f, _ in assoc]


def main(tier):
    c = vlib.Check("C16", tier)
    rng = c.rng
    c.phase_translator(["cli"])
    c.phase_proofs()
    if not c.phase_builds(("debug",)):
        c.finish(rule="build failed")
    ok, out, binary = vlib.build_cli()
    if not ok:
        c.problem("build", "build:comrak-binary", "\n".join(out.strip().split("\n")[-30:]))
        c.finish(rule="build failed")
    vh, drv = vlib.VH["debug"], vlib.DRIVER
    T = Tables(vlib.run_one(drv, "cli_tables"))
    exts, bools = T.exts, T.bools

    # ------------------------------------------------------------ the binary's own --help against Gen/Cli.v
    root = tempfile.mkdtemp(prefix="c16-")
    try:
        _run(c, T, rng, tier, binary, vh, drv, root, exts, bools)
    finally:
        shutil.rmtree(root, ignore_errors=True)


def _run(c, T, rng, tier, binary, vh, drv, root, exts, bools):
    import re
    env = {"PATH": "/usr/bin:/bin", "HOME": root, "XDG_CONFIG_HOME": os.path.join(root, "xdg")}
    p = subprocess.run([binary, "--help"], env=env, stdout=subprocess.PIPE, stderr=subprocess.PIPE)
    helptext = p.stdout.decode("utf-8", "replace")
    help_longs = set(re.findall(r"^\s+(?:-\w, )?--([a-z-]+)", helptext, re.M)) - {"help", "version"}
    gen_longs = {f["long"] for f in T.flags if f["long"]}
    if p.returncode != 0 or help_longs != gen_longs:
        c.problem("correspondence", "cli.help", f"options of `comrak --help` {sorted(help_longs)} differ from Gen/Cli.v cli_flags {sorted(gen_longs)}",
                  {"only_help": sorted(help_longs - gen_longs), "only_gen": sorted(gen_longs - help_longs)})
    m = re.search(r"\[possible values: (strikethrough[^\]]*)\]", helptext)
    help_exts = re.sub(r"\s+", " ", m.group(1)).split(", ") if m else []
    if help_exts != exts:
        c.problem("correspondence", "cli.help", f"--extension possible values of the binary {help_exts} differ from Gen/Cli.v {exts}")
    # the README block Spec/CliDoc.v was written from is the binary's own help text (default features),
    # up to the run-time config path and the feature-gated --gemojis paragraph
    def _norm(t):
        t = re.sub(r"\[default: [^\]]*config\]", "[default: CONFIG]", t)
        t = re.sub(r"--gemojis\s+Translate gemojis into UTF-8 characters", "", t)
        return re.sub(r"\s+", " ", t).strip()
    try:
        readme = open(os.path.join(vlib.REPO, "README.md"), encoding="utf-8").read()
        rm = re.search(r"```\n(A 100% CommonMark-compatible.*?)```", readme, re.S)
        readme_same = bool(rm) and _norm(rm.group(1)) == _norm(helptext)
    except OSError:
        readme_same = False
    if not readme_same:
        c.problem("correspondence", "cli.help_readme", "the help text in README.md (from which Spec/CliDoc.v is written) is no longer the --help output of the binary: review Spec/CliDoc.v against `comrak --help`")
    c.cov["correspondences"]["cli.help_readme"] = {"readme_block_equals_binary_help_modulo_config_path_and_gemojis": readme_same}
    c.cov["correspondences"]["cli.help"] = {"options_in_help": len(help_longs), "options_in_model": len(gen_longs), "extension_values": len(help_exts),
                                            "readme_only": "--gemojis (shortcodes feature, not in the default build: gated_flags=%s)" % T.gated}

    # ------------------------------------------------------------ option sensitivity of the master document (library only)
    sens = sensitivity(c, T, vh)

    # ------------------------------------------------------------ case generation
    cases = []
    hl_none = ("syntax_highlighting", "none")

    def single_values():
        out = []
        for b in bools:
            out.append([(b, True)])
        for e in exts:
            out.append([("extensions", [e])])
        for f, vals in VALUES.items():
            for v in vals:
                out.append([(f, v)])
        for s in T.styles:
            out.append([("list_style", s)])
        for t in THEMES + ["none"]:
            out.append([("syntax_highlighting", t)])
        return out

    # 1. every single flag x every format (stdin, stdout, --config-file none)
    for assoc in single_values():
        for fmt in T.formats:
            cases.append(Case("single", real=assoc + [("format", fmt)]))
    cases.append(Case("single", real=[]))
    # context-dependent options get their context
    for fmt in T.formats:
        cases.append(Case("single", real=[("unsafe_", True), ("extensions", ["tagfilter"]), ("format", fmt)]))
        cases.append(Case("single", real=[("extensions", ["tasklist"]), ("relaxed_tasklist_character", True), ("format", fmt)]))
        cases.append(Case("single", real=[("extensions", ["tasklist"]), ("tasklist_classes", True), ("format", fmt)]))
        cases.append(Case("single", real=[("extensions", ["autolink"]), ("relaxed_autolinks", True), ("format", fmt)]))
        cases.append(Case("single", real=[("gfm", True), ("unsafe_", True), ("format", fmt)]))
    # 2. all pairs of boolean flags / extensions
    atoms = [(b, True) for b in bools] + [("extensions", [e]) for e in exts]
    k = 0
    for i in range(len(atoms)):
        for j in range(i + 1, len(atoms)):
            fmt = T.formats[k % len(T.formats)]
            k += 1
            real = [atoms[i], atoms[j], ("format", fmt)]
            if rng.random() < 0.8:
                real.append(hl_none)
            cases.append(Case("pair", real=real, docs=(MASTER,)))
    # 3. random larger subsets x format x input x sink x config
    nrand = 800 if tier == "quick" else 6000
    for n in range(nrand):
        cases.append(random_case(T, rng, exts, bools, overlap=False))
    # 4. F19: the same argument on the command line and in the config file
    for n in range(40 if tier == "quick" else 300):
        cases.append(random_case(T, rng, exts, bools, overlap=True))
    cases.append(Case("overlap", real=[("gfm", True)], cfg=[("gfm", True)], cfg_mode="file", docs=(SMALL,)))
    # append arguments may be on both sides
    cases.append(Case("config", real=[("extensions", ["table"])], cfg=[("extensions", ["strikethrough"]), ("smart", True)], cfg_mode="file", docs=(MASTER,)))
    # 5. order of the splice, visible through FILE arguments in the config file: real files first, then the config's
    cases.append(Case("splice-order", real=[hl_none], cfg=[("extensions", ["strikethrough"])], cfg_mode="file", inp="files", docs=(PART_A,),
                      extra={"cfg_files": ["cfgfile.md"], "more_files": {b"cfgfile.md": PART_B}}))
    # 6. clap: a non-append argument twice on the command line (observation that backs Model/CliModel.clap_accepts)
    for f in T.flags:
        if f["kind"] in ("files",) or f["field"] in ("config_file", "inplace", "output"):
            continue
        v = {"bool": True, "num": 5, "optstring": "v", "string": "none", "enum": None, "multi": ["table"]}[f["kind"]]
        if f["kind"] == "enum":
            v = T.formats[0] if f["field"] == "format" else T.styles[0]
        cases.append(Case("duplicate", real=[(f["field"], v), (f["field"], v)], docs=(SMALL,)))

    # materialise + expectations
    specs = []
    for cs in cases:
        sp = materialise(T, rng, cs)
        for n, content in cs.extra.get("more_files", {}).items():
            sp["files"][n] = content
            cs.files_before[n] = content
        specs.append(sp)
    plan_lines = []
    for cs in cases:
        files = None
        if cs.inp != "stdin":
            files = [n for n in cs.names] + [w.encode() for w in cs.extra.get("cfg_files", [])]
        tok = cli_token(T, merged_assoc(cs), files=files, inplace=(cs.sink == "inplace"), output=(b"out.bin" if cs.sink == "output" else None))
        cs.token = tok
        plan_lines.append("cli_plan " + tok)
    plans = vlib.run_lines(drv, plan_lines)
    render_lines, render_ix = [], {}
    for cs, pl in zip(cases, plans):
        cs.plan = None
        if not pl.startswith("ok "):
            c.problem("driver", "cli_plan", f"{cs.token}: {pl}")
            continue
        t = pl.split(" ")[1:]
        cs.plan = dict(opts_m=t[0], opts_d=t[1], rend_m=t[2], rend_d=t[3], sink_m=t[4], sink_d=t[5], hl_m=t[6], hl_d=t[7], inst=t[8], pre=t[9])
        data = b"".join(cs.docs) + b"".join(cs.extra.get("more_files", {}).values())
        th_m = cs.plan["hl_m"].split(":", 1)[1] if (cs.plan["inst"] == "1" and cs.plan["hl_m"] != "none") else "none"
        th_d = cs.plan["hl_d"].split(":", 1)[1] if (cs.plan["rend_d"] == "html" and cs.plan["hl_d"] != "none") else "none"
        cs.line_m = f"climd {cs.plan['rend_m']} {th_m} {cs.plan['opts_m']} {hx(data)}"
        cs.line_d = f"climd {cs.plan['rend_d']} {th_d} {cs.plan['opts_d']} {hx(data)}"
        for l in (cs.line_m, cs.line_d):
            if l not in render_ix:
                render_ix[l] = len(render_lines)
                render_lines.append(l)
    rendered = vlib.run_lines(vh, render_lines)
    with concurrent.futures.ThreadPoolExecutor(max_workers=vlib.NPROC) as ex:
        obs = list(ex.map(run_case, [(binary, root, i, sp) for i, sp in enumerate(specs)]))

    # overlap classification by the extracted predicate
    ov = vlib.run_lines(drv, ["cli_overlap %s %s" % (",".join(fields_of(cs.real)) or "-", ",".join(fields_of(cs.cfg)) or "-") for cs in cases])

    agree_model = agree_doc = 0
    kinds = {}
    for cs, o, ovl in zip(cases, obs, ov):
        kinds[cs.kind] = kinds.get(cs.kind, 0) + 1
        if cs.plan is None:
            continue
        nontrivial = len(cs.real) + len(cs.cfg) > 0
        c.count(repr((cs.argv, cs.files_before.get(b"my.config"), cs.files_before.get(b"xdg/comrak/config"), cs.inp, cs.sink, cs.docs)), nontrivial)
        exp_m = rendered[render_ix[cs.line_m]]
        exp_d = rendered[render_ix[cs.line_d]]
        desc = describe(cs, o)
        overlapping, accepts = ovl.split(" ")[1] == "1", ovl.split(" ")[2] == "1"
        if cs.kind == "duplicate":
            # the clap rule the model assumes: repeated non-append argument => usage error
            want_rc = 0 if accepts else T.exit_usage
            if o["rc"] != want_rc or (want_rc != 0 and (o["stdout"] or not o["stderr"])):
                c.problem("correspondence", "cli.clap_accepts", f"repeated argument {cs.real[0][0]}: model clap_accepts={accepts}, binary exit status {o['rc']}", desc)
            continue
        got_m = observed_output(cs, o, cs.plan["sink_m"])
        got_d = observed_output(cs, o, cs.plan["sink_d"])
        ok_m = exp_m.startswith("ok ") and o["rc"] == 0 and got_m == unhx(exp_m[3:]) and untouched(cs, o, cs.plan["sink_m"])
        ok_d = exp_d.startswith("ok ") and o["rc"] == 0 and got_d == unhx(exp_d[3:]) and untouched(cs, o, cs.plan["sink_d"])
        if ok_d:
            agree_doc += 1
        if ok_m:
            agree_model += 1
        if ok_d and ok_m:
            continue
        if overlapping:
            # F19: both sides name the same non-append argument; clap refuses the spliced list
            if o["rc"] == T.exit_usage and b"cannot be used multiple times" in o["stderr"] and not o["stdout"] and untouched(cs, o, "none"):
                if not accepts:
                    c.known_hit("overlapping_config", desc)
                    continue
            c.violation("overlapping config: expected either the rendering or clap's duplicate-argument error (exit 2, nothing written)", desc)
            continue
        desc["expected_documented"] = exp_d[:400]
        desc["expected_model"] = exp_m[:400]
        if not ok_d:
            c.violation("binary output / exit status differs from the library under the DOCUMENTED options for these flags", desc)
        if not ok_m:
            c.problem("correspondence", "cli.run", "binary differs from the library under options_of_cli/formatter_of/sink_of of Gen/Cli.v: " + str(desc)[:1500], desc)
    c.cov["correspondences"]["cli.run"] = {"cases": len(cases), "by_kind": kinds, "agree_with_generated_model": agree_model, "agree_with_documented_contract": agree_doc,
                                           "duplicate_argument_observations": kinds.get("duplicate", 0)}
    for cs, o in list(zip(cases, obs))[:3] + [x for x in zip(cases, obs) if x[0].kind == "random"][:3]:
        c.cov["samples"].append({"argv": [a.decode("utf-8", "replace") for a in cs.argv], "config": (cs.files_before.get(b"my.config") or cs.files_before.get(b"xdg/comrak/config") or b"").decode("utf-8", "replace"),
                                 "input": cs.inp, "sink": cs.sink, "exit": o["rc"], "stdout_prefix": o["stdout"][:80].decode("utf-8", "replace")})

    # ------------------------------------------------------------ config splice model against the binary
    splice_checks(c, T, rng, binary, vh, drv, root)
    # ------------------------------------------------------------ failure behaviour (observations)
    failure_observations(c, T, rng, binary, root)

    c.cov["option_sensitivity"] = sens
    c.cov["exhaustive"] = False
    c.cov["input_distribution"] = kinds
    c.cov["partial_clauses"] = [
        "process behaviour (clap parsing, shell_words splitting, file I/O, exit status) is observed on the binary, not proved",
        "config merge holds only outside the known class overlapping_config (refuted in general: C16_merge_refuted)",
        "config splice holds for UTF-8 argv only (refuted in general: C16_config_splice_refuted)",
    ]
    c.assumptions = [
        "Gen/Cli.v is regenerated from src/main.rs on every run (flags, enums, builder chains, formatter/sink/highlighter selection, in-place precondition, exit codes); Model/CliModel.v transcribes cli_with_config and the translator compares the function body text",
        "clap's treatment of a repeated non-append argument (usage error, exit 2) is an observed rule (cli.clap_accepts), modelled by clap_accepts",
        "default feature set (cli, syntect, bon); --gemojis (shortcodes) is not built and not modelled",
        "invalid UTF-8 / unreadable file / unknown theme behaviour are observations of the compiled binary on this platform (running as root: permission-denied files cannot be produced)",
    ]
    c.finish(rule="one case = one execution of target-cli/debug/comrak (argv spelling, config file text, input mode, sink, documents); distinct by all of these; non-trivial = at least one option is given on the command line or in the config file",
             trusted_base=["Coq 8.16.1 kernel; no axioms", "tools/gen_cli.py recognisers (Cli struct attributes, builder chains, expression grammar, main() shape)",
                           "extraction (ExtrOcamlBasic only) + ocaml/d_cli.ml token glue", "harness op climd (format_*_with_plugins + SyntectAdapter as main.rs) and harness/src/opts.rs option token",
                           "clap 4, shell-words, xdg, syntect: third-party, observed only"])


# ----------------------------------------------------------------------------------------------- helpers
def describe(cs, o):
    return {"kind": cs.kind, "line": "cli_plan " + cs.token, "argv": [hx(a) for a in cs.argv], "argv_text": " ".join(a.decode("utf-8", "replace") for a in cs.argv),
            "config_file": (cs.files_before.get(b"my.config") or cs.files_before.get(b"xdg/comrak/config") or b"").decode("utf-8", "replace"),
            "config_mode": cs.cfg_mode, "input_mode": cs.inp, "sink": cs.sink, "cli_token": cs.token,
            "files": {k.decode("utf-8", "replace"): hx(v) for k, v in cs.files_before.items()}, "stdin": hx(cs.stdin),
            "render_model": getattr(cs, "line_m", None), "render_documented": getattr(cs, "line_d", None),
            "plan": cs.plan, "exit": o["rc"], "stdout": hx(o["stdout"][:600]), "stderr": o["stderr"][:400].decode("utf-8", "replace")}


def observed_output(cs, o, sink):
    if sink == "stdout":
        return o["stdout"]
    if sink.startswith("file:"):
        return o["files"].get(unhx(sink[5:]))
    if sink == "first_input":
        return o["files"].get(cs.names[0]) if cs.names else None
    return None


def untouched(cs, o, sink):
    """everything that is not the sink is as before; stdout is empty unless it is the sink"""
    target = None
    if sink.startswith("file:"):
        target = unhx(sink[5:])
    elif sink == "first_input" and cs.names:
        target = cs.names[0]
    if sink != "stdout" and o["stdout"]:
        return False
    for n, content in cs.files_before.items():
        if n == target or b"/" in n:
            continue
        if o["files"].get(n) != content:
            return False
    for n in o["files"]:
        if n not in cs.files_before and n != target:
            return False
    return True


def random_case(T, rng, exts, bools, overlap):
    q = rng.choice([0.1, 0.25, 0.5])
    assoc = [(b, True) for b in bools if rng.random() < q]
    es = [e for e in exts if rng.random() < q]
    rng.shuffle(es)
    if es:
        cut = rng.randrange(len(es) + 1)
        for part in (es[:cut], es[cut:]):
            if part:
                assoc.append(("extensions", part))
    for f, vals in VALUES.items():
        if rng.random() < 0.3:
            assoc.append((f, rng.choice(vals)))
    if rng.random() < 0.3:
        assoc.append(("list_style", rng.choice(T.styles)))
    sink = rng.choice(["stdout", "stdout", "output", "inplace"])
    inp = rng.choice(["stdin", "one", "three"])
    if sink == "inplace":
        inp = "one"
    else:
        assoc.append(("format", rng.choice(T.formats))) if rng.random() < 0.85 else None
    r = rng.random()
    if r < 0.55:
        assoc.append(("syntax_highlighting", "none"))
    elif r < 0.75:
        assoc.append(("syntax_highlighting", rng.choice(THEMES)))
    rng.shuffle(assoc)
    cfg_mode = rng.choice(["none", "file", "file", "xdg", "missing"]) if not overlap else rng.choice(["file", "xdg"])
    real, cfg = assoc, []
    if cfg_mode in ("file", "xdg"):
        cut = rng.randrange(len(assoc) + 1)
        real, cfg = assoc[:cut], assoc[cut:]
        # clap's conflicts_with is checked on the merged list as well: --inplace with --to stays out by construction
    if overlap:
        cands = [x for x in assoc if T.by[x[0]]["kind"] == "bool"] or [("smart", True)]
        dup = rng.choice(cands)
        if dup not in real:
            real.append(dup)
        if dup not in cfg:
            cfg.append(dup)
    docs = {"stdin": (rng.choice([MASTER, SMALL, MASTER + PART_C, INDENT_ONLY, NO_CODE]),), "one": (rng.choice([MASTER, SMALL + PART_C, INDENT_ONLY]),),
            "three": rng.choice([(PART_A, PART_B, PART_C), (NO_CODE, INDENT_ONLY), (INDENT_ONLY, PART_A, NO_CODE)])}[inp]
    return Case("overlap" if overlap else "random", real=real, cfg=cfg, cfg_mode=cfg_mode, inp=("stdin" if inp == "stdin" else "files"), docs=docs, sink=sink)


def sensitivity(c, T, vh):
    """for every option field of copts: in which formats does the master document's rendering change
    when only that option changes (library only).  An option invisible everywhere would make a wrong
    wiring of its flag invisible to cli.run."""
    probes = {"header_ids": "header_ids=702d", "front_matter_delimiter": "front_matter_delimiter=2d2d2d", "default_info_string": "default_info_string=7079",
              "width": "width=30", "list_style": "list_style=plus", "ol_width": "ol_width=6"}
    ctx = {"tagfilter": "unsafe=1", "relaxed_tasklist_matching": "tasklist=1", "tasklist_classes": "tasklist=1", "relaxed_autolinks": "autolink=1"}
    fields = list(T.optfields)
    lines, keys = [], []
    for fmt in T.formats:
        for k in fields:
            base = ctx.get(k, "-")
            tok = probes.get(k, k + "=1")
            full = tok if base == "-" else base + "," + tok
            lines += [f"climd {fmt} none {base} {hx(MASTER)}", f"climd {fmt} none {full} {hx(MASTER)}"]
            keys.append((fmt, k))
    out = vlib.run_lines(vh, lines)
    sens = {k: [] for k in fields}
    for i, (fmt, k) in enumerate(keys):
        if out[2 * i] != out[2 * i + 1] and out[2 * i].startswith("ok") and out[2 * i + 1].startswith("ok"):
            sens[k].append(fmt)
    blind = [k for k, v in sens.items() if not v]
    if blind:
        c.problem("coverage", "cli.sensitivity", f"the master document does not react to option(s) {blind}: a wrong wiring of these flags would be invisible")
    return sens


def splice_checks(c, T, rng, binary, vh, drv, root):
    """Model/CliModel.splice against the binary, through what the binary then renders.
    Includes the two witnesses of C16_config_splice_refuted / _drops_argument (non-UTF-8 file name)."""
    res = {}
    # (a) UTF-8 argv: real files first, config FILE words after (covered in cli.run `splice-order`)
    # (b) bad quotes -> exit 2 with message; (c) unreadable config = none
    env_cases = [
        ("bad-quotes", ["--config-file", "my.config", "in0.md"], {b"my.config": b'--header-ids "a b\n', b"in0.md": SMALL}, "badquotes"),
        ("config-is-directory", ["--config-file", "dir", "--syntax-highlighting", "none", "in0.md"], {b"in0.md": SMALL}, "unreadable"),
        ("config-not-utf8", ["--config-file", "my.config", "--syntax-highlighting", "none", "in0.md"], {b"my.config": b"--smart \xff\n", b"in0.md": SMALL}, "unreadable"),
    ]
    specs = [{"argv": [a.encode() for a in argv], "files": files, "stdin": b"", "mkdirs": ["dir"]} for _, argv, files, _ in env_cases]
    # non-UTF-8 file name with a readable config file
    bad = b"\xff.md"
    specs.append({"argv": [b"--config-file", b"my.config", b"--syntax-highlighting", b"none", bad, b"b.md"], "files": {b"my.config": b"", bad: PART_A, b"b.md": PART_B}, "stdin": b""})
    specs.append({"argv": [b"--config-file", b"my.config", b"--syntax-highlighting", b"none", bad, b"b.md"], "files": {b"my.config": b"--smart\n", bad: PART_A, b"b.md": PART_B}, "stdin": b""})
    specs.append({"argv": [b"--config-file", b"none", b"--syntax-highlighting", b"none", bad, b"b.md"], "files": {bad: PART_A, b"b.md": PART_B}, "stdin": b""})
    # `--` on the command line turns the config's options into FILE arguments
    specs.append({"argv": [b"--config-file", b"my.config", b"--syntax-highlighting", b"none", b"--", b"b.md"], "files": {b"my.config": b"--smart\n", b"b.md": PART_B}, "stdin": b""})
    with concurrent.futures.ThreadPoolExecutor(max_workers=8) as ex:
        obs = list(ex.map(run_case, [(binary, root, 90000 + i, sp) for i, sp in enumerate(specs)]))
    model = vlib.run_lines(drv, [
        "cli_config %s badquotes 1 %s" % (hx("my.config"), hx("comrak")),
        "cli_config %s unreadable 1 %s" % (hx("dir"), hx("comrak")),
        "cli_config %s unreadable 1 %s" % (hx("my.config"), hx("comrak")),
        "cli_config %s words 7 %s" % (hx("my.config"), " ".join([hx("comrak"), hx("--config-file"), hx("my.config"), hx("--syntax-highlighting"), hx("none"), "!", hx("b.md")])),
        "cli_config %s words 7 %s %s" % (hx("my.config"), " ".join([hx("comrak"), hx("--config-file"), hx("my.config"), hx("--syntax-highlighting"), hx("none"), "!", hx("b.md")]), hx("--smart")),
    ])
    plain = vlib.run_lines(vh, [f"climd html none - {hx(SMALL)}", f"climd html none - {hx(PART_A + PART_B)}", f"climd html none smart=1,strikethrough=1 {hx(PART_A + PART_B)}",
                                f"climd html none smart=1 {hx(PART_B)}"])
    o = obs[0]
    good = model[0] == "ok exit %d" % T.exit_config and o["rc"] == T.exit_config and not o["stdout"] and b"failed to parse" in o["stderr"]
    res["bad_quotes_exit_2_with_message"] = good
    if not good:
        c.problem("correspondence", "cli.config", f"config with unbalanced quote: model {model[0]}, binary exit {o['rc']} stderr {o['stderr'][:200]!r}")
    for i in (1, 2):
        o = obs[i]
        good = model[i] == "ok once" and o["rc"] == 0 and plain[0] == "ok " + hx(o["stdout"])
        res[env_cases[i][0] + "_is_ignored"] = good
        if not good:
            c.problem("correspondence", "cli.config", f"{env_cases[i][0]}: model {model[i]}, binary exit {o['rc']} stderr {o['stderr'][:200]!r}")
    # witnesses of the refuted general splice statement, replayed on the binary
    o = obs[3]
    panics = model[3].startswith("panic ") and o["rc"] == 101 and b"insertion index" in o["stderr"]
    o2 = obs[4]
    # the model's argument list: comrak --config-file my.config <config words spliced in place of the lost argument> b.md ...
    want4 = "ok twice " + " ".join(hx(w) for w in ["comrak", "--config-file", "my.config", "--syntax-highlighting", "none", "--smart", "b.md"])
    dropped = model[4] == want4 and o2["rc"] == 0 and plain[3] == "ok " + hx(o2["stdout"])
    res["nonutf8_file_name_with_one_word_config_is_silently_dropped"] = dropped
    ctrl = obs[5]
    control_ok = ctrl["rc"] == 0 and plain[1] == "ok " + hx(ctrl["stdout"])
    res["nonutf8_file_name_without_config_renders_both_files"] = control_ok
    res["nonutf8_file_name_with_empty_config_panics_exit_101"] = panics
    res["nonutf8_file_name_with_config_model"] = model[4]
    res["nonutf8_file_name_with_config_binary"] = {"exit": o2["rc"], "stdout": o2["stdout"][:200].decode("utf-8", "replace"), "stderr": o2["stderr"][:200].decode("utf-8", "replace")}
    if not control_ok:
        c.violation("a file whose NAME is not UTF-8 is not rendered even with --config-file none", {"argv": [hx(a) for a in specs[5]["argv"]], "exit": ctrl["rc"], "stderr": ctrl["stderr"][:300].decode("utf-8", "replace")})
    known_cls = vlib.run_lines(drv, [
        "cli_known nonutf8 1 " + " ".join([hx("comrak"), hx("--config-file"), hx("my.config"), hx("--syntax-highlighting"), hx("none"), "!", hx("b.md")]),
        "cli_known nonutf8 0 " + " ".join([hx("comrak"), hx("--config-file"), hx("none"), hx("--syntax-highlighting"), hx("none"), "!", hx("b.md")]),
        "cli_known ddash 7 " + " ".join(hx(x) for x in ["comrak", "--config-file", "my.config", "--syntax-highlighting", "none", "--", "b.md", "--smart"]),
    ])
    res["known_class_predicates(nonutf8 with config, nonutf8 without config, double dash)"] = known_cls
    if known_cls != ["ok 1", "ok 0", "ok 1"]:
        c.problem("driver", "cli_known", f"extracted known-class predicates answered {known_cls}")
    if panics and not dropped:
        c.problem("correspondence", "cli.config", f"second witness of the non-UTF-8 splice: model {model[4]}, binary exit {o2['rc']} stdout {o2['stdout'][:120]!r}")
    if panics:
        c.known_hit("nonutf8_argv_with_config", {"argv_hex": [hx(a) for a in specs[3]["argv"]], "config_file": "", "exit": o["rc"], "stderr": o["stderr"][:160].decode("utf-8", "replace"),
                                                  "model": model[3], "second_witness": res["nonutf8_file_name_with_config_binary"]})
    elif o["rc"] == 0 and plain[1] == "ok " + hx(o["stdout"]):
        c.problem("correspondence", "cli.config", "model says the splice panics for a non-UTF-8 argument with an empty config file, the binary renders: the model of cli_with_config is out of date", {"model": model[3]})
    else:
        c.violation("non-UTF-8 file name with a config file: neither rendered nor the known panic", {"argv": [hx(a) for a in specs[3]["argv"]], "exit": o["rc"], "stderr": o["stderr"][:300].decode("utf-8", "replace")})
    # double dash
    o = obs[6]
    if o["rc"] == 0 and plain[3] == "ok " + hx(o["stdout"]):
        res["double_dash_config"] = "rendered with the config's options"
    elif o["rc"] == T.exit_read and b"failed to read --smart" in o["stderr"] and not o["stdout"]:
        res["double_dash_config"] = "config option read as a FILE argument: exit 3"
        c.known_hit("double_dash_config", {"argv": "comrak --config-file my.config --syntax-highlighting none -- b.md", "config_file": "--smart", "exit": o["rc"], "stderr": o["stderr"][:160].decode("utf-8", "replace")})
    else:
        c.violation("`--` on the command line with a config file: unexpected behaviour", {"exit": o["rc"], "stderr": o["stderr"][:300].decode("utf-8", "replace"), "stdout": o["stdout"][:200].decode("utf-8", "replace")})
    for sp in specs:
        c.count(repr((sp["argv"], sorted(sp["files"].items()))), True)
    c.cov["correspondences"]["cli.config"] = res


def failure_observations(c, T, rng, binary, root):
    """Invalid UTF-8 and unreadable input: non-zero exit, a message on stderr, nothing on stdout, and the
    --output / in-place target keeps its previous content.  OBSERVATIONS of the compiled binary."""
    BAD = b"ok line\n\xff\xfe broken\n"
    prev = b"previous content of the output file\n"
    S = []

    def add(name, argv, files, stdin=b"", keep=(), want_rc=None, mkdirs=None, known=None):
        S.append({"name": name, "argv": [a.encode() if isinstance(a, str) else a for a in argv], "files": files, "stdin": stdin, "keep": keep, "want_rc": want_rc, "mkdirs": mkdirs, "known": known})

    for fmt in T.formats:
        add(f"invalid-utf8 stdin -t {fmt}", ["-c", "none", "-t", fmt], {}, stdin=BAD)
        add(f"invalid-utf8 file -t {fmt}", ["-c", "none", "-t", fmt, "bad.md"], {b"bad.md": BAD}, keep=(b"bad.md",))
        add(f"invalid-utf8 second of three -t {fmt}", ["-c", "none", "-t", fmt, "a.md", "bad.md", "c.md"], {b"a.md": PART_A, b"bad.md": BAD, b"c.md": PART_C}, keep=(b"a.md", b"bad.md", b"c.md"))
        add(f"invalid-utf8 --output -t {fmt}", ["-c", "none", "-t", fmt, "-o", "out.bin", "bad.md"], {b"bad.md": BAD, b"out.bin": prev}, keep=(b"bad.md", b"out.bin"))
        add(f"missing file -t {fmt}", ["-c", "none", "-t", fmt, "nope.md"], {}, want_rc=T.exit_read)
        add(f"missing second file --output -t {fmt}", ["-c", "none", "-t", fmt, "-o", "out.bin", "a.md", "nope.md"], {b"a.md": PART_A, b"out.bin": prev}, keep=(b"a.md", b"out.bin"), want_rc=T.exit_read)
        add(f"directory as input -t {fmt}", ["-c", "none", "-t", fmt, "dir"], {}, mkdirs=["dir"])
    # a truncated multi-byte sequence split over two files is valid once concatenated (bytes are concatenated, then decoded)
    add("invalid-utf8 --inplace", ["-c", "none", "-i", "bad.md"], {b"bad.md": BAD}, keep=(b"bad.md",))
    add("missing file --inplace", ["-c", "none", "-i", "nope.md"], {}, want_rc=T.exit_read)
    add("in-place without a file", ["-c", "none", "-i"], {}, stdin=SMALL, want_rc=4)
    add("in-place with two files", ["-c", "none", "-i", "a.md", "c.md"], {b"a.md": PART_A, b"c.md": PART_C}, keep=(b"a.md", b"c.md"), want_rc=4)
    add("in-place with --to", ["-c", "none", "-i", "-t", "commonmark", "a.md"], {b"a.md": PART_A}, keep=(b"a.md",), want_rc=T.exit_usage)
    add("in-place with --output", ["-c", "none", "-i", "-o", "out.bin", "a.md"], {b"a.md": PART_A, b"out.bin": prev}, keep=(b"a.md", b"out.bin"), want_rc=T.exit_usage)
    add("unknown option", ["-c", "none", "--no-such-flag"], {}, stdin=SMALL, want_rc=T.exit_usage)
    add("unknown extension value", ["-c", "none", "-e", "nope"], {}, stdin=SMALL, want_rc=T.exit_usage)
    add("gated --gemojis", ["-c", "none", "--gemojis"], {}, stdin=SMALL, want_rc=T.exit_usage)
    add("unknown theme", ["-c", "none", "--syntax-highlighting", "no-such-theme", "-o", "out.bin"], {b"out.bin": prev}, stdin=b"para\n\n```rust\nx\n```\n", keep=(b"out.bin",), known="unknown_theme")
    specs = [{"argv": s["argv"], "files": s["files"], "stdin": s["stdin"], "mkdirs": s["mkdirs"]} for s in S]
    with concurrent.futures.ThreadPoolExecutor(max_workers=vlib.NPROC) as ex:
        obs = list(ex.map(run_case, [(binary, root, 95000 + i, sp) for i, sp in enumerate(specs)]))
    table = []
    for s, o in zip(S, obs):
        c.count(repr((s["argv"], sorted(s["files"].items()), s["stdin"])), True)
        kept = all(o["files"].get(n) == s["files"][n] for n in s["keep"])
        good = isinstance(o["rc"], int) and o["rc"] > 0 and o["rc"] != 101 and len(o["stderr"]) > 0 and not o["stdout"] and kept
        if s["want_rc"] is not None and o["rc"] != s["want_rc"]:
            good = False
        table.append({"case": s["name"], "exit": o["rc"], "stderr": o["stderr"][:100].decode("utf-8", "replace").strip(), "stdout_bytes": len(o["stdout"]), "targets_intact": kept})
        if good:
            continue
        case = {"name": s["name"], "argv": [a.decode("utf-8", "replace") for a in s["argv"]], "exit": o["rc"], "stdout": hx(o["stdout"][:300]), "stderr": o["stderr"][:300].decode("utf-8", "replace"),
                "targets_intact": kept, "files": {k.decode("utf-8", "replace"): hx(v) for k, v in s["files"].items()}, "stdin": hx(s["stdin"])}
        if s["known"] == "unknown_theme":
            shipped = " ".join(hx(t) for t in THEMES + ["base16-mocha.dark", "base16-ocean.light", "Solarized (light)"])
            cls = vlib.run_one(vlib.DRIVER, "cli_known theme syntax_highlighting=%s %s" % (hx("no-such-theme"), shipped))
            if cls != "ok 1":
                c.problem("driver", "cli_known", f"unknown_theme predicate answered {cls}")
        if s["known"] and o["rc"] == 101:
            c.known_hit(s["known"], case)
        else:
            c.violation("failure case must end in a non-zero exit status with a message, never a crash, with nothing on stdout and targets intact", case)
    c.cov["failure_observations"] = table
    c.cov["spec_checks"]["failure cases: exit status non-zero and not a panic, message on stderr, stdout empty, --output / in-place target intact (observed)"] = len(S)


def replay(r):
    """./check replay <file> for a C16 failing input: run the binary again on the recorded argv / files /
    stdin and show what the library gives under the generated and the documented options."""
    case = r.get("case") or {}
    if "argv" not in case:
        return 0
    ok, out, binary = vlib.build_cli()
    vlib.build_harness("debug"); vlib.build_driver()
    root = tempfile.mkdtemp(prefix="c16-replay-")
    try:
        argv = [unhx(a) if not isinstance(a, str) or all(ch in "0123456789abcdef-" for ch in a) else a.encode() for a in case["argv"]]
        files = {k.encode(): unhx(v) for k, v in (case.get("files") or {}).items()}
        o = run_case((binary, root, 0, {"argv": argv, "files": files, "stdin": unhx(case.get("stdin", "-")), "mkdirs": ["dir"]}))
        print("binary: exit", o["rc"])
        print("  stdout:", o["stdout"][:2000])
        print("  stderr:", o["stderr"][:600])
        for n, v in o["files"].items():
            if files.get(n) != v:
                print("  file %r now:" % n, v[:2000])
        for k in ("render_model", "render_documented"):
            if case.get(k):
                res = vlib.run_one(vlib.VH["debug"], case[k])
                print(k + ":", unhx(res[3:])[:2000] if res.startswith("ok ") else res)
    finally:
        shutil.rmtree(root, ignore_errors=True)
    return 0
