"""BLOCKS_TIE — tie of the block-parser model (coq/Model/Blocks.v, RefDef.v) to the compiled parser of /repo.

Both sides answer `blocks <opts> <mdhex>`: the harness runs parse_document with the guarded switch
`stop_after_blocks` (harness/src/ops_blocks.rs) and dumps the tree with the crate-private fields
(content, open, last_line_blank, internal_offset, line_offsets) and the source positions; the driver
(ocaml/d_blocks.ml) prints the tree built by `Blocks.parse_blocks` in the same token format.  The comparison
is string equality of the two answer lines (nothing is normalised).

Scopes
  exhaustive   every document of length <= 5 (6 in thorough) over the block-structure alphabet
               {a space \\n > - 1 . # ` ~ = | : [ ] tab}, under two option sets (default, all block extensions)
  structured   products of block-structure line fragments (markers x indents x continuation lines)
  docgen       tools/docgen.py documents (grammar-based and malformed) under random option sets
  lineends     CR / CRLF / NUL / BOM / front matter variants of generated documents
  special      the caps (list depth 100, link label 1000 bytes), wide tables, long fences, tab stops at every column

`tie_blocks(c, tier)` is for other checks; `./check BLOCKS_TIE quick` runs it alone together with the theorems
of coq/Props/Blocks.v and writes evidence/BLOCKS_TIE.json.  Every disagreement is shrunk (tools/shrink.py)."""
import itertools, os, sys
import vlib, docgen, shrink
from vlib import hx

ALPHABET = [b"a", b" ", b"\n", b">", b"-", b"1", b".", b"#", b"`", b"~", b"=", b"|", b":", b"[", b"]", b"\t"]
BLOCK_EXT = ["table", "footnotes", "description_lists", "multiline_block_quotes", "alerts", "spoiler", "greentext"]
OPT_ALL = {k: True for k in BLOCK_EXT}
# options the block phase reads (everything else is ignored by both sides)
BLOCK_KEYS = set(BLOCK_EXT) | {"ignore_setext", "front_matter_delimiter", "default_info_string"}

LINES = [
    "a", "", "  ", "    a", "\ta", "> a", ">a", ">", "> > a", ">> a", ">>> a", ">>>", "- a", "-", "- ", "-  a", "-     a", "* a", "+ a",
    "1. a", "1) a", "2. a", "10. a", "1.", "  - a", "    - a", "   > a", "# a", "## a ##", "#", "####### a", "# a #  ", "#\ta",
    "===", "---", "- - -", "***", "___", "--", "=", "  ===", "```", "````", "``` rs", "~~~", "~~~ a ~", "  ```", "   ```", "`` a", "```a`b",
    "<div>", "</div>", "<!-- a", "-->", "<?a", "?>", "<!A", "<![CDATA[", "]]>", "<a>", "<pre>", "</pre>", "<script>x</script>", "<a href=\"b\">",
    "[a]: b", "[a]: b 'c'", "[a]:", "[a]: <b> \"c\"", "[a]: b c", "[a]", "  [a]: b", "[A B]:\tb", "[a]: b 'c", "c'", "[\\]]: b", "[a]: b\\", "'t'",
    "|a|b|", "|-|-|", "a|b", "-|-", ":-|-:", "|:-:|", "| a |", "|a", "a\\|b|c", "--|--", "|", "||", "|-", "a|b|c", "- | -", "|-|",
    ": a", ":a", ":  a", "  : a", "a\tb", "\t\ta", " \ta", "-\ta", ">\ta", "-\t\ta", "1.\ta", " - a", "   - a", "  a", "   a",
    "[^a]: b", "[^a]:", "    b", "[^a]:b", "[^a b]: c", "> [!note]", "> [!NOTE] t", ">[!tip]", ">>> [!warning]", "> [!x]", ">> [!note]", "> [!caution] a&amp;b",
    "- [ ] a", "- [x] a", ">a", ">  a", ">\t\ta", " a", "é", "- é", "> é|ü", "|é|ü|", "a  ", "a\\", "\\# a", "&amp;", "``` &amp; \\*",
]


def restrict(d):
    return {k: v for k, v in d.items() if k in BLOCK_KEYS}


def case_line(opts, doc):
    return f"blocks {docgen.opts_token(opts)} {hx(doc)}"


def exhaustive_docs(maxlen):
    out = [b""]
    layer = [b""]
    for _ in range(maxlen):
        layer = [p + a for p in layer for a in ALPHABET]
        out.extend(layer)
    return out


def structured_docs(rng, n):
    out = []
    # all pairs, and random triples / longer sequences of line fragments
    for a in LINES:
        for b in LINES:
            out.append((a + "\n" + b + "\n").encode())
    for _ in range(n):
        k = rng.choice([3, 3, 4, 5, 6, 8])
        ls = [rng.choice(LINES) for _ in range(k)]
        # nest some lines under a prefix
        if rng.random() < 0.5:
            pre = rng.choice(["> ", "- ", "  ", "    ", "1. ", ">", "   ", "\t", "> - ", "- > "])
            i = rng.randrange(0, k)
            ls = [(pre + l if j >= i and rng.random() < 0.8 else l) for j, l in enumerate(ls)]
        end = rng.choice(["\n", "\n", "\n", "", "\r\n", "\r"])
        sep = rng.choice(["\n", "\n", "\n", "\r\n", "\r"])
        out.append((sep.join(ls) + end).encode())
    return out


def is_utf8(b):
    try:
        b.decode("utf-8")
        return True
    except UnicodeDecodeError:
        return False


def special_docs():
    """caps and deep structures that random generation does not reach: MAX_LIST_DEPTH (100), long link labels
    (MAX_LINK_LABEL_LENGTH 1000), many table columns, deep quotes, long fences, tabs at every column"""
    out = []
    for n in (98, 99, 100, 101, 102, 120):
        out.append(("- " * n + "a\n").encode())
        out.append((">" * n + " a\n").encode())
        out.append(("1. " * n + "a\n").encode())
        out.append(("> - " * (n // 2) + "a\nb\n").encode())
        out.append(("[^a]: " * n + "x\n").encode())
        out.append("".join(" " * (2 * i) + "- a\n" for i in range(n)).encode())
    for n in (998, 999, 1000, 1001, 1002):
        out.append(("[" + "a" * n + "]: b\n").encode())
        out.append(("[" + "\\]" * (n // 2) + "]: b\nc\n").encode())
    for n in (1, 2, 50, 300):
        out.append(("|" + "a|" * n + "\n|" + "-|" * n + "\n|" + "b|" * (n // 2 + 1) + "\n" + "|c" * (n + 3) + "\n").encode())
        out.append(("`" * (n + 2) + " x\ny\n" + "`" * (n + 1) + "\n" + "`" * (n + 2) + "\nz\n").encode())
        out.append(("#" * n + " a " + "#" * n + "\n").encode())
        out.append(("a\n" * n + "===\n").encode())
        out.append(("[a]: b\n" * n + "c\n---\n").encode())
    for k in range(0, 9):
        for t in ("\t", " \t", "  \t", "\t\t", "\t \t"):
            out.append((" " * k + "-" + t + "a\n" + " " * k + t + "b\n").encode())
            out.append((" " * (k % 4) + ">" + t + "a\n>" + t + t + "b\n").encode())
            out.append((" " * (k % 4) + "1." + t + "a\n\n" + t + "b\n").encode())
    # BLK-1 / INL-2 (repaired): a reference-only paragraph removed after its list was closed by add_child; a title
    # whose line is given back to the paragraph
    for closer in ("# h", "* b", "1. b", "> q", "```", "---", "<div>"):
        out.append(("- a\n\n  [x]: y\n" + closer + "\n").encode())
        out.append(("- a\n\n  [x]: y\n  [z]: w\n" + closer + "\n").encode())
        out.append(("- a\n\n  [x]: y\n  c\n" + closer + "\n").encode())
        out.append(("- a\n- b\n\n  [x]: y\n" + closer + "\n").encode())
        out.append(("- a\n  - b\n\n    [x]: y\n" + closer + "\n").encode())
        out.append(("> - a\n>\n>   [x]: y\n> " + closer + "\n").encode())
    out.append(b'[a]: /u\n"t" junk\n\n[a]\n')
    out.append(b"[a]: /u\n't' junk\n[b]: /v\n(t)\n")
    return out


def lineend_variants(rng, docs):
    return [d for d in lineend_variants0(rng, docs) if is_utf8(d)]


def lineend_variants0(rng, docs):
    out = []
    for d in docs:
        t = rng.random()
        if t < 0.2:
            out.append(d.replace(b"\n", b"\r\n"))
        elif t < 0.35:
            out.append(d.replace(b"\n", b"\r"))
        elif t < 0.5:
            out.append(b"\xef\xbb\xbf" + d)
        elif t < 0.65:
            i = rng.randrange(0, len(d) + 1)
            out.append(d[:i] + b"\0" + d[i:])
        elif t < 0.8:
            out.append(d.rstrip(b"\n"))
        else:
            out.append(b"---\n" + d[: len(d) // 3] + b"\n---\n" + d[len(d) // 3:])
    return out


def run_both(lines):
    real = vlib.run_lines(vlib.VH["debug"], lines, timeout=1500)
    model = vlib.run_lines(vlib.DRIVER, lines, timeout=1500)
    return real, model


def agree(a, m):
    if a.startswith("panic") and m.startswith("panic"):
        return True            # both panic: the sites are compared by the caller's report
    return a == m


def shrink_case(opts, doc):
    """ddmin on the document (as latin-1 string of bytes, re-validated as UTF-8), then on the options"""
    def pred_doc(s):
        b = s.encode("latin-1")
        try:
            b.decode("utf-8")
        except UnicodeDecodeError:
            return False
        l = case_line(opts, b)
        a = vlib.run_one(vlib.VH["debug"], l)
        m = vlib.run_one(vlib.DRIVER, l)
        return not agree(a, m)
    s = doc.decode("latin-1")
    if not pred_doc(s):
        return opts, doc
    s = shrink.ddmin(s, pred_doc)
    d2 = s.encode("latin-1")

    def pred_opts(o):
        l = case_line(o, d2)
        return not agree(vlib.run_one(vlib.VH["debug"], l), vlib.run_one(vlib.DRIVER, l))
    o2 = shrink.shrink_opts(opts, pred_opts)
    return o2, d2


def tie_blocks(c, tier, builds_done=False, max_report=12, frac=1.0):
    """runs the scopes; returns (all_ok, per-scope counts).  frac < 1 keeps that fraction of every scope
    (used by the property checks that share this tie; the full scopes run in C04 thorough / BLOCKS_TIE)"""
    if not builds_done and not c.phase_builds(("debug",)):
        return False, {}
    rng = c.rng
    q = tier == "quick"
    scopes = []
    ex = exhaustive_docs(4 if q else 5)
    if q:
        # quick: all documents of length <= 4 and a random 1/12 of length 5
        five = [p + a for p in exhaustive_docs(4) if len(p) == 4 for a in ALPHABET]
        ex = ex + [d for d in five if rng.random() < 1 / 12]
    else:
        six = [p + a for p in ex if len(p) == 5 for a in ALPHABET]
        ex = ex + [d for d in six if rng.random() < 1 / 4]
    scopes.append(("exhaustive", [(o, d) for d in ex for o in ({}, OPT_ALL)]))
    st = structured_docs(rng, 1500 if q else 30000)
    scopes.append(("structured", [(rng.choice([{}, OPT_ALL, OPT_ALL, restrict(docgen.gen_opts(rng))]), d) for d in st]))
    dg = []
    for _ in range(1200 if q else 20000):
        d = docgen.gen_doc(rng) if rng.random() < 0.7 else docgen.gen_malformed(rng)
        if isinstance(d, str):
            d = d.encode("utf-8")
        dg.append((restrict(docgen.gen_opts(rng)), d))
    scopes.append(("docgen", dg))
    base = [d for _, d in dg[: (600 if q else 8000)]] + st[-(400 if q else 4000):]
    le = lineend_variants(rng, base)
    scopes.append(("lineends", [(rng.choice([{}, OPT_ALL, {"front_matter_delimiter": "---"}, dict(OPT_ALL, front_matter_delimiter="---")]), d) for d in le]))

    sp = special_docs()
    scopes.append(("special", [(o, d) for d in sp for o in ({}, OPT_ALL)]))

    all_ok = True
    counts = {}
    reported = 0
    if frac < 1.0:
        scopes = [(name, [x for x in cases if rng.random() < frac] or cases[:1]) for name, cases in scopes]
    for name, cases in scopes:
        lines = [case_line(o, d) for o, d in cases]
        real, model = run_both(lines)
        ok = bad = both_panic = oos = 0
        for (o, d), l, a, m in zip(cases, lines, real, model):
            c.count(("blocks:" + l).encode(), len(d) > 3)
            if m.startswith("oos"):
                oos += 1
                continue
            if a.startswith("panic") and m.startswith("panic"):
                both_panic += 1
                c.known_hit("blocks-both-panic", {"line": l, "impl": a[:200], "model": m})
                continue
            if a == m:
                ok += 1
                continue
            bad += 1
            all_ok = False
            if reported < max_report:
                reported += 1
                o2, d2 = shrink_case(o, d)
                l2 = case_line(o2, d2)
                a2, m2 = vlib.run_one(vlib.VH["debug"], l2), vlib.run_one(vlib.DRIVER, l2)
                kind = "violation" if a2.startswith(("panic", "dead", "hang")) and not m2.startswith("panic") else "correspondence"
                c.problem("correspondence", "parser.blocks." + name,
                          f"model and implementation disagree on {d2!r} opts={docgen.opts_token(o2)}\n impl : {a2[:1500]}\n model: {m2[:1500]}",
                          {"line": l2, "doc": d2.decode("utf-8", "replace"), "opts": o2})
        counts[name] = {"cases": len(cases), "agree": ok, "disagree": bad, "both_panic": both_panic, "out_of_scope": oos}
        c.cov["correspondences"]["parser.blocks." + name] = counts[name]
    return all_ok, counts


def main(tier):
    c = vlib.Check("BLOCKS_TIE", tier)
    c.phase_translator(["blocks", "nodes", "feed", "frontmatter", "scanners_re", "strleaf", "entities", "ctype"])
    if os.path.exists(os.path.join(vlib.COQ, "Props", "Blocks.v")):
        c.phase_proofs("Blocks")
    ok, counts = tie_blocks(c, tier)
    c.finish(level="proof",
             rule="theorems of Props/Blocks.v compiled (no assumptions); the model Blocks.parse_blocks and the compiled parser "
                  "(stop_after_blocks) print identical trees, private fields and positions included, on every case of every scope",
             trusted_base=["Coq 8.16.1 kernel + extraction", "OCaml driver printer ocaml/d_blocks.ml", "harness op blocks (ops_blocks.rs)",
                           "hooks stop_after_blocks / node_internals in /repo (cfg comrak_verif)",
                           "case-fold oracle of normalize_label (ASCII lower-casing in the driver; the reference map is not visible in the block tree)"],
             extra={"scope": "whole block phase (no OutOfScope construct); options read: " + ", ".join(sorted(BLOCK_KEYS)),
                    "scopes": counts})


if __name__ == "__main__":
    main(sys.argv[1] if len(sys.argv) > 1 else "quick")
