"""C15 — footnote links and heading anchors are referentially intact.
Theorems: coq/Props/C15.v (anchors: for every slug; footnotes: over Model/Footnotes.process).
Tie: translator item `c15` (statement-level shape audit of Anchorizer::anchorize, process_footnotes and
its three walks, the prefetching children() iterator) + correspondences
  anchors.anchorize   real comrak::Anchorizer vs Model/Anchor.anchorize_all with slug := slug_ascii (ASCII headers only)
  footnotes.pass      Model/Footnotes.process on a pre-tree BUILT BY THE CHECK for structured documents vs the
                      footnote skeleton of the real parser's final tree (names, ix, ref_num, total_references, order)
  footnotes.html      the real HTML's reference / definition sequence vs the model's skeleton (same documents)
Search on the implementation: extracted Spec/FootnoteSpec predicates on every real final tree; id / href
analysis of the real HTML output (structured footnote-dense documents and tools/docgen.py documents)."""
import re
import vlib
import docgen
from vlib import hx, unhx

# ------------------------------------------------------------------------------------------ anchors
ANCHOR_SEED = ["a", "a-1", "a", "A", "a 1", "a-1-1"]
ANCHOR_POOL = ["a", "A", "a-1", "a 1", "a-1-1", "a-2", "a 2", "A-1", "b", "B", "b-1", "a b", "a-b", "a_b", "a.b", "a!", "",
               " ", "-", "--", "- -", "1", "-1", "1-1", "a-10", "a-9", "a-01", "a--1", "x y z", "X-Y-Z", "stuff", "Stuff", "Ticks aren't in",
               "a-1-1-1", "a-3", "a  1", "A 1", "a-11", "_", "0", "-0", "a-0"]
UNI_POOL = ["é", "É", "ǅ", "ß", "ẞ", "İ", "i̇", "漢 字", "漢-字", "😀", "a😀", "a", "Σ", "σ", "ς", "é-1", "É", "ﬁ", "FI", "٣", "á", "á", "_‿", "‿"]


def gen_anchor_seqs(rng, n):
    out = [list(ANCHOR_SEED)]
    for _ in range(n):
        k = rng.choice([1, 2, 3, 5, 8, 13])
        mode = rng.random()
        if mode < 0.5:
            base = rng.sample(ANCHOR_POOL, rng.choice([1, 2, 3]))
            seq = [rng.choice(base) for _ in range(k)]
        elif mode < 0.85:
            seq = [rng.choice(ANCHOR_POOL) for _ in range(k)]
        else:
            # one base repeated, with its own generated suffixes fed back in
            b = rng.choice(["a", "x y", "q"])
            seq = []
            for _ in range(k):
                seq.append(rng.choice([b, b.upper(), f"{b}-{rng.randrange(0, 4)}", f"{b} {rng.randrange(0, 4)}", f"{b}-1-{rng.randrange(0, 3)}"]))
        out.append(seq)
    return out


# ------------------------------------------------------------------------------------------ structured footnote documents
NAMES = ["a", "b", "c", "A", "B", "note", "1", "2", "a-2", "b-2", "x_y", "é", "É", 'a"b', "a%22b", "a%2", "fn", "ß", "SS",
         # names that label normalisation rewrites: interior Unicode white space collapses to one space (the id of the
         # definition and the href of its references must be built from the same, normalised, name)
         "a\u3000b", "a\u00a0\u00a0b", "x\u2003y",
         # names on which normalising TWICE differs from normalising once (Unicode white space at either end becomes an
         # ASCII space that the next round trims): the reference walk must not normalise the stored name again (fix C15-d)
         "\u00a0lead", "trail\u3000", "\u2003q\u00a0"]
REFONLY = ["nosuch", "zz", "a b", "9"]
WORDS = ["alpha", "beta", "gamma", "delta", "x", "y", "z", "foo", "bar", "7", "w1"]


def g_inl(rng, names):
    n = rng.choice([1, 2, 3, 4, 6])
    out = []
    for i in range(n):
        if rng.random() < 0.45:
            out.append(("r", rng.choice(names) if rng.random() < 0.85 else rng.choice(REFONLY)))
        else:
            out.append(("t", rng.choice(WORDS)))
    if all(k == "r" for k, _ in out) and rng.random() < 0.7:
        out.insert(0, ("t", rng.choice(WORDS)))
    return out


def g_blocks(rng, names, depth, in_def, in_quote=False):
    n = rng.choice([1, 1, 2, 3]) if depth else rng.choice([2, 3, 4, 6, 8])
    out = []
    for _ in range(n):
        r = rng.random()
        if r < 0.45 or depth >= 2:
            out.append(("p", g_inl(rng, names)))
        elif r < 0.55 and not in_def and depth == 0:
            out.append(("h", rng.choice([1, 2, 3]), [("t", rng.choice(["fn", "a", "fn a", "Title", "fnref a", "x"]))] + ([("t", rng.choice(WORDS))] if rng.random() < 0.5 else [])))
        elif r < 0.88:
            if in_def and rng.random() > 0.12:
                out.append(("p", g_inl(rng, names)))
            else:
                kids = [("p", g_inl(rng, names))]
                # inside a block quote a definition ends at the first blank quote line (the continuation test
                # compares the whole line with a bare newline), so only one-paragraph definitions there
                if rng.random() < 0.3 and not in_quote:
                    kids += g_blocks(rng, names, depth + 1, True)
                out.append(("d", rng.choice(names), kids))
        else:
            out.append(("q", g_blocks(rng, names, depth + 1, in_def, True)))
    return out


def md_lines(blocks):
    lines = []
    for i, b in enumerate(blocks):
        if i:
            lines.append("")
        if b[0] == "p":
            lines.append(" ".join(f"[^{v}]" if k == "r" else v for k, v in b[1]))
        elif b[0] == "h":
            lines.append("#" * b[1] + " " + " ".join(v for _, v in b[2]))
        elif b[0] == "d":
            sub = md_lines(b[2])
            lines.append(f"[^{b[1]}]: " + sub[0])
            lines.extend(("    " + l) if l else "" for l in sub[1:])
        elif b[0] == "q":
            lines.extend((">" + (" " + l if l else "")) for l in md_lines(b[1]))
    return lines


def pre_tokens(blocks):
    out = []
    for b in blocks:
        if b[0] == "p":
            out.append("( Paragraph 0 0 0 0")
            for k, v in b[1]:
                out.append(f"( FootnoteReference 0 0 0 0 {hx(v)} 0 0 )" if k == "r" else f"( Text 0 0 0 0 {hx(v)} )")
            out.append(")")
        elif b[0] == "h":
            out.append(f"( Heading 0 0 0 0 {b[1]} 0")
            for _, v in b[2]:
                out.append(f"( Text 0 0 0 0 {hx(v)} )")
            out.append(")")
        elif b[0] == "d":
            out.append(f"( FootnoteDefinition 0 0 0 0 {hx(b[1])} 0 " + pre_tokens(b[2]) + " )")
        elif b[0] == "q":
            out.append("( BlockQuote 0 0 0 0 " + pre_tokens(b[1]) + " )")
    return " ".join(out)


def all_names(blocks, acc):
    for b in blocks:
        if b[0] == "p":
            acc.update(v for k, v in b[1] if k == "r")
        elif b[0] == "d":
            acc.add(b[1])
            all_names(b[2], acc)
        elif b[0] == "q":
            all_names(b[1], acc)
    return acc


def gen_struct_doc(rng):
    names = rng.sample(NAMES, rng.choice([1, 2, 3, 4, 6]))
    blocks = g_blocks(rng, names, 0, False)
    return blocks


WITNESS_DOCS = [
    # F8, F22, F8b, and the two classes found while building this check
    [("p", [("t", "text")]), ("d", "a", [("p", [("t", "x"), ("r", "b")])]), ("d", "b", [("p", [("t", "y")])])],
    [("p", [("t", "x"), ("r", "a")]), ("d", "a", [("p", [("t", "one")]), ("d", "b", [("p", [("t", "two")])])])],
    [("p", [("t", "x"), ("r", 'a"b'), ("t", "y"), ("r", "a%22b")]), ("d", 'a"b', [("p", [("t", "one")])]), ("d", "a%22b", [("p", [("t", "two")])])],
    [("p", [("t", "x"), ("r", "a"), ("r", "a"), ("r", "a-2")]), ("d", "a", [("p", [("t", "one")])]), ("d", "a-2", [("p", [("t", "two")])])],
    [("h", 1, [("t", "fn a")]), ("p", [("t", "x"), ("r", "a")]), ("d", "a", [("p", [("t", "one")])])],
    # duplicate definition: the later one wins; the earlier one holds a reference
    [("p", [("r", "a"), ("t", "x")]), ("d", "a", [("p", [("t", "first"), ("r", "b")])]), ("d", "A", [("p", [("t", "second")])]), ("d", "b", [("p", [("t", "bee")])])],
]

# ------------------------------------------------------------------------------------------ HTML analysis
RE_REF = re.compile(r'<sup class="footnote-ref"><a href="#fn-([^"]*)" id="([^"]*)" data-footnote-ref>(\d+)</a></sup>')
RE_LI = re.compile(r'<li id="fn-([^"]*)">')
RE_BACK = re.compile(r'<a href="#fnref-([^"]*)" class="footnote-backref" data-footnote-backref data-footnote-backref-idx="([^"]*)" '
                     r'aria-label="Back to reference ([^"]*)">↩(?:<sup class="footnote-ref">(\d+)</sup>)?</a>')
RE_HEAD = re.compile(r'<h([1-6])><a href="#([^"]*)" aria-hidden="true" class="anchor" id="([^"]*)"></a>')
RE_ID = re.compile(r'\sid="([^"]*)"')
RE_FNHREF = re.compile(r'\shref="#(fn(?:ref)?-[^"]*)"\s(?:id=|class="footnote-backref")')
RE_SECTION = re.compile(r'<section class="footnotes" data-footnotes>')


def html_facts(html):
    f = {}
    f["refs"] = [(m.start(), m.group(1), m.group(2), int(m.group(3))) for m in RE_REF.finditer(html)]
    f["lis"] = [(m.start(), m.group(1)) for m in RE_LI.finditer(html)]
    f["backs"] = [(m.start(), m.group(1), m.group(2), m.group(3), m.group(4)) for m in RE_BACK.finditer(html)]
    f["heads"] = [(m.group(2), m.group(3)) for m in RE_HEAD.finditer(html)]
    f["ids"] = [m.group(1) for m in RE_ID.finditer(html)]
    f["fnhrefs"] = [m.group(1) for m in RE_FNHREF.finditer(html)]
    f["sections"] = [m.start() for m in RE_SECTION.finditer(html)]
    return f


def html_failures(html, prefix_esc):
    """-> (facts, list of (kind, detail)).  prefix_esc: the escaped header-id prefix or None."""
    f = html_facts(html)
    fails = []
    ids = f["ids"]
    cnt = {}
    for i in ids:
        cnt[i] = cnt.get(i, 0) + 1
    # the structured extraction must account for every footnote href and every id (extraction self-check)
    if len(f["fnhrefs"]) != len(f["refs"]) + len(f["backs"]):
        fails.append(("extraction", f"{len(f['fnhrefs'])} footnote hrefs but {len(f['refs'])} refs + {len(f['backs'])} backrefs recognised"))
    if len(ids) != len(f["refs"]) + len(f["lis"]) + len(f["heads"]):
        fails.append(("extraction", f"{len(ids)} id attributes but {len(f['refs'])}+{len(f['lis'])}+{len(f['heads'])} recognised"))
    for i, n in cnt.items():
        if n > 1:
            fails.append(("dup_id", i))
    # heading anchors: id = prefix + href target, pairwise distinct
    hid = [h[1] for h in f["heads"]]
    if len(set(hid)) != len(hid):
        fails.append(("dup_heading_id", str(hid)))
    if prefix_esc is not None:
        for tgt, i in f["heads"]:
            if i != prefix_esc + tgt:
                fails.append(("heading_href", f"href=#{tgt} id={i}"))
    elif f["heads"]:
        fails.append(("heading_anchor_without_option", str(f["heads"])))
    # references -> definitions
    linames = [n for _, n in f["lis"]]
    for _, name, rid, num in f["refs"]:
        if cnt.get("fn-" + name, 0) != 1:
            fails.append(("ref_target", f"href=#fn-{name} has {cnt.get('fn-' + name, 0)} ids"))
    # back-references <-> references
    refids = [r[2] for r in f["refs"]]
    for _, tgt, idx, lab, sup in f["backs"]:
        n = refids.count("fnref-" + tgt)
        if n == 0:
            fails.append(("dangling_backref", f"href=#fnref-{tgt}"))
        elif n > 1:
            fails.append(("backref_multi", f"href=#fnref-{tgt} has {n} ids"))
        if idx != lab:
            fails.append(("backref_label", f"idx={idx} label={lab}"))
    backtg = ["fnref-" + b[1] for b in f["backs"]]
    for rid in refids:
        if backtg.count(rid) != 1:
            fails.append(("ref_without_backref", f"id={rid} is the target of {backtg.count(rid)} back-references"))
    # every reference id has the form fnref-<name>[-k]
    for _, name, rid, num in f["refs"]:
        if not (rid == "fnref-" + name or re.fullmatch(re.escape("fnref-" + name) + r"-[1-9][0-9]*", rid)):
            fails.append(("ref_id_form", f"href=#fn-{name} id={rid}"))
    # numbering: k-th <li> <-> references numbered k; numbers exactly 1..n
    n = len(linames)
    pos = {}
    for k, nm in enumerate(linames):
        pos.setdefault(nm, k + 1)
    for _, name, rid, num in f["refs"]:
        if name in pos and pos[name] != num:
            fails.append(("numbering", f"reference to fn-{name} shows {num}, definition is item {pos[name]}"))
        if not (1 <= num <= n):
            fails.append(("numbering", f"reference number {num} outside 1..{n}"))
    if len(f["sections"]) > 1 or (n > 0) != (len(f["sections"]) == 1):
        fails.append(("section", f"{len(f['sections'])} footnote sections for {n} definitions"))
    # each definition carries its own back-references: target fnref-<name>[-j], idx k[-j], j = 2..
    bounds = [p for p, _ in f["lis"]] + [len(html)]
    for k, (p, nm) in enumerate(f["lis"]):
        mine = [b for b in f["backs"] if bounds[k] <= b[0] < bounds[k + 1]]
        if not mine:
            fails.append(("li_without_backref", f"fn-{nm}"))
        for j, b in enumerate(mine):
            want_t = nm if j == 0 else f"{nm}-{j + 1}"
            want_i = f"{k + 1}" if j == 0 else f"{k + 1}-{j + 1}"
            if b[1] != want_t or b[2] != want_i or (b[4] or "1") != str(j + 1):
                fails.append(("backref_form", f"item {k + 1} fn-{nm}: back-reference {j + 1} is href=#fnref-{b[1]} idx={b[2]}"))
    # first-reference order, when no reference sits inside a definition: 1, 2, ..., n
    if f["sections"]:
        sec = f["sections"][0]
        if not any(r[0] > sec for r in f["refs"]):
            seen = []
            for r in f["refs"]:
                if r[3] not in seen:
                    seen.append(r[3])
            if seen != list(range(1, n + 1)):
                fails.append(("first_reference_order", f"first occurrences {seen}, {n} definitions"))
    return f, fails


EXPLAINS = {
    "nested_definition": None,  # anything: the renderer's counters are off inside nested definitions
    "ref_in_dropped_def": {"dangling_backref", "first_reference_order", "ref_without_backref"},
    "pct_hex_names": {"dup_id", "ref_target", "backref_multi", "ref_without_backref", "numbering", "backref_form"},
    "refnum_suffix_names": {"dup_id", "backref_multi", "ref_without_backref"},
    "heading_id_vs_footnote_id": {"dup_id", "ref_target"},
    "ref_in_image_alt": {"dangling_backref", "first_reference_order", "html_vs_tree", "ref_without_backref"},
}


def ref_under_image(tree_line):
    """a FootnoteReference with an Image ancestor in the dumped tree (alt text is rendered as plain text)"""
    t = tree_line.split()
    stack = []
    for i, x in enumerate(t):
        if x == "(":
            k = t[i + 1]
            if k == "FootnoteReference" and "Image" in stack:
                return True
            stack.append(k)
        elif x == ")" and stack:
            stack.pop()
    return False


def skeleton_parse(s):
    """' D name total depth R name refnum ix ...' -> list of tuples"""
    t = s.split()
    out = []
    i = 0
    while i < len(t):
        out.append((t[i], t[i + 1], int(t[i + 2]), int(t[i + 3])))
        i += 4
    return out


def main(tier):
    c = vlib.Check("C15", tier)
    rng = c.rng
    c.phase_translator(["c15", "tables"])
    c.phase_proofs()
    if not c.phase_builds(("debug",)):
        c.finish(rule="build failed")
    vh, drv = vlib.VH["debug"], vlib.DRIVER
    big = tier != "quick"

    # ====================================================================== A. anchors
    seqs = gen_anchor_seqs(rng, 40000 if big else 10000)
    lines = ["anchorize " + " ".join(hx(h) for h in s) for s in seqs]
    impl = vlib.run_lines(vh, lines)
    model = vlib.run_lines(drv, lines)
    agree = 0
    for s, l, a, m in zip(seqs, lines, impl, model):
        c.count(l, len(set(x.lower() for x in s)) < len(s) or any(re.search(r"[- ]\d+$", x) for x in s))
        if a != m:
            c.problem("correspondence", "anchors.anchorize", f"headers={s!r} impl={a} model={m}", {"line": l, "impl": a, "model": m})
        else:
            agree += 1
        if a.startswith("ok"):
            ids = a.split()[1:]
            if len(set(ids)) != len(ids) or len(ids) != len(s):
                c.violation("heading anchors issued by one Anchorizer are not pairwise distinct", {"headers": s, "line": l, "impl": a})
        else:
            c.violation("Anchorizer::anchorize does not return normally", {"headers": s, "line": l, "impl": a})
    c.cov["correspondences"]["anchors.anchorize"] = {"cases": len(seqs), "agree": agree,
                                                      "domain": "ASCII headers only (slug := slug_ascii); one Anchorizer per sequence"}
    c.cov["samples"].append({"op": lines[0], "impl": impl[0], "model": model[0]})
    # fuel: exactly |issued| + 1 is enough, on the model, for adversarial issued sets (a, a-1, ..., a-k)
    fl = []
    for k in range(0, 40):
        issued = ["a"] + [f"a-{i}" for i in range(1, k + 1)]
        fl.append((k, f"anchorize_fuel {len(issued) + 1} " + " ".join(hx(x) for x in issued) + f" | {hx('A')}", f"ok {hx('a-%d' % (k + 1))}"))
        fl.append((k, f"anchorize_fuel {len(issued)} " + " ".join(hx(x) for x in issued) + f" | {hx('A')}", "fuel"))
    got = vlib.run_lines(drv, [x[1] for x in fl])
    for (k, l, want), g in zip(fl, got):
        c.count(l, True)
        if g != want:
            c.problem("correspondence", "anchors.fuel_bound_tight", f"{l} -> {g}, expected {want}", {"line": l, "got": g})
    # Unicode headers: no model instance; distinctness on the implementation only
    useqs = [[rng.choice(UNI_POOL + ANCHOR_POOL[:8]) for _ in range(rng.choice([2, 4, 8, 12]))] for _ in range(6000 if big else 1500)]
    ul = ["anchorize " + " ".join(hx(h) for h in s) for s in useqs]
    for s, l, a in zip(useqs, ul, vlib.run_lines(vh, ul)):
        c.count(l, True)
        ids = a.split()[1:] if a.startswith("ok") else None
        if ids is None or len(set(ids)) != len(ids) or len(ids) != len(s):
            c.violation("heading anchors issued by one Anchorizer are not pairwise distinct (Unicode headers)", {"headers": s, "line": l, "impl": a})
    c.cov["spec_checks"]["anchors: ids of one Anchorizer pairwise distinct (ASCII + Unicode header sequences)"] = len(seqs) + len(useqs)

    # ====================================================================== B/C. structured footnote documents
    docs = list(WITNESS_DOCS) + [gen_struct_doc(rng) for _ in range(40000 if big else 8000)]
    mds = ["\n".join(md_lines(d)) + "\n" for d in docs]
    pres = [f"( Document 0 0 0 0 {pre_tokens(d)} )" for d in docs]
    # label table through the real normalize_label (both casings), closed under `preserve`
    labels = sorted(set().union(*[all_names(d, set()) for d in docs]) | set(NAMES) | set(REFONLY))
    nl = vlib.run_lines(vh, ["normalize_labels " + " ".join(hx(x) for x in labels)])[0].split()[1:]
    table = {}
    for i, x in enumerate(labels):
        table[x] = (unhx(nl[2 * i]).decode(), unhx(nl[2 * i + 1]).decode())
    extra = sorted(set(p for _, p in table.values()) - set(table))
    if extra:
        nl2 = vlib.run_lines(vh, ["normalize_labels " + " ".join(hx(x) for x in extra)])[0].split()[1:]
        for i, x in enumerate(extra):
            table[x] = (unhx(nl2[2 * i]).decode(), unhx(nl2[2 * i + 1]).decode())
    ttok = " ".join(f"{hx(k)} {hx(f)} {hx(p)}" for k, (f, p) in sorted(table.items()))
    esc = {}
    en = sorted(table) + sorted(set(p for _, p in table.values()))
    for x, r in zip(en, vlib.run_lines(vh, [f"escape_href {hx(x)}" for x in en])):
        esc[x] = unhx(r.split()[1]).decode()

    real_tree = vlib.run_lines(vh, [f"parse footnotes=1 {hx(m)}" for m in mds])
    model_sk = vlib.run_lines(drv, [f"fn_process {ttok} | {p}" for p in pres])
    classes = vlib.run_lines(drv, [f"fn_classes {ttok} | {p}" for p in pres])
    real_sk = vlib.run_lines(drv, ["fn_skeleton " + t[3:] if t.startswith("ok ") else "fn_skeleton -" for t in real_tree])
    real_spec = vlib.run_lines(drv, ["fn_spec " + t[3:] if t.startswith("ok ") else "fn_spec -" for t in real_tree])
    optsets = [None, "", "user-content-", "fn-", "x"]
    hopts = [rng.choice(optsets) for _ in docs]
    hopts[4] = ""
    htmls = vlib.run_lines(vh, [f"md html {docgen.opts_token(dict(footnotes=True, **({'header_ids': p} if p is not None else {})))} {hx(m)}"
                                for m, p in zip(mds, hopts)])
    agree = agree_html = 0
    perm_indep = 0
    for i, (d, md, rt, ms, cl, rs, sp, hp, ho) in enumerate(zip(docs, mds, real_tree, model_sk, classes, real_sk, real_spec, hopts, htmls)):
        case = {"md": md, "md_hex": hx(md), "header_ids": hp}
        c.count("S" + md + str(hp), "[^" in md, sample={"md": md, "model": ms, "real": rs} if i in (0, 7) else None)
        if not (rt.startswith("ok ") and ms.startswith("ok") and rs.startswith("ok") and sp.startswith("ok ") and cl.startswith("ok ") and ho.startswith("ok")):
            c.violation("parse / render does not return normally on a footnote document" if not (rt.startswith("ok ") and ho.startswith("ok"))
                        else "model driver failed", dict(case, parse=rt[:200], html=ho[:200], model=ms[:200], spec=sp, classes=cl))
            continue
        m1, m2 = ms[2:].split(" |")
        if m1 != m2:
            c.problem("correspondence", "footnotes.perm_independence", f"md={md!r} order1={m1} order2={m2}", case)
        else:
            perm_indep += 1
        known = set()
        no_dropped, no_nested = cl.split()[1:]
        if no_dropped == "0":
            known.add("ref_in_dropped_def")
        if no_nested == "0":
            known.add("nested_definition")
        # ---- 6b: model on the constructed pre-tree vs the real final tree
        if m1.strip() != rs[2:].strip():
            c.problem("correspondence", "footnotes.pass", f"md={md!r} model={m1} real={rs[2:]}", dict(case, model=m1, real=rs[2:]))
        else:
            agree += 1
        # ---- spec predicates on the real final tree
        b_tail, b_res, b_once, b_exact, b_nested, b_subset = sp.split()[1:]
        if b_nested == "1":
            known.add("nested_definition")
        tree_fail = []
        if b_tail != "1" and b_nested != "1":
            tree_fail.append("definitions occur outside the tail of the root")
        if b_res != "1":
            tree_fail.append("a reference does not carry the number and name of exactly one appended definition")
        if b_once != "1":
            tree_fail.append("a definition is appended twice or without any reference")
        if b_subset != "1":
            tree_fail.append("reference numbers of a definition are not pairwise distinct within 1..total_references")
        for w in tree_fail:
            c.violation("final tree: " + w, dict(case, tree=rt[:3000], spec=sp))
        if b_exact != "1" and b_subset == "1":
            if "ref_in_dropped_def" in known:
                c.known_hit("ref_in_dropped_def", dict(case, spec=sp))
            else:
                c.violation("final tree: total_references counts a reference that is not in the tree, outside the known class", dict(case, tree=rt[:3000]))
        elif b_exact == "1" and "ref_in_dropped_def" in known:
            c.problem("correspondence", "footnotes.class_predicate", f"no_ref_in_dropped_def is false but the real tree's back-references are exact: md={md!r}", case)
        # unresolved references stay literal text: every reference the model turned into text shows up as [^name] in the HTML
        html = unhx(ho.split()[1]).decode() if len(ho.split()) > 1 else ""
        sk = skeleton_parse(m1)
        # ---- HTML vs model skeleton
        want_refs = [(esc[n_], "fnref-" + esc[n_] + (f"-{r}" if r > 1 else ""), ix) for k, n_, r, ix in [(k, unhx(h).decode(), a, b) for k, h, a, b in sk] if k == "R"]
        want_lis = [esc[unhx(h).decode()] for k, h, a, b in sk if k == "D"]
        f, fails = html_failures(html, None if hp is None else hp)
        got_refs = [(r[1], r[2], r[3]) for r in f["refs"]]
        got_lis = [x[1] for x in f["lis"]]
        if got_refs != want_refs or got_lis != want_lis:
            c.problem("correspondence", "footnotes.html", f"md={md!r} html refs={got_refs} model refs={want_refs} html lis={got_lis} model lis={want_lis}", case)
        else:
            agree_html += 1
        # unresolved: names without a surviving definition
        defined = set(table[b_[1]][0] for b_ in _top_defs(d))
        for nm in _ref_names([b_ for b_ in d if b_[0] != "d"], into_defs=False):
            if table[nm][0] not in defined:
                lit = "[^" + nm.replace("&", "&amp;").replace('"', "&quot;") + "]"
                if lit not in html:
                    c.violation("an unresolved footnote reference is not rendered as literal text", dict(case, name=nm, html=html))
        # ---- independent detection of the id-collision classes, from the model's names
        fnids = {}
        for k, h, a, b in sk:
            n_ = unhx(h).decode()
            if k == "D":
                fnids.setdefault("fn-" + esc[n_], set()).add(("D", n_))
            else:
                fnids.setdefault("fnref-" + esc[n_] + (f"-{a}" if a > 1 else ""), set()).add(("R", n_, a))
        for i_, who in fnids.items():
            if len(who) > 1:
                if len(set(esc[w[1]] for w in who)) == 1:
                    known.add("pct_hex_names")
                else:
                    known.add("refnum_suffix_names")
        if set(h[1] for h in f["heads"]) & set(fnids):
            known.add("heading_id_vs_footnote_id")
        _classify(c, fails, known, dict(case, html=html))
    c.cov["correspondences"]["footnotes.pass"] = {
        "cases": len(docs), "agree": agree,
        "method": "pre-tree built by the check for structured documents (paragraphs, headings, block quotes, definitions incl. duplicates and nesting); "
                  "Model/Footnotes.process on it vs the footnote skeleton (D name total depth / R name ref_num ix, document order) of the real parser's final tree; "
                  "fold/preserve supplied as a table computed by the real normalize_label"}
    c.cov["correspondences"]["footnotes.html"] = {"cases": len(docs), "agree": agree_html,
                                                   "method": "reference (href, id, number) and <li id> sequences of the real HTML vs the model's skeleton"}
    c.cov["correspondences"]["footnotes.perm_independence"] = {"cases": len(docs), "agree": perm_indep, "method": "model run with into_values order = map order and reversed"}

    # ====================================================================== C. docgen documents: real tree invariants + HTML
    gdocs = []
    for _ in range(40000 if big else 8000):
        r = rng.random()
        dd = docgen.gen_doc(rng) if r < 0.8 else docgen.gen_malformed(rng)
        if rng.random() < 0.6:
            # make it footnote-dense: sprinkle references and definitions
            extra = []
            for _ in range(rng.choice([1, 2, 4])):
                nm = rng.choice(NAMES[:8])
                extra.append(rng.choice([f"t [^{nm}] u [^{rng.choice(NAMES[:8])}]", f"[^{nm}]: d {rng.choice(['', '[^' + rng.choice(NAMES[:8]) + ']'])}",
                                         f"> q [^{nm}]", f"- i [^{nm}]", f"# h {nm}"]))
            parts = dd.split("\n\n")
            for e in extra:
                parts.insert(rng.randrange(0, len(parts) + 1), e)
            dd = "\n\n".join(parts)
        dd = dd.replace("\x00", "")
        try:
            dd.encode("utf-8")
        except UnicodeEncodeError:
            continue
        gdocs.append(dd)
    # fixed witnesses first: reference inside an image description (F27), F8, F22
    gdocs = ["![[^a]](u)\n\n[^a]: x\n", "text\n\n[^a]: x[^b]\n\n[^b]: y\n", "x[^a]\n\n[^a]: one\n\n    [^b]: two\n",
             # labels with Unicode white space at an end (normalize_label is not idempotent on them)
             "[^\u00a0a]: text\n\nx[^\u00a0a]\n", "y[^a\u3000] z[^A\u3000]\n\n[^a\u3000]: t\n", "[^\u2003q\u00a0]: t\n\n[^\u2003q\u00a0] and [^\u2003Q\u00a0]\n"] + gdocs
    gopts = []
    for _ in gdocs:
        o = {"footnotes": True}
        if rng.random() < 0.6:
            o["header_ids"] = rng.choice(["", "user-content-", "x"])
        for k in ("strikethrough", "table", "autolink", "tasklist", "superscript", "description_lists", "multiline_block_quotes", "alerts",
                  "math_dollars", "underline", "spoiler", "smart", "hardbreaks"):
            if rng.random() < 0.2:
                o[k] = True
        gopts.append(o)
    trees = vlib.run_lines(vh, [f"parse {docgen.opts_token(o)} {hx(m)}" for m, o in zip(gdocs, gopts)])
    specs = vlib.run_lines(drv, ["fn_spec " + t[3:] if t.startswith("ok ") else "fn_spec -" for t in trees])
    sks = vlib.run_lines(drv, ["fn_skeleton " + t[3:] if t.startswith("ok ") else "fn_skeleton -" for t in trees])
    ghtml = vlib.run_lines(vh, [f"md html {docgen.opts_token(o)} {hx(m)}" for m, o in zip(gdocs, gopts)])
    with_fn = 0
    gnames = set()
    for sk in sks:
        if sk.startswith("ok"):
            gnames.update(unhx(h).decode() for _, h, _, _ in skeleton_parse(sk[2:]))
    gnames = sorted(gnames)
    e2 = {}
    for x, r in zip(gnames, vlib.run_lines(vh, [f"escape_href {hx(x)}" for x in gnames])):
        e2[x] = unhx(r.split()[1]).decode()
    for md, o, t, sp, sk, ho in zip(gdocs, gopts, trees, specs, sks, ghtml):
        case = {"md": md, "md_hex": hx(md), "opts": docgen.opts_token(o)}
        c.count("G" + md + case["opts"], "FootnoteReference" in t or "FootnoteDefinition" in t)
        if not (t.startswith("ok ") and ho.startswith("ok") and sp.startswith("ok ") and sk.startswith("ok")):
            # crashes are C01's business; here only note that nothing could be checked
            continue
        b_tail, b_res, b_once, b_exact, b_nested, b_subset = sp.split()[1:]
        known = set()
        if b_nested == "1":
            known.add("nested_definition")
        if b_tail != "1" and b_nested != "1":
            c.violation("final tree: definitions occur outside the tail of the root", dict(case, tree=t[:3000]))
        if b_res != "1":
            c.violation("final tree: a reference does not carry the number and name of exactly one appended definition", dict(case, tree=t[:3000]))
        if b_once != "1":
            c.violation("final tree: a definition is appended twice or without any reference", dict(case, tree=t[:3000]))
        if b_subset != "1":
            c.violation("final tree: reference numbers of a definition are not pairwise distinct within 1..total_references", dict(case, tree=t[:3000]))
        elif b_exact != "1":
            # no pre-tree here: the class is recognised by its signature on the final tree
            # (numbers distinct and in range, fewer references present than counted)
            known.add("ref_in_dropped_def")
            c.known_hit("ref_in_dropped_def", dict(case, spec=sp))
        if ref_under_image(t):
            known.add("ref_in_image_alt")
        html = unhx(ho.split()[1]).decode() if len(ho.split()) > 1 else ""
        skl = skeleton_parse(sk[2:])
        if skl:
            with_fn += 1
        pe = None
        if "header_ids" in o:
            pe = o["header_ids"]
        f, fails = html_failures(html, pe)
        # real tree vs real HTML (same library, two stages): sequences agree
        fnids = {}
        want_refs, want_lis = [], []
        for k, h, a, b in skl:
            n_ = unhx(h).decode()
            if k == "D":
                fnids.setdefault("fn-" + e2[n_], set()).add(("D", n_))
                want_lis.append(e2[n_])
            else:
                rid = "fnref-" + e2[n_] + (f"-{a}" if a > 1 else "")
                fnids.setdefault(rid, set()).add(("R", n_, a))
                want_refs.append((e2[n_], rid, b))
        for i_, who in fnids.items():
            if len(who) > 1:
                known.add("pct_hex_names" if len(set(e2[w[1]] for w in who)) == 1 else "refnum_suffix_names")
        if set(h[1] for h in f["heads"]) & set(fnids):
            known.add("heading_id_vs_footnote_id")
        if [(r[1], r[2], r[3]) for r in f["refs"]] != want_refs or [x[1] for x in f["lis"]] != want_lis:
            fails.append(("html_vs_tree", f"html refs={[(r[1], r[2], r[3]) for r in f['refs']]} tree refs={want_refs} html lis={[x[1] for x in f['lis']]} tree defs={want_lis}"))
        _classify(c, fails, known, dict(case, html=html))
    c.cov["spec_checks"]["FootnoteSpec (defs_at_root_tail, refs_resolve, defs_once_and_referenced, backrefs_subset/exact) on real final trees"] = len(docs) + len(gdocs)
    c.cov["spec_checks"]["HTML id/href analysis (unique ids, href -> exactly one id, back-reference <-> reference bijection, <li> order = numbering 1..n, first-reference order, literal unresolved)"] = len(docs) + len(gdocs)
    c.cov["input_distribution"] = {"anchor_sequences_ascii": len(seqs), "anchor_sequences_unicode": len(useqs), "structured_footnote_docs": len(docs),
                                   "docgen_docs": len(gdocs), "docgen_docs_with_footnote_nodes": with_fn}
    c.cov["partial_clauses"] = [
        "'every rendered definition links back to each of its references and to nothing else' is refuted (C15_backrefs_exact_refuted_*): known classes ref_in_dropped_def (F8), nested_definition (F22)",
        "id uniqueness fails for names that collide after escape_href (F8b pct_hex_names), for name-k vs k-th reference of name (refnum_suffix_names) and for heading ids vs fn-* ids (heading_id_vs_footnote_id)",
        "the HTML renderer's footnote functions are not modelled in Coq: the HTML clauses are decided by the id/href analysis of the implementation's output and tied to the model's skeleton by footnotes.html"]
    c.assumptions = [
        "Model/Anchor.v and Model/Footnotes.v are hand transcriptions; translator item c15 audits the transcribed statements on every run",
        "anchors.anchorize compares on ASCII headers only (slug_ascii); the theorems hold for every slug, the Unicode stage is exercised for distinctness only",
        "the HashSet / HashMap are modelled as lists used through membership / key lookup; into_values() order is a parameter (theorem sort_perm_indep)",
        "u32 counters modelled in N (overflow needs 2^32 references); i32 uniq overflow is an explicit panic site excluded by |issued| < 2^31",
        "footnotes.pass builds the pre-tree itself (no hook before process_footnotes); docgen documents are checked through invariants of the final tree only"]
    c.finish(rule="distinct by (kind, input, options); non-trivial = anchor sequence with a case-insensitive repeat or a numeric suffix / document containing a footnote marker or node",
             trusted_base=["Coq 8.16.1 kernel", "no axioms (Print Assumptions: closed for every theorem)",
                           "tools/gen_model.py shape audit c15", "extraction (ExtrOcamlBasic only) + ocaml/d_anchors.ml, d_footnotes.ml (tree token reader: kinds the pass ignores are read as BlockQuote)",
                           "harness/src (hex protocol, tree dump)", "regular expressions over comrak's own HTML output format in tools/checks/c15.py (self-checked: every id and every footnote href must be accounted for)"])


def _top_defs(blocks):
    out = []
    for b in blocks:
        if b[0] == "d":
            out.append(b)
        elif b[0] == "q":
            out.extend(_top_defs(b[1]))
    return out


def _ref_names(blocks, into_defs=True):
    out = []
    for b in blocks:
        if b[0] == "p":
            out.extend(v for k, v in b[1] if k == "r")
        elif b[0] == "d" and into_defs:
            out.extend(_ref_names(b[2], into_defs))
        elif b[0] == "q":
            out.extend(_ref_names(b[1], into_defs))
    return out


def _classify(c, fails, known, case):
    for kind, detail in fails:
        cls = None
        for k in sorted(known):
            ex = EXPLAINS[k]
            if ex is None or kind in ex:
                cls = k
                break
        if cls:
            c.known_hit(cls, dict(case, failure=kind, detail=detail))
        else:
            c.violation(f"HTML: {kind}: {detail}", dict(case, failure=kind, known_conditions=sorted(known)))
