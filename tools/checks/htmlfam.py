"""Shared phases of the checks that rest on Model/Html.v (C02, C10, C18, C05, C01):
the tie of the HTML renderer model to the compiled renderer (correspondence render.html) and the
collection of real pipeline records the per-property searches evaluate their predicates on."""
import vlib, docgen, e2e
from vlib import hx, unhx
from checks import c09 as treegen   # synthetic tree generator (random_tree, systematic, shape_violations)

HTML_ITEMS = ["ctype", "tables", "tagfilter", "scanners"]


def first_diff(a, b):
    k = 0
    while k < min(len(a), len(b)) and a[k] == b[k]:
        k += 1
    return k


def tie_html(c, n_docs, n_synth, opts_fn=None, malformed=0.1, profile="debug"):
    """translator + builds + correspondence render.html.  Returns the list of pipeline records."""
    c.phase_translator(HTML_ITEMS)
    if not c.phase_builds((profile,)):
        return None
    rng = c.rng
    cases = e2e.gen_cases(rng, n_docs, malformed=malformed, opts_fn=opts_fn)
    # corpus of past mismatches first
    recs = e2e.run_pipe(cases, profile=profile)
    lines, idx = e2e.model_html_lines(recs)
    model = vlib.run_lines(vlib.DRIVER, lines, timeout=900)
    agree = 0
    npanic = 0
    for i, m in zip(idx, model):
        r = recs[i]
        c.count(("render.html:" + docgen.opts_token(r.opts) + ":" + r.doc).encode("utf-8", "surrogatepass"),
                bool(r.tree and r.tree.count("(") > 3))
        pan = r.stage_panic("html")
        if pan is not None:
            npanic += 1
            if m.startswith("panic"):
                agree += 1
            else:
                c.problem("correspondence", "render.html", f"implementation panics ({pan[0][:80]} at {pan[1]}) but the model returns {m[:60]}",
                          {"doc": hx(r.doc), "opts": docgen.opts_token(r.opts), "line": lines[idx.index(i)][:2000]})
            continue
        if m == "ok " + r.html:
            agree += 1
        else:
            detail = f"model={m[:120]}"
            if m.startswith("ok "):
                a, b = unhx(m[3:]), unhx(r.html)
                k = first_diff(a, b)
                detail = f"first difference at byte {k}: model {a[max(0,k-40):k+40]!r} impl {b[max(0,k-40):k+40]!r}"
            c.problem("correspondence", "render.html", detail,
                      {"doc": hx(r.doc), "opts": docgen.opts_token(r.opts), "line": f"md html {docgen.opts_token(r.opts)} {hx(r.doc)}"})
    c.cov["correspondences"]["render.html (parser trees)"] = {"cases": len(idx), "agree": agree, "impl_panics": npanic}
    # synthetic trees: adversarial payloads in every position, random nestings, shape violators
    synth = []
    for _ in range(n_synth):
        synth.append(("random", treegen.random_tree(rng, allow_bad=(rng.random() < 0.1))))
    sysl = list(treegen.systematic(rng))
    rng.shuffle(sysl)
    synth += sysl[: max(100, n_synth // 2)]
    synth += list(treegen.shape_violations(rng))
    sopts = [docgen.opts_token(docgen.gen_opts(rng)) for _ in synth]
    real = vlib.run_lines(vlib.VH[profile], [f"render html {o} {t}" for (_, t), o in zip(synth, sopts)], timeout=900)
    mlines = []
    for (src, t), o, a in zip(synth, sopts, real):
        slugs = a.split(" S", 1)[1].strip() if " S" in a else ""
        mlines.append(f"html {o} {e2e.slug_tokens(slugs)} {t}")
    model = vlib.run_lines(vlib.DRIVER, mlines, timeout=900)
    sagree = 0
    spanic = 0
    synth_out = []
    for (src, t), o, a, m in zip(synth, sopts, real, model):
        c.count(("synth.html:" + o + ":" + t).encode(), True)
        a0 = a.split(" S", 1)[0]
        if a0.startswith("panic"):
            spanic += 1
            if m.startswith("panic"):
                sagree += 1
            else:
                c.problem("correspondence", "render.html", f"implementation panics on a synthetic tree ({a0[:100]}) but the model returns {m[:60]}",
                          {"opts": o, "tree": t, "line": f"render html {o} {t}"})
        elif a0 == m:
            sagree += 1
            synth_out.append((o, t, a0[3:]))
        elif not a0.startswith("ok") and not a0.startswith("panic"):
            # a tree the harness cannot build (e.g. invalid UTF-8 payload): not a case
            pass
        else:
            c.problem("correspondence", "render.html", f"synthetic tree: impl={a0[:100]} model={m[:100]}",
                      {"opts": o, "tree": t, "line": f"render html {o} {t}"})
    c.cov["correspondences"]["render.html (synthetic trees)"] = {"cases": len(synth), "agree": sagree, "impl_panics": spanic}
    c.cov["samples"].append({"op": "pipe", "doc": recs[0].doc[:200], "opts": docgen.opts_token(recs[0].opts), "html": (recs[0].stage("html") or b"")[:200].decode("utf-8", "replace")})
    dist = {}
    for r in recs:
        for k, v in docgen.feature_counts(r.doc).items():
            dist[k] = dist.get(k, 0) + v
    c.cov["input_distribution"] = {"documents": len(recs), "construct_counts": dist,
                                   "doc_len_hist": _hist([len(r.doc) for r in recs]), "synthetic_trees": len(synth)}
    c.synth_out = synth_out
    return recs


def _hist(xs):
    h = {}
    for x in xs:
        k = "0-15" if x < 16 else "16-63" if x < 64 else "64-255" if x < 256 else "256-1023" if x < 1024 else "1024+"
        h[k] = h.get(k, 0) + 1
    return h


TRUSTED = ["Coq 8.16.1 kernel (vm_compute inside proofs for finite checks)", "no axioms (Print Assumptions: closed for every pinned theorem)",
           "tools/gen_model.py recognisers (tables, escape arms, tagfilter names, dangerous_url rules of scanners.re)",
           "Model/Html.v is a hand transcription of src/html.rs tied by byte-for-byte correspondence (render.html), not a verified translation",
           "extraction (ExtrOcamlBasic only, no Extract Constant) + ocaml driver (byte mapping self-checked; tree/option token parser)",
           "harness (tree dump, option decoding, catch_unwind); the slug stage of the Anchorizer is an oracle supplied by the real function"]
