"""C03 — canonical documents parse to exactly the structure they spell.
Theorems: coq/Props/C03.v (renderer half: for every canonical document model d,
html std_opts (tree_of d) = Ok (ref_html d), Model/Html.v against the specification-side reference
renderer of Spec/Doc.v).  Tie of the HTML model: correspondence render.html (shared, htmlfam).
Parser half, evaluated: for generated document models d (random, depth <= 6, all constructs; systematic
small families) the independent writer `write d` is given to the real parser;
markdown_to_html(write d) must equal ref_html d byte for byte and the dumped tree must equal tree_of d
modulo source positions / text splitting.  A difference on a canonical d is a defect of comrak
(minimised structurally, classified against known_findings.json) — or a mistake of the
writer / reference renderer / canonical predicate, which then has to be fixed: the specification is the judge."""
import re
import vlib, c03gen
from vlib import hx, unhx
from checks import htmlfam

OPTS = "strikethrough,table,autolink,tasklist,footnotes,unsafe"


def evaluate(docs):
    """-> list of dict(doc, tok, canonical, md, ref, model) (driver side)"""
    toks = [c03gen.doc_tok(d) for d in docs]
    res = vlib.run_lines(vlib.DRIVER, [f"c03_doc {t}" for t in toks], timeout=900)
    out = []
    for d, t, x in zip(docs, toks, res):
        if not x.startswith("ok "):
            out.append({"doc": d, "tok": t, "error": x})
            continue
        _, c, w, h, m, wf = x.split(" ")
        out.append({"doc": d, "tok": t, "canonical": c == "1", "md": unhx(w), "ref": unhx(h), "model": m, "wf": wf == "1"})
    return out


def run_impl(recs, profile="debug"):
    """adds impl html, tree and tree_eq to canonical records"""
    vh = vlib.VH[profile]
    html = vlib.run_lines(vh, [f"md html {OPTS} {hx(r['md'])}" for r in recs], timeout=900)
    trees = vlib.run_lines(vh, [f"parse {OPTS} {hx(r['md'])}" for r in recs], timeout=900)
    teq = vlib.run_lines(vlib.DRIVER, [f"c03_tree {r['tok']} | {t[3:] if t.startswith('ok ') else '( Document 0 0 0 0 )'}" for r, t in zip(recs, trees)], timeout=900)
    for r, a, t, e in zip(recs, html, trees, teq):
        r["impl"] = unhx(a[3:]) if a.startswith("ok ") else None
        r["impl_raw"] = a
        r["tree"] = t
        r["tree_eq"] = (e == "ok 1")
        r["html_eq"] = (r["impl"] == r["ref"])


# ---- known-finding classes: predicates on the (minimised) document model -------------------------
def _inl_any(d, pred):
    def inl(i):
        return pred(i) or any(inl(c) for c in c03gen.kids_i(i))

    def blk(b):
        return any(inl(i) for l in c03gen.inl_lists(b) for i in l) or any(blk(c) for c in c03gen.kids_b(b))
    return any(blk(b) for b in d["body"])


def _first_text(l):
    """first written byte of an inline sequence, when it is a plain word"""
    return l[0][1][:1] if l and l[0][0] == "Str" else b""


def cls_image_alt_caret(r):
    # F21: an image whose description begins with ^
    return _inl_any(r["doc"], lambda i: (i[0] == "Img" and _first_text(i[2]) == b"^") or (i[0] == "Ref" and i[1] and _first_text(i[4]) == b"^"))


def cls_tilde_flanking(r):
    # an emphasis delimiter run of * or _ directly next to a tilde
    return re.search(rb"[*_]~|~[*_]", r["md"]) is not None


def _ends_with_hr(b):
    if b[0] == "Hr":
        return True
    if b[0] in ("Bullet", "Ordered", "Item"):
        ks = c03gen.kids_b(b)
        return bool(ks) and _ends_with_hr(ks[-1])
    return False


def cls_hr_blank_tight(r):
    # a loose list in which a thematic break (possibly at the end of a nested list) is followed by the
    # blank line that separates two children of an item or two items
    def blk(b):
        if b[0] in ("Bullet", "Ordered") and not b[1]:
            items = c03gen.kids_b(b)
            for n, it in enumerate(items):
                ks = it[2]
                for j, k in enumerate(ks):
                    if _ends_with_hr(k) and (j + 1 < len(ks) or n + 1 < len(items)):
                        return True
        return any(blk(c) for c in c03gen.kids_b(b))
    return any(blk(b) for b in r["doc"]["body"])


def cls_escaped_task_marker(r):
    # a plain item whose first paragraph spells [ ] or [x] with backslash-escaped brackets
    def lead_text(l):
        out = b""
        for i in l:
            if i[0] in ("Str", "Esc"):
                out += i[1]
            elif i[0] == "Sp":
                out += b" "
            else:
                break
        return out

    def blk(b):
        if b[0] == "Item" and b[1] is None and b[2] and b[2][0][0] == "Para":
            if re.match(rb"^\[[ xX]\]( |$)", lead_text(b[2][0][1])):
                return True
        return any(blk(c) for c in c03gen.kids_b(b))
    return any(blk(b) for b in r["doc"]["body"])


def cls_header_only_table(r):
    # a table without body rows inside an item of a tight list
    def blk(b, in_tight):
        if b[0] == "Table" and len(b[2]) == 1 and in_tight:
            return True
        t = in_tight or (b[0] in ("Bullet", "Ordered") and b[1])
        return any(blk(c, t) for c in c03gen.kids_b(b))
    return any(blk(b, False) for b in r["doc"]["body"])


def cls_fence_info_math(r):
    def blk(b):
        return (b[0] == "Fence" and b[3] == b"math") or any(blk(c) for c in c03gen.kids_b(b))
    return any(blk(b) for b in r["doc"]["body"])


def in_proved_fragment(d):
    """no tables, no footnotes, no fenced block with info string math (the domain of C03_render_partial)"""
    def blk(b):
        if b[0] in ("Table", "Fn") or (b[0] == "Fence" and b[3] == b"math"):
            return False
        return all(blk(c) for c in c03gen.kids_b(b))
    return all(blk(b) for b in d["body"]) and not _inl_any(d, lambda i: i[0] == "Foot")


CLASSES = [("fence_info_math", cls_fence_info_math), ("escaped_task_marker", cls_escaped_task_marker), ("image_alt_caret", cls_image_alt_caret), ("tilde_transparent_in_flanking", cls_tilde_flanking),
           ("hr_then_blank_line_in_item_tight", cls_hr_blank_tight), ("header_only_table_in_tight_list", cls_header_only_table)]


def classify(r):
    for name, pred in CLASSES:
        if pred(r):
            return name
    return None


def minimise(r, budget=12):
    """structural shrink of a failing canonical document; candidates of one round are evaluated in one batch"""
    cur = r
    for _ in range(budget):
        cands = []
        seen = set()
        for c in c03gen.shrink_candidates(cur["doc"]):
            t = c03gen.doc_tok(c)
            if t not in seen:
                seen.add(t)
                cands.append(c)
            if len(cands) >= 300:
                break
        if not cands:
            break
        ev = [e for e in evaluate(cands) if e.get("canonical")]
        if not ev:
            break
        run_impl(ev)
        bad = [e for e in ev if not (e["html_eq"] and e["tree_eq"])]
        if not bad:
            break
        cur = min(bad, key=lambda e: len(e["tok"]))
    return cur


def report_case(r):
    return {"doc": r["tok"], "markdown": r["md"].decode("utf-8", "replace"), "markdown_hex": hx(r["md"]),
            "expected_html": r["ref"].decode("utf-8", "replace"),
            "observed_html": (r["impl"] or r["impl_raw"].encode()).decode("utf-8", "replace"),
            "tree_equal": r["tree_eq"], "line": f"md html {OPTS} {hx(r['md'])}"}


def main(tier):
    c = vlib.Check("C03", tier)
    rng = c.rng
    c.phase_proofs()
    recs0 = htmlfam.tie_html(c, 600 if tier == "quick" else 6000, 150 if tier == "quick" else 1500)
    if recs0 is None:
        c.finish(rule="build failed")
    # the parser half: parse_document_model (Model/Parse.v) is tied end to end to the compiled parse_document here
    # (final trees with positions, nothing masked), so a change of the parser that the canonical documents of this run do
    # not meet is still reported (as a broken tie)
    from checks import layerc
    layerc.whole(c, tier, 0.2 if tier == "quick" else 0.1, proofs=False)

    # ------------------------------------------------------------------ documents
    docs = []
    fam_counts = {}
    for name, fam in c03gen.FAMILIES.items():
        fd = list(fam())
        if tier == "quick":
            rng.shuffle(fd)
            fd = fd[:1200]
        fam_counts[name] = len(fd)
        docs += [(name, d) for d in fd]
    nrand = 12000 if tier == "quick" else 80000
    for _ in range(nrand):
        docs.append(("random", c03gen.gen_doc(rng, maxdepth=rng.choice([3, 4, 6]))))
    recs = evaluate([d for _, d in docs])
    for (src, _), r in zip(docs, recs):
        r["src"] = src
    for r in recs:
        if "error" in r:
            c.problem("spec", "c03_doc", f"driver: {r['error'][:200]}", {"doc": r["tok"][:2000]})
    can = [r for r in recs if r.get("canonical")]
    census = {}
    maxdepth = 0
    for r in can:
        c03gen.census(r["doc"], census)
        maxdepth = max(maxdepth, max([c03gen.depth_b(b) for b in r["doc"]["body"]] or [0]))
    # the theorem, evaluated on every canonical document (all constructs, also those outside the proved fragment)
    nmodel = 0
    for r in can:
        if r["model"] != "1" and cls_fence_info_math(r):
            continue    # the renderer itself deviates there (known finding F27); reported through the comparison below
        if r["model"] != "1":
            c.problem("correspondence", "c03_render (evaluated)", f"html std_opts (tree_of d) differs from ref_html d: {r['model'][:200]}", {"doc": r["tok"][:3000]})
        else:
            nmodel += 1
    c.cov["spec_checks"]["html std_opts (tree_of d) = Ok (ref_html d), evaluated in the extracted model"] = nmodel
    # domain of the proved theorem: canonical documents without tables / footnotes / math info satisfy wf_doc
    nfrag = 0
    for r in can:
        if in_proved_fragment(r["doc"]):
            nfrag += 1
            if not r["wf"]:
                c.problem("spec", "wf_doc", "a canonical document without tables, footnotes and math info strings is outside wf_doc (the domain of C03_render_partial)", {"doc": r["tok"][:3000]})
    c.cov["spec_checks"]["canonical d and no table / footnote / math info => wf_doc d (domain of C03_render_partial)"] = nfrag

    # ------------------------------------------------------------------ repaired defects (status fixed suppresses nothing)
    # each recorded witness carries the HTML CommonMark prescribes for it; the real pipeline must produce it
    import json as _json
    with open(vlib.os.path.join(vlib.ROOT, "known_findings.json")) as f:
        fixed = [e for e in _json.load(f)["findings"] if e["property"] == "C03" and e["status"] == "fixed" and isinstance(e.get("witness"), dict) and "expected_html" in e["witness"]]
    rows = []
    for e in fixed:
        w = e["witness"]
        optok = "-" if w.get("opts", "-") in ("-", "") else w["opts"]
        a = vlib.run_one(vlib.VH["debug"], f"md html {optok} {hx(w['doc'].encode())}")
        got = unhx(a.split(" ")[1]).decode("utf-8", "replace") if a.startswith("ok ") and len(a.split(" ")) > 1 else a
        c.count(("fixed-witness:" + e["id"]).encode(), True)
        rows.append({"id": e["id"], "class": e["class"], "passes": got == w["expected_html"]})
        if got != w["expected_html"]:
            c.violation(f"the witness of the repaired class {e['class']} ({e['id']}, {e.get('commit')}) does not render as CommonMark prescribes: the repair is missing from this tree or the defect has returned",
                        {"markdown": w["doc"], "opts": optok, "expected_html": w["expected_html"], "observed_html": got[:600], "line": f"md html {optok} {hx(w['doc'].encode())}"})
    c.cov["spec_checks"]["witnesses of repaired classes render as prescribed"] = rows

    # ------------------------------------------------------------------ the real parser
    run_impl(can)
    failing = []
    for r in can:
        c.count(r["md"], len(r["tok"]) > 60)
        if r["impl"] is None:
            c.violation("the parser / renderer panics on a canonical document", {"doc": r["tok"], "markdown_hex": hx(r["md"]), "observed": r["impl_raw"][:300], "line": f"md html {OPTS} {hx(r['md'])}"})
        elif not (r["html_eq"] and r["tree_eq"]):
            failing.append(r)
    nshrunk = 0
    by_class = {}
    for r in failing:
        cl = classify(r)
        m = r
        if cl is None or nshrunk < (6 if tier == "quick" else 40):
            m = minimise(r)
            nshrunk += 1
            cl = classify(m)
        if cl is not None and any(e["class"] == cl for e in c.known):
            by_class[cl] = by_class.get(cl, 0) + 1
            c.known_hit(cl, report_case(m))
        else:
            what = ("markdown_to_html(write d) differs from the HTML the specification prescribes for d" if not m["html_eq"]
                    else "the parsed tree differs from the structure the canonical document spells")
            c.violation(what, report_case(m))
    c.cov["correspondences"]["spec.c03 (write d -> real parser -> html / tree) vs (ref_html d / tree_of d)"] = {
        "cases": len(can), "agree": len(can) - len(failing), "known_class_hits": by_class}
    c.cov["input_distribution"] = {"generated": len(recs), "canonical": len(can), "families": fam_counts, "random": nrand,
                                   "max_depth": maxdepth, "constructs": dict(sorted(census.items()))}
    c.cov["samples"] += [{"markdown": r["md"].decode("utf-8", "replace")[:300], "html": r["ref"].decode("utf-8", "replace")[:300]} for r in can[:3]]
    c.cov["exhaustive"] = False
    c.cov["partial_clauses"] = [
        "parser half (write d is read back as tree_of d) is evaluated on generated documents, not proved",
        "renderer half proved for the fragment wf_doc (no tables, footnotes, math info strings); for the other canonical documents it is evaluated in the extracted model",
        "known finding classes: " + ", ".join(n for n, _ in CLASSES)]
    c.assumptions = ["the reference renderer and the canonical predicate are written from CommonMark 0.31.2 / GFM 0.29; for footnotes and loose task items (no specification) the output of cmark-gfm is followed",
                     "options: strikethrough, table, autolink, tasklist, footnotes, unsafe (raw HTML passed through as in the specification examples)"]
    c.finish(rule="distinct by the bytes of write d; non-trivial = the document term has more than 60 token characters",
             trusted_base=htmlfam.TRUSTED + ["tools/c03gen.py token serialiser + ocaml/d_doc.ml parser (a wrong parse shows as a mismatch, never hides one)"])
