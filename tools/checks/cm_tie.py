"""Tie of Model/Cm.v (the CommonMark formatter, src/cm.rs) to the compiled formatter: correspondence
render.cm, byte for byte and panic for panic.

  tie_cm(c, n_docs, n_synth)   translator items + builds (debug and release harness, driver) +
      (i)  parser trees: documents of tools/docgen.py x formatter options (width 0..120, list style,
           ol_width, prefer_fenced, hardbreaks, every extension): the C section of `pipe` (debug build,
           format_commonmark = validate + format) against the model with dbg=1, and `cm_nv`
           (format_commonmark_with_plugins, no validation) of the release build against dbg=0;
      (ii) synthetic trees (generator of checks/c09.py + formatter-specific shapes): `cm_nv` in BOTH
           build profiles against the model in both modes; a model Panic must coincide with a real panic.
      Returns the pipeline records of (i).

  main(tier)   stand-alone `./check CM_TIE quick` writing evidence/CM_TIE.json (and CM_tie.json)."""
import os, shutil
import vlib, docgen, e2e
from vlib import hx, unhx
from checks import c09 as treegen

CM_ITEMS = ["ctype", "cm"]
SP = "1 1 1 1"


def first_diff(a, b):
    k = 0
    while k < min(len(a), len(b)) and a[k] == b[k]:
        k += 1
    return k


def gen_cm_opts(rng):
    """options the formatter (and the parser feeding it) reads"""
    d = docgen.gen_opts(rng, exclude=("experimental_minimize_commonmark",), strings=(rng.random() < 0.3))
    r = rng.random()
    if r < 0.25:
        d.pop("width", None)
    elif r < 0.6:
        d["width"] = rng.randrange(1, 121)
    else:
        d["width"] = rng.choice([1, 2, 3, 5, 8, 10, 15, 20, 30, 40, 60, 72, 80, 100, 120])
    if rng.random() < 0.3:
        d["ol_width"] = rng.choice([1, 2, 3, 4, 5, 8, 12])
    if rng.random() < 0.4:
        d["list_style"] = rng.choice(["dash", "plus", "star"])
    for k in ("prefer_fenced", "hardbreaks"):
        if rng.random() < 0.2:
            d[k] = True
    if rng.random() < 0.5:
        for k in docgen.BOOL_EXT:
            d[k] = True
    return d


def opts_for_tree(rng):
    d = gen_cm_opts(rng)
    return docgen.opts_token(d)


# ---------------------------------------------------------------- formatter-specific synthetic trees
def _n(kind, fields="", children=()):
    return "( %s %s%s%s )" % (kind, SP, (" " + fields) if fields else "", "".join(" " + c for c in children))


def _text(s):
    return _n("Text", hx(s))


def _para(*ch):
    return _n("Paragraph", "", ch)


def _list(ordered, start, tight, *items, delim="p"):
    return _n("List", "%s 0 2 %d %s 45 %d 0" % ("o" if ordered else "b", start, delim, 1 if tight else 0), items)


def _item(*ch, start=1):
    return _n("Item", "o 0 2 %d p 45 1 0" % start, ch)


CM_TEXTS = ["a", "1. x", "1) x", "12.", "- x", "+", "= =", "-", "#", "a # b", "*x*", "_x_", "[a](b)", "![a]", "!x", "a!", "<b>", "a > b", "&amp;", "& b", "&#1;",
            "a\\b", "`c`", "a|b", "|", "x  y   z", " lead", "trail ", "  ", "a 1 b 22 c", "9. 9) 9", "1.", "1)", "1.x", "a\nb", "a\tb", "\x01", "\x1f|", "é", "漢 字", "😀 😀",
            "word " * 30, "w" * 90 + " x " + "y" * 90, "a " * 50 + "1 2 3", "~x~", "^y^", "$z$", "||s||", "www.a.b", "a@b.c", "http://x.y", ":", "[^1]", "[[w]]", "==", "-- ---",
            "\"q\"", "'q'", "a\r\nb", "\n", " ", ""]
CM_URLS = ["", "/u", "http://a.b", "mailto:a@b.c", "mailto:", "a:b", "ab:", "ab:c d", "a b", "a\tb", "a\nb", "(x)", "a)b", "<u>", "a\\b", "`", "x:" + "y" * 40, "a" * 33 + ":z",
           "a" * 32 + ":z", "A1+.-:q", "1a:b", "é:x", "a|b", "a\"b", "\x01"]
CM_TITLES = ["", "", "t", "a \"q\" b", "<t>", "`", "a\\b", "two words here", "a|b", "\n"]
CM_CODE = ["x", "`", "``", "a`b", "a``b`c", " x ", " ", "  ", " a", "a ", "`a", "a`", "a\nb", "|", "a b c d e f g h", "\r\n", "".join("`" * k + "x" for k in range(1, 6)),
           "".join("`" * k + "x" for k in range(1, 34)), "`" * 40, ""]
CM_BLOCKLIT = ["x\n", "a\nb\n", "x", "", "\n", "ab", "abc", " x\n", "x  ", "x \n", "x\n\n", "```\n", "~~~\n", "a ``` b ```` c\n", "~~~~ x\n", "`" * 30 + "\n", "<div>\n", "a|b\n", "é\n",
               "x\ny", "    x\n", "\tx\n"]
CM_INFO = ["", "", "", "rust", "a b", "x`y", "~", "`", "é", " lead"]


def cm_random_inline(rng, depth=0):
    k = rng.choice(["Text", "Text", "Text", "Code", "Emph", "Strong", "Link", "Image", "SoftBreak", "LineBreak", "HtmlInline", "Strikethrough", "Superscript",
                    "Subscript", "Underline", "SpoileredText", "Math", "WikiLink", "FootnoteReference", "Escaped", "EscapedTag", "Raw"])
    sub = lambda: [cm_random_inline(rng, depth + 1) for _ in range(rng.choice([0, 1, 1, 2, 3]))] if depth < 3 else [_text(rng.choice(CM_TEXTS))]
    if k == "Text":
        return _text(rng.choice(CM_TEXTS))
    if k == "Code":
        return _n("Code", "1 " + hx(rng.choice(CM_CODE[:-1] if rng.random() < 0.97 else CM_CODE)))
    if k in ("Emph", "Strong", "Strikethrough", "Superscript", "Subscript", "Underline", "SpoileredText", "Escaped"):
        return _n(k, "", sub())
    if k in ("Link", "Image"):
        url = rng.choice(CM_URLS)
        title = rng.choice(CM_TITLES)
        ch = sub()
        if k == "Link" and rng.random() < 0.35:
            t = url[7:] if url.startswith("mailto:") and rng.random() < 0.8 else url
            ch = [_text(t)] + (ch[:1] if rng.random() < 0.2 else [])
        return _n(k, "%s %s" % (hx(url), hx(title)), ch)
    if k in ("SoftBreak", "LineBreak"):
        return _n(k)
    if k in ("HtmlInline", "Raw", "EscapedTag"):
        return _n(k, hx(rng.choice(["<b>", "</b>", "<!-- c -->", "a|b", "x\ny", "<a href=\"x y\">", " "])), sub() if k == "EscapedTag" and rng.random() < 0.5 else [])
    if k == "Math":
        return _n("Math", "%d %d %s" % (rng.randrange(2), rng.randrange(2), hx(rng.choice(["x", "a b c", "", "x|y", "1 + 2", "a\nb"]))))
    if k == "WikiLink":
        return _n("WikiLink", hx(rng.choice(CM_URLS)), sub())
    return _n("FootnoteReference", "%s 1 1" % hx(rng.choice(["1", "a b", "x]", ""])))


def cm_inlines(rng):
    return [cm_random_inline(rng) for _ in range(rng.choice([1, 1, 2, 3, 5, 8]))]


def cm_random_block(rng, depth=0):
    k = rng.choice(["Paragraph", "Paragraph", "Paragraph", "Heading", "CodeBlock", "CodeBlock", "HtmlBlock", "ThematicBreak", "BlockQuote", "List", "List", "List", "Table",
                    "FootnoteDefinition", "Alert", "MultilineBlockQuote", "DescriptionList", "TaskList"])
    if depth > 3 and k in ("BlockQuote", "List", "FootnoteDefinition", "Alert", "MultilineBlockQuote", "DescriptionList", "TaskList"):
        k = "Paragraph"
    blocks = lambda lo=0: [cm_random_block(rng, depth + 1) for _ in range(rng.choice([lo, 1, 1, 2, 3]))]
    if k == "Paragraph":
        return _para(*cm_inlines(rng))
    if k == "Heading":
        return _n("Heading", "%d %d" % (rng.choice([1, 2, 3, 6]), rng.randrange(2)), cm_inlines(rng))
    if k == "CodeBlock":
        return _n("CodeBlock", "%d 96 3 0 %s %s" % (rng.randrange(2), hx(rng.choice(CM_INFO)), hx(rng.choice(CM_BLOCKLIT))))
    if k == "HtmlBlock":
        return _n("HtmlBlock", "6 " + hx(rng.choice(["<div>\n", "<!-- x -->", "", "<p>\n\nx\n</p>\n", "a|b"])))
    if k == "ThematicBreak":
        return _n("ThematicBreak")
    if k in ("BlockQuote", "MultilineBlockQuote"):
        return _n(k, "3 0" if k == "MultilineBlockQuote" else "", blocks())
    if k in ("List", "TaskList"):
        ordered = rng.random() < 0.5
        start = rng.choice([0, 1, 1, 2, 9, 10, 99, 100, 123456789, 18446744073709551615, 18446744073709551614])
        tight = rng.random() < 0.5
        items = []
        for _ in range(rng.choice([0, 1, 2, 3, 4])):
            if k == "TaskList":
                items.append(_n("TaskItem", rng.choice(["n", "s" + hx("x"), "s" + hx("é")]), blocks()))
            else:
                items.append(_item(*blocks(), start=rng.choice([1, 7, start])))
        return _list(ordered, start, tight, *items, delim=rng.choice("pr"))
    if k == "Table":
        n = rng.randrange(1, 4)
        al = "".join(rng.choice("nlcr") for _ in range(n))
        rows = []
        for ri in range(rng.randrange(1, 4)):
            cells = [_n("TableCell", "", cm_inlines(rng) if rng.random() < 0.8 else []) for _ in range(n)]
            rows.append(_n("TableRow", "1" if ri == 0 else "0", cells))
        return _n("Table", "%d %d 0 %s" % (n, len(rows), al), rows)
    if k == "FootnoteDefinition":
        return _n("FootnoteDefinition", "%s 1" % hx(rng.choice(["1", "note", "a b", "é"])), blocks(1))
    if k == "Alert":
        return _n("Alert", "%d %s 0 0 0" % (rng.randrange(5), rng.choice(["n", "s" + hx("Title"), "s" + hx(""), "s" + hx("a|b")])), blocks())
    items = []
    for _ in range(rng.choice([1, 2])):
        items.append(_n("DescriptionItem", "0 2 %d" % rng.randrange(2),
                        [_n("DescriptionTerm", "", [_para(*cm_inlines(rng))]), _n("DescriptionDetails", "", blocks(1))]))
    return _n("DescriptionList", "", items)


def cm_random_tree(rng):
    ch = [cm_random_block(rng) for _ in range(rng.choice([1, 1, 2, 3, 5]))]
    if rng.random() < 0.05:
        ch = [_n("FrontMatter", hx(rng.choice(["---\na: b\n---\n\n", "---\n---\n", "x"])))] + ch
    return _n("Document", "", ch)


def cm_systematic():
    """every text / url / title / code / block payload alone, in the contexts that change the escaping"""
    out = []
    for t in CM_TEXTS:
        out.append(("text", _n("Document", "", [_para(_text(t))])))
        out.append(("text-after-digit", _n("Document", "", [_para(_text("1"), _text(t))])))
        out.append(("text-in-heading", _n("Document", "", [_n("Heading", "2 0", [_text(t)])])))
        out.append(("text-in-item", _n("Document", "", [_list(True, 9, True, _item(_para(_text(t)), _para(_text(t))), _item(_para(_text(t))))])))
        out.append(("text-in-quote", _n("Document", "", [_n("BlockQuote", "", [_para(_text(t), _n("SoftBreak"), _text(t))])])))
        out.append(("text-in-cell", _n("Document", "", [_n("Table", "1 1 0 c", [_n("TableRow", "1", [_n("TableCell", "", [_text(t), _n("Code", "1 " + hx("a|b"))])])])])))
    for u in CM_URLS:
        for ti in CM_TITLES[1:]:
            out.append(("link", _n("Document", "", [_para(_n("Link", "%s %s" % (hx(u), hx(ti)), [_text("x")]), _n("Image", "%s %s" % (hx(u), hx(ti)), [_text("y z")]))])))
        out.append(("autolink", _n("Document", "", [_para(_n("Link", "%s -" % hx(u), [_text(u)]))])))
        out.append(("autolink-mailto", _n("Document", "", [_para(_n("Link", "%s -" % hx(u), [_text(u[7:] if u.startswith("mailto:") else u)]))])))
        out.append(("wikilink", _n("Document", "", [_para(_n("WikiLink", hx(u), [_text("t")]))])))
    for cde in CM_CODE:
        out.append(("code", _n("Document", "", [_para(_text("a "), _n("Code", "1 " + hx(cde)), _text(" b"))])))
    for lit in CM_BLOCKLIT:
        for info in CM_INFO[2:]:
            cb = _n("CodeBlock", "1 96 3 0 %s %s" % (hx(info), hx(lit)))
            out.append(("codeblock", _n("Document", "", [cb])))
            out.append(("codeblock-in-item", _n("Document", "", [_list(False, 1, False, _item(cb, _para(_text("p")), cb))])))
            out.append(("codeblock-after-list", _n("Document", "", [_list(False, 1, True, _item(_para(_text("p")))), cb])))
    return out


def cm_repair_cases():
    """(name, tree, options): the paths touched by the four repairs of cm.rs (repo_fix_cm_1..4), with fixed
    options so that every run exercises them: a control byte first on a line inside containers (with and
    without wrapping: the column is counted once), a literal block that ends its line followed by a blank
    line under `>` / list / footnote prefixes, an empty destination with a title, a breakable space before
    `-`, `+`, `=` and a digit"""
    out = []
    q = lambda *ch: _n("BlockQuote", "", ch)
    for w in (0, 1, 8, 12):
        o = {"width": w} if w else {}
        for t in ("\x01", "\x1f x", "a \x02 b \x03 c \x04 d", "\t\x0b"):
            out.append(("ctrl-line-start", _n("Document", "", [q(_para(_text("I"), _n("SoftBreak"), _text(t)))]), o))
            out.append(("ctrl-line-start", _n("Document", "", [q(q(_para(_text(t))))]), o))
            out.append(("ctrl-line-start", _n("Document", "", [_list(True, 9, False, _item(_para(_text(t), _n("LineBreak"), _text(t))))]), o))
        for t in ("a - b", "a + b", "a = b", "a 1 b", "a  - b", "a -b =c +d", "aa bb - cc", "a -", "a *", "a ~~~", "- - -", "a - b + c = d 2 e f"):
            out.append(("wrap-before-marker", _n("Document", "", [_para(_text(t))]), o))
            out.append(("wrap-before-marker", _n("Document", "", [q(_para(_text(t), _n("SoftBreak"), _text("- x")))]), o))
    for lit in ("<a>\n", "<a>", "<p>\n\nx\n</p>\n", "\n"):
        hb = _n("HtmlBlock", "6 " + hx(lit))
        for tail in ([_para(_text("."))], [hb], [_n("ThematicBreak")], []):
            out.append(("literal-then-blank", _n("Document", "", [q(hb, *tail)]), {}))
            out.append(("literal-then-blank", _n("Document", "", [q(q(hb), *tail)]), {}))
            out.append(("literal-then-blank", _n("Document", "", [q(_list(False, 1, False, _item(hb, *tail)), *tail)]), {}))
            out.append(("literal-then-blank", _n("Document", "", [q(_list(False, 1, True, _item(hb, *tail)), *tail)]), {}))
            out.append(("literal-then-blank", _n("Document", "", [_list(False, 1, False, _item(q(hb, *tail), *tail))]), {}))
            out.append(("literal-then-blank", _n("Document", "", [_n("FootnoteDefinition", "%s 1" % hx("n"), [hb] + tail)]), {}))
            out.append(("literal-then-blank", _n("Document", "", [_n("Alert", "0 n 0 0 0", [hb] + tail)]), {}))
    for lit in ("abc\n", "abc", "a\nb\n"):
        cb = _n("CodeBlock", "0 96 3 0 - " + hx(lit))
        out.append(("literal-then-blank", _n("Document", "", [q(_para(_text("p")), cb, _para(_text(".")))]), {}))
        out.append(("literal-then-blank", _n("Document", "", [q(cb, cb)]), {"prefer_fenced": True}))
    for u in ("", "/u"):
        for ti in ("", "t", "a \"q\" b"):
            for w in (0, 1):
                out.append(("empty-dest-title", _n("Document", "", [q(_para(_n("Link", "%s %s" % (hx(u), hx(ti)), [_text("x")]), _n("Image", "%s %s" % (hx(u), hx(ti)), [])))]),
                            {"width": w} if w else {}))
    return out


def cm_shape_violations():
    """trees on which the formatter panics (or would, were the subtraction checked)"""
    cell = _n("TableCell")
    it = _item(_para(_text("x")))
    return [
        ("item-root", it),
        ("item-under-document", _n("Document", "", [it])),
        ("item-under-paragraph", _n("Document", "", [_para(it)])),
        ("taskitem-under-quote", _n("Document", "", [_n("BlockQuote", "", [_n("TaskItem", "n", [_para(_text("x"))])])])),
        ("item-under-item", _n("Document", "", [_list(False, 1, True, _item(it))])),
        ("para-under-item-root", _n("Item", "b 0 2 1 p 45 1 0", [_para(_text("x"))])),
        ("text-under-item-root", _n("Item", "b 0 2 1 p 45 1 0", [_text("x")])),
        ("list-under-item-root", _n("Item", "b 0 2 1 p 45 1 0", [_list(False, 1, True)])),
        ("para-under-para-under-item-root", _n("Paragraph", "", [_n("Item", "b 0 2 1 p 45 1 0", [_para(_text("x"))])])),
        ("empty-code", _n("Document", "", [_para(_n("Code", "1 -"))])),
        ("empty-code-root", _n("Code", "1 -")),
        ("cell-root", cell),
        ("cell-under-document", _n("Document", "", [cell])),
        ("cell-under-headerrow-root", _n("TableRow", "1", [cell])),
        ("cell-under-bodyrow-root", _n("TableRow", "0", [cell])),
        ("cell-under-row-under-document", _n("Document", "", [_n("TableRow", "1", [cell, cell])])),
        ("ordered-start-max", _n("Document", "", [_list(True, 18446744073709551615, True, _item(_para(_text("a"))), _item(_para(_text("b"))))])),
        ("ordered-start-max-1", _n("Document", "", [_list(True, 18446744073709551614, True, _item(_para(_text("a"))), _item(_para(_text("b"))), _item(_para(_text("c"))))])),
        ("quote-root", _n("BlockQuote", "", [_para(_text("x"))])),
        ("footnote-root", _n("FootnoteDefinition", "%s 1" % hx("a"), [_para(_text("x"))])),
        ("alert-root", _n("Alert", "0 n 0 0 0", [_para(_text("x"))])),
        ("text-with-children", _n("Document", "", [_para(_n("Text", hx("a"), [_n("Emph"), _text("b")]))])),
        ("codeblock-with-child", _n("Document", "", [_n("CodeBlock", "1 96 3 0 - 61", [_para(_text("x"))])])),
        ("list-under-text-under-item", _n("Document", "", [_list(False, 1, True, _n("Item", "b 0 2 1 p 45 1 0", [_n("Text", hx("t"), [_list(True, 3, True, _item(_para(_text("x"))))])]))])),
    ]


# ---------------------------------------------------------------- comparison
def model_line(dbg, o, t):
    return f"cm {1 if dbg else 0} {o} {t}"


def classify(real):
    """harness line -> ('ok', hex) | ('panic', msg) | ('other', line)"""
    if real.startswith("ok "):
        return ("ok", real[3:].strip())
    if real.startswith("panic "):
        parts = real.split(" ")
        msg = unhx(parts[1]).decode("utf-8", "replace") if len(parts) > 1 else ""
        loc = parts[2] if len(parts) > 2 else ""
        return ("panic", msg + " @" + loc)
    return ("other", real)


def compare(real, model):
    """(agree, is_panic, detail)"""
    kind, val = classify(real)
    if kind == "other":
        return (None, False, real)  # harness could not build the tree / died: not a case
    if kind == "panic":
        if "cm.rs" not in val and "ill-formed" not in val:
            return (None, True, val)  # a panic outside the formatter (tree builder): not a case
        return (model.startswith("panic "), True, f"implementation panics ({val[:120]}), model: {model[:80]}")
    if model == "ok " + val:
        return (True, False, "")
    if model.startswith("ok "):
        a, b = unhx(model[3:]), unhx(val)
        k = first_diff(a, b)
        return (False, False, f"first difference at byte {k}: model {a[max(0, k - 40):k + 40]!r} impl {b[max(0, k - 40):k + 40]!r}")
    return (False, False, f"model={model[:120]} impl=ok {unhx(val)[:80]!r}")


def synth_trees(rng, n_synth):
    synth = []
    for _ in range(n_synth):
        r = rng.random()
        if r < 0.6:
            synth.append(("cm-random", cm_random_tree(rng)))
        else:
            synth.append(("random", treegen.random_tree(rng, allow_bad=(rng.random() < 0.15))))
    sysl = cm_systematic()
    rng.shuffle(sysl)
    synth += sysl[: max(300, n_synth // 2)]
    sysl2 = list(treegen.systematic(rng))
    rng.shuffle(sysl2)
    synth += sysl2[: max(100, n_synth // 10)]
    synth += cm_shape_violations()
    synth += list(treegen.shape_violations(rng))
    return synth


def run_synth(c, synth, sopts, name="render.cm (synthetic trees)"):
    """both build profiles against both model modes"""
    stats = {"cases": 0, "agree": 0, "impl_panics": 0, "skipped": 0}
    model = {}
    real = {}
    for prof, dbg in (("debug", True), ("release", False)):
        real[prof] = vlib.run_lines(vlib.VH[prof], [f"cm_nv {o} {t}" for (_, t), o in zip(synth, sopts)], timeout=900)
        model[prof] = vlib.run_lines(vlib.DRIVER, [model_line(dbg, o, t) for (_, t), o in zip(synth, sopts)], timeout=900)
    mism = []
    for i, ((src, t), o) in enumerate(zip(synth, sopts)):
        for prof in ("debug", "release"):
            agree, pan, detail = compare(real[prof][i], model[prof][i])
            if agree is None:
                stats["skipped"] += 1
                continue
            c.cm_formatted.append((t, o, prof, pan))
            c.count(("synth.cm:" + prof + ":" + o + ":" + t).encode(), True)
            stats["cases"] += 1
            stats["impl_panics"] += 1 if pan else 0
            if agree:
                stats["agree"] += 1
            else:
                mism.append((src, prof, o, t, detail))
                c.problem("correspondence", "render.cm", f"synthetic tree [{src}, {prof}]: {detail}",
                          {"opts": o, "tree": t, "profile": prof, "line": f"cm_nv {o} {t}"})
    c.cov["correspondences"][name] = stats
    return mism, real, model


def tie_cm(c, n_docs, n_synth, malformed=0.1, opts_fn=None):
    c.phase_translator(CM_ITEMS)
    if not c.phase_builds(("debug", "release")):
        return None
    rng = c.rng
    c.cm_formatted = []   # (tree, opts, profile, implementation panicked)
    cases = e2e.gen_cases(rng, n_docs, malformed=malformed, opts_fn=opts_fn or gen_cm_opts)
    recs = e2e.run_pipe(cases, profile="debug")
    idx = [i for i, r in enumerate(recs) if r.status == "ok"]
    toks = [docgen.opts_token(recs[i].opts) for i in idx]
    m_dbg = vlib.run_lines(vlib.DRIVER, [model_line(True, o, recs[i].tree) for i, o in zip(idx, toks)], timeout=900)
    m_rel = vlib.run_lines(vlib.DRIVER, [model_line(False, o, recs[i].tree) for i, o in zip(idx, toks)], timeout=900)
    r_rel = vlib.run_lines(vlib.VH["release"], [f"cm_nv {o} {recs[i].tree}" for i, o in zip(idx, toks)], timeout=900)
    st = {"cases": 0, "agree": 0, "impl_panics": 0, "invalid_trees_formatted_without_validation": 0}
    parser_panics = []
    mism = []
    for j, i in enumerate(idx):
        r = recs[i]
        o = toks[j]
        key = ("render.cm:" + o + ":" + r.doc).encode("utf-8", "surrogatepass")
        # debug build: format_commonmark; when the validator rejects the tree the formatter never runs
        if r.cm is not None and r.cm.startswith("!"):
            msg, loc = r.stage_panic("cm")
            real_dbg = "panic " + hx(msg) + " " + loc
        else:
            real_dbg = "ok " + (r.cm or "-")
        if r.valid is not None and r.valid.startswith("0"):
            st["invalid_trees_formatted_without_validation"] += 1
            real_dbg = None
        for prof, real, model in (("debug", real_dbg, m_dbg[j]), ("release", r_rel[j], m_rel[j])):
            if real is None:
                continue
            agree, pan, detail = compare(real, model)
            if agree is None:
                continue
            c.count(key + prof.encode(), bool(r.tree and r.tree.count("(") > 3))
            st["cases"] += 1
            c.cm_formatted.append((r.tree, o, prof, pan))
            if pan:
                st["impl_panics"] += 1
                parser_panics.append((r.doc, o, prof, detail))
            if agree:
                st["agree"] += 1
            else:
                mism.append((r.doc, r.opts, prof, detail))
                c.problem("correspondence", "render.cm", f"[{prof}] {detail}",
                          {"doc": hx(r.doc), "opts": o, "profile": prof, "line": f"md cm {o} {hx(r.doc)}"})
    c.cov["correspondences"]["render.cm (parser trees)"] = st
    c.cm_parser_panics = parser_panics
    c.cm_mismatches = mism
    synth = synth_trees(rng, n_synth)
    sopts = [opts_for_tree(rng) for _ in synth]
    for name, t, o in cm_repair_cases():
        synth.append((name, t))
        sopts.append(docgen.opts_token(o))
    smism, _, _ = run_synth(c, synth, sopts)
    c.cm_synth_mismatches = smism
    shape_checks(c)
    witness_replay(c)
    if recs:
        c.cov["samples"].append({"op": "pipe", "doc": recs[0].doc[:200], "opts": docgen.opts_token(recs[0].opts),
                                 "cm": (recs[0].stage("cm") or b"")[:200].decode("utf-8", "replace")})
    dist = {}
    for r in recs:
        for k, v in docgen.feature_counts(r.doc).items():
            dist[k] = dist.get(k, 0) + v
    widths = {}
    for r in recs:
        wv = r.opts.get("width", 0)
        b = "0" if wv == 0 else "1-20" if wv <= 20 else "21-60" if wv <= 60 else "61-120"
        widths[b] = widths.get(b, 0) + 1
    c.cov["input_distribution"] = {"documents": len(recs), "construct_counts": dist, "width_hist": widths, "synthetic_trees": len(synth)}
    return recs


def shape_checks(c):
    """the extracted shape predicates of Spec/CmSpec.v on every tree the compiled formatter was run on:
    K1-K3 => the release build does not panic (theorem cm_total_partial, through the tie);
    K1-K4 => the debug build does not panic (cm_total_debug_full_statement: NOT proved, tested here)"""
    trees = sorted({t for t, _, _, _ in c.cm_formatted})
    out = vlib.run_lines(vlib.DRIVER, ["cm_shape " + t for t in trees], timeout=900)
    sh = {}
    for t, l in zip(trees, out):
        p = l.split()
        sh[t] = (p[1] == "1", p[2] == "1") if len(p) == 3 and p[0] == "ok" else None
    st = {"trees": len(trees), "K1-K3 hold": sum(1 for v in sh.values() if v and v[0]), "runs": 0,
          "release runs under K1-K3": 0, "debug runs under K1-K4": 0, "panics outside the clauses": 0, "panics inside the clauses": 0}
    for t, o, prof, pan in c.cm_formatted:
        v = sh.get(t)
        if v is None:
            continue
        st["runs"] += 1
        inside = v[0] and (prof == "release" or v[1])
        if inside:
            st["release runs under K1-K3" if prof == "release" else "debug runs under K1-K4"] += 1
        if pan and inside:
            st["panics inside the clauses"] += 1
            name = "cm_total_partial (release)" if prof == "release" else "cm_total_debug_full_statement (unproved)"
            c.problem("spec", "spec:" + name, f"the compiled formatter ({prof}) panics on a tree satisfying the shape clauses",
                      {"opts": o, "tree": t, "profile": prof, "line": f"cm_nv {o} {t}"})
        elif pan:
            st["panics outside the clauses"] += 1
    c.cov["spec_checks"]["cm_shape (K1-K4) vs panics of the compiled formatter"] = st


WITNESSES = [
    # (theorem, name, tree, K1-K3, K4, release panics, debug panics)
    ("cm_total_refuted_without_K1", "w_item_under_document", lambda: _n("Document", "", [_n("Item", "b 0 2 1 p 45 1 0", [_para(_text("x"))])]), False, True, True, True),
    ("cm_total_refuted_without_K1", "w_item_root", lambda: _n("Item", "b 0 2 1 p 45 1 0", [_para(_text("x"))]), False, True, True, True),
    ("cm_total_refuted_without_K2", "w_empty_code", lambda: _n("Document", "", [_para(_n("Code", "1 -"))]), False, True, True, True),
    ("cm_total_refuted_without_K3", "w_cell_under_paragraph", lambda: _n("Document", "", [_para(_n("TableCell"))]), False, True, True, True),
    ("cm_total_refuted_without_K3", "w_header_cell_no_table", lambda: _n("Document", "", [_n("TableRow", "1", [_n("TableCell")])]), False, True, True, True),
    ("cm_total_debug_refuted_without_K4", "w_ol_overflow",
     lambda: _n("Document", "", [_n("List", "o 0 2 18446744073709551615 p 45 1 0", [_n("Item", "o 0 2 1 p 45 1 0", [_para(_text("x"))])])]), True, False, False, True),
]


def witness_replay(c):
    """the witness trees of the _refuted theorems on the compiled formatter (both profiles)"""
    rows = []
    for thm, name, mk, k123, k4, rel_pan, dbg_pan in WITNESSES:
        t = mk()
        sh = vlib.run_one(vlib.DRIVER, "cm_shape " + t)
        rel = vlib.run_one(vlib.VH["release"], "cm_nv - " + t)
        dbg = vlib.run_one(vlib.VH["debug"], "cm_nv - " + t)
        ok = (sh == "ok %d %d" % (k123, k4)) and (rel.startswith("panic") == rel_pan) and (dbg.startswith("panic") == dbg_pan) \
            and (rel_pan or rel.startswith("ok")) and (dbg_pan or dbg.startswith("ok"))
        c.count(("witness:" + name).encode(), True)
        rows.append({"theorem": thm, "witness": name, "shape": sh, "release": classify(rel)[1][:80] if rel.startswith("panic") else rel[:40],
                     "debug": classify(dbg)[1][:80] if dbg.startswith("panic") else dbg[:40], "as_stated": ok})
        if not ok:
            c.problem("spec", "witness:" + name, f"witness of {thm} does not behave as the theorem states: shape={sh} release={rel[:60]} debug={dbg[:60]}",
                      {"tree": t, "line": "cm_nv - " + t})
    c.cov["spec_checks"]["witnesses of the refuted totality statements"] = rows


def leaf_ties(c, n):
    """shortest_unused_sequence / longest_char_sequence / scheme against the compiled functions"""
    rng = c.rng
    lits = []
    for k in range(0, 5):
        import itertools
        for t in itertools.product("`a", repeat=k):
            lits.append("".join(t))
    for _ in range(n):
        lits.append("".join(rng.choice(["`", "`", "``", "a", " ", "~", "`" * rng.randrange(1, 40)]) for _ in range(rng.randrange(0, 12))))
    lits.append("".join("`" * k + "x" for k in range(1, 40)))
    lines_r, lines_m = [], []
    for l in lits:
        for f in ("`", "~"):
            lines_r.append(f"shortest_unused_sequence {hx(l)} {hx(f)}")
            lines_m.append(f"cm_sus {hx(l)} {hx(f)}")
            lines_r.append(f"longest_char_sequence {hx(l)} {hx(f)}")
            lines_m.append(f"cm_lcs {hx(l)} {hx(f)}")
    real = vlib.run_lines(vlib.VH["debug"], lines_r)
    model = vlib.run_lines(vlib.DRIVER, lines_m)
    agree = 0
    for lr, a, m in zip(lines_r, real, model):
        c.count(lr.encode(), True)
        if a == m:
            agree += 1
        else:
            c.problem("correspondence", "leaf.cm_sequences", f"{lr}: impl={a} model={m}", {"line": lr})
    c.cov["correspondences"]["leaf.shortest_unused_sequence/longest_char_sequence"] = {"cases": len(lines_r), "agree": agree}
    # the extracted run census (has_run, proved equivalent to is_run) on the implementation's own answers
    q, meta = [], []
    for lr, a in zip(lines_r, real):
        if not a.startswith("ok "):
            continue
        op, lit, f = lr.split()
        k = int(a[3:])
        if op == "shortest_unused_sequence":
            for j in range(1, min(k, 40) + 1):
                q.append(f"cm_has_run {lit} {f} {j}")
                meta.append((lr, a, j < k))
        else:
            for j in ([k] if k > 0 else []) + [k + 1, k + 2]:
                q.append(f"cm_has_run {lit} {f} {j}")
                meta.append((lr, a, j == k))
    res = vlib.run_lines(vlib.DRIVER, q)
    bad = 0
    for (lr, a, want), r in zip(meta, res):
        if r != ("ok 1" if want else "ok 0"):
            bad += 1
            c.violation("shortest_unused_sequence / longest_char_sequence answer contradicts the run census of the literal", {"line": lr, "impl": a})
    c.cov["spec_checks"]["has_run on the implementation's answers"] = {"evaluations": len(q), "contradictions": bad}


TRUSTED = ["Coq 8.16.1 kernel", "no axioms (Print Assumptions: closed for every pinned theorem)",
           "tools/gen_model.py item `cm` (escape classes of outc, alignment markers, the scheme rule of scanners.re, shape audit of output/outc/format)",
           "Model/Cm.v is a hand transcription of src/cm.rs tied by byte-for-byte correspondence (render.cm) in both build profiles, not a verified translation",
           "extraction (ExtrOcamlBasic only) + ocaml driver (tree/option token parser)",
           "harness (tree builder, option decoding, catch_unwind); root.validate() of format_commonmark (debug builds) and minimize_commonmark are outside the model"]


def main(tier):
    c = vlib.Check("CM_tie", tier)
    n_docs, n_synth = (6000, 3000) if tier == "quick" else (60000, 30000)
    ok = c.phase_proofs("CmLeaf")
    recs = tie_cm(c, n_docs, n_synth)
    if recs is not None:
        leaf_ties(c, 300 if tier == "quick" else 5000)
        pp = getattr(c, "cm_parser_panics", [])
        c.cov["formatter_panics_on_parser_trees"] = [{"doc": d[:300], "opts": o, "profile": p, "detail": det[:200]} for d, o, p, det in pp[:20]]
    c.finish(level="proof",
             rule="exit 1 iff a pinned theorem of Props/CmLeaf.v fails, the translator item `cm` breaks, or the compiled formatter and the extracted model differ on any case (bytes or panic/no panic)",
             trusted_base=TRUSTED)
    # (c.finish exits)
