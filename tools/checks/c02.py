"""C02 — safe-by-default HTML.  Theorems: coq/Props/C02.v (every event of Model/Html.v is safe when
unsafe is off, for every tree with S4/S7; dangerous_url model = spec; raw HTML only as placeholder /
escaped text; URL attribute shapes).  Tie: render.html correspondence + scanner.dangerous_url.
Search on the implementation: the strict lexer of comrak's output language + vocabulary / escaping /
dangerous-URL predicates (Spec/HtmlSpec.html_safe_check, extracted) on every real HTML output, and
the shape clauses S4/S7 on every tree the real parser returns."""
import vlib, docgen, e2e
from vlib import hx, unhx
from checks import htmlfam

HOSTILE = ['"', '">', '"><script>alert(1)</script>', "<", ">", "&", "'", "&quot;", "&lt;script&gt;", "--><b>", "]]>", "`", "\\\"", "\" onmouseover=\"x",
           "javascript:alert(1)", "JAVASCRIPT:x", "vbscript:x", "file:///x", "data:text/html;base64,xx", "data:image/png;x", "data:image/svg+xml,x", " javascript:x",
           "java\tscript:x", "é\"", "\x01\"", "<!--", "<?", "<![CDATA[", "</title>", "<img src=x onerror=y>",
           # doubly encoded references: the parser decodes one level, so the URL in the tree still spells a reference
           # (`javascript&colon;alert(1)`); the href escaper must encode its `&` (seeded change C02-m5 kept it)
           "javascript&amp;colon;alert(1)", "vbscript&amp;#58;x", "JaVaScRiPt&amp;#x3a;x", "data&amp;colon;text/html,x", "a&amp;amp;b&amp;lt;c"]

TEMPLATES = [
    "``` {p}\ncode\n```\n", "~~~ x {p}\ncode\n~~~\n", "[a]({p})\n", "[a](<{p}>)\n", "[a](/u \"{p}\")\n", "![{p}](/u)\n", "![a]({p} \"{p}\")\n",
    "[a]: {p}\n\n[a]\n", "[a]: /u '{p}'\n\n[a]\n", "[{p}]: /u\n\n[{p}]\n", "<{p}>\n", "x[^{p}]\n\n[^{p}]: y\n", "> [!NOTE] {p}\n> x\n",
    "${p}$ $${p}$$ $`{p}`$\n", "```math\n{p}\n```\n", "| {p} | b |\n|---|---|\n| {p} | `{p}` |\n", "[[{p}]] [[{p}|t]] [[t|{p}]]\n", "# {p}\n", "`{p}`\n",
    "<div>{p}</div>\n", "a <b {p}> c\n", "- [ ] {p}\n", "{p}\n: {p}\n", "http://x.y/{p} www.x.y/{p} a@b.c{p}\n", "||{p}|| ~{p}~ ^{p}^ __{p}__\n", "\\{p}\n",
    "&{p};\n", "---\n{p}\n---\nx\n", ">>>\n{p}\n>>>\n", "[a][{p}]\n\n[{p}]: {p}\n", "![a][r]\n\n[r]: {p} \"{p}\"\n", "<a href=\"{p}\">\n", "<!-- {p} -->\n",
]


def gen_hostile(rng):
    t = rng.choice(TEMPLATES)
    return t.replace("{p}", rng.choice(HOSTILE)) if rng.random() < 0.7 else "".join(rng.choice(TEMPLATES).replace("{p}", rng.choice(HOSTILE)) + "\n" for _ in range(3))


def safe_opts(rng):
    o = docgen.gen_opts(rng)
    o.pop("unsafe", None)
    if rng.random() < 0.3:
        o["header_ids"] = rng.choice(["", "x-", "\"><x", "é", "a&b"])
    return o


def main(tier):
    c = vlib.Check("C02", tier)
    c.phase_proofs()
    c.phase_proofs("HtmlBytes")   # byte-level forms via the lexer round trip (Proofs/HtmlLexRt.v)
    # the shape clauses as theorems about the parser models (Props/ParserShape.v), and the tie of the block-phase
    # model those theorems talk about
    c.phase_proofs("ParserShape")
    from checks import layerc
    layerc.blocks(c, tier, 0.12 if tier == "quick" else 0.1, proofs=(tier != "quick"))   # the whole-parser tie below runs the block phase too
    # Parse_C02 (Props/Parse.v): every event of the HTML model is safe on the tree that ONE Coq function of the input
    # bytes returns (Model/Parse.v parse_document_model), and that function is tied end to end to parse_document here
    layerc.whole(c, tier, 0.12 if tier == "quick" else 0.15)
    n = 2500 if tier == "quick" else 25000
    recs = htmlfam.tie_html(c, n, 400 if tier == "quick" else 4000, opts_fn=safe_opts)
    if recs is None:
        c.finish(rule="build failed")
    rng = c.rng
    drv = vlib.DRIVER
    # hostile documents: payloads smuggled into every payload position the syntax offers
    hcases = [(gen_hostile(rng), safe_opts(rng)) for _ in range(n)]
    recs += e2e.run_pipe(hcases)
    # ---- scanner.dangerous_url: compiled scanner vs generated model vs spec
    urls = set()
    lits = ["javascript:", "vbscript:", "file:", "data:", "data:image/png", "data:image/gif", "data:image/jpeg", "data:image/webp", "data:image/svg", "data:text/html"]
    for l in lits:
        for k in range(len(l) + 1):
            for suf in ("", "x", ":", "/", "P", "\x00", "é"):
                urls.add(l[:k] + suf)
                urls.add(l[:k].upper() + suf)
                urls.add("".join(ch.upper() if i % 2 else ch for i, ch in enumerate(l[:k])) + suf)
        urls.add(" " + l)
        urls.add(l + "png")
        urls.add(l.replace("a", "\u0430"))  # Cyrillic a
        urls.add(l.replace("s", "\u017f"))  # long s
        urls.add(l.replace("k", "\u212a"))
    urls = sorted(urls)
    impl = vlib.run_lines(vlib.VH["debug"], [f"dangerous_url {hx(u)}" for u in urls])
    model = vlib.run_lines(drv, [f"dangerous_model {hx(u)}" for u in urls])
    spec = vlib.run_lines(drv, [f"dangerous_spec {hx(u)}" for u in urls])
    ag = 0
    for u, a, m, s in zip(urls, impl, model, spec):
        c.count(b"durl:" + u.encode(), True)
        if a != m:
            c.problem("correspondence", "scanner.dangerous_url", f"url={u!r} impl={a} model={m}", {"fn": "dangerous_url", "input": hx(u)})
        else:
            ag += 1
        if a != s:
            c.violation("dangerous_url disagrees with the specification of dangerous schemes", {"url": u, "impl": a, "spec": s, "fn": "dangerous_url", "input": hx(u)})
    c.cov["correspondences"]["scanner.dangerous_url"] = {"cases": len(urls), "agree": ag}

    # ---- search on the implementation
    ok = [r for r in recs if r.status == "ok"]
    for r in recs:
        if r.status != "ok":
            # a crash of the pipeline is C01's business; here it only means the case could not be examined
            c.cov.setdefault("unexamined", 0)
            c.cov["unexamined"] += 1
    preds = vlib.run_lines(drv, [f"treepred {r.tree}" for r in ok], timeout=900)
    for r, p in zip(ok, preds):
        if not p.startswith("ok ") or len(p) != 9:
            c.problem("spec", "treepred", f"driver: {p[:100]}", {"doc": hx(r.doc)})
            continue
        s4, s7 = p[3 + 2], p[3 + 5]
        if s4 != "1" or s7 != "1":
            c.violation("the parser returned a tree outside the shape clauses the safety theorem assumes (S4 heading level 1..6 / S7 no Raw node, inert EscapedTag)",
                        {"doc": hx(r.doc), "opts": docgen.opts_token(r.opts), "s4": s4, "s7": s7, "line": f"parse {docgen.opts_token(r.opts)} {hx(r.doc)}"})
    live = [r for r in ok if r.stage("html") is not None]
    res = vlib.run_lines(drv, [f"html_safe_check {r.html}" for r in live], timeout=900)
    what = {"ok 1": "output is not in comrak's output language (does not lex: foreign tag syntax, raw '<', unterminated attribute)",
            "ok 2": "output contains a token outside the vocabulary, an unescaped value/text, or a dangerous URL"}
    for r, x in zip(live, res):
        c.count(("safe:" + docgen.opts_token(r.opts) + ":" + r.doc).encode("utf-8", "surrogatepass"), any(ch in r.doc for ch in "<>&\"'"))
        if x != "ok 0":
            c.violation(what.get(x, f"safety check failed: {x}"), {"doc": hx(r.doc), "opts": docgen.opts_token(r.opts), "html": r.stage("html")[:600].decode("utf-8", "replace"),
                                                                  "line": f"md html {docgen.opts_token(r.opts)} {hx(r.doc)}"})
    c.cov["spec_checks"]["html_safe_check(real html) = 0 (parser trees, unsafe off)"] = len(live)
    # synthetic trees that satisfy S4/S7 and were rendered without unsafe
    so = [(o, t, h) for (o, t, h) in getattr(c, "synth_out", []) if "unsafe=1" not in o.split(",")]
    sp = vlib.run_lines(drv, [f"treepred {t}" for (_, t, _) in so], timeout=900)
    so = [x for x, p in zip(so, sp) if p.startswith("ok ") and p[5] == "1" and p[8] == "1"]
    sres = vlib.run_lines(drv, [f"html_safe_check {h}" for (_, _, h) in so], timeout=900)
    for (o, t, h), x in zip(so, sres):
        if x != "ok 0":
            c.violation("synthetic tree (S4, S7 hold, unsafe off): " + what.get(x, x), {"opts": o, "tree": t, "html": unhx(h)[:600].decode("utf-8", "replace"), "line": f"render html {o} {t}"})
    c.cov["spec_checks"]["html_safe_check(real html) = 0 (synthetic trees with S4/S7, unsafe off)"] = len(so)
    c.cov["partial_clauses"] = ["theorems are about the events of Model/Html.v; the byte-level statement (lexer round trip) is evaluated on the real output, not proved",
                                "S4/S7 are theorems about the parser: Props/Parse.v Parse_shape / Parse_C02 state them of every tree that Model/Parse.v parse_document_model (block phase + process_inlines + process_footnotes + postprocess_text_nodes as ONE function of the input bytes) returns, and that function is tied end to end to the compiled parse_document (correspondence parser.whole: equal trees with positions); what remains outside Coq: totality of the parser model (statements are about runs that return Ok) and the Unicode oracles; the clauses are still evaluated on every dumped tree"]
    c.assumptions = ["no plugins, URL rewriters or broken-link callback (as the property states)", "the Anchorizer slug stage is an external Unicode function (hypothesis of C02_events: its output is inert)"]
    c.finish(rule="distinct by (options, document) or synthetic (options, tree); non-trivial = the document contains at least one of < > & \" ' (parser cases), every synthetic tree carries adversarial payloads",
             trusted_base=htmlfam.TRUSTED)
