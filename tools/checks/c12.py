"""C12 — source positions point at the text they claim.  Theorems: coq/Props/C12.v (slice of a line at the
position of a piece is that piece; the verbatim clause there; make_inline keeps widths; Spx::consume on
verbatim pieces and its refutation otherwise) and coq/Props/BlocksSlice.v (block phase model: the start position of
every delimited block is the byte of its delimiter; refuted behind a NUL and for tables).  Tie: translator item `srcpos`.  Search on the
IMPLEMENTATION: the extracted slice clauses of Spec/SourcePos.v (verbatim Text = literal unless escape,
entity, NUL or smart punctuation is involved; code spans, emphasis, strong, strikethrough, links, images,
autolinks, headings, fenced code, block quotes, thematic breaks, table cells start and end on their own
delimiters or content) on every dumped tree; failures classified by Spec/SourcePosKnown.v."""
from checks import srcposfam


def parser_models(tier):
    """the block-phase and inline-phase models carry every source position exactly as the compiled parser computes
    it (the ties compare them string for string); both are tied here, so that a change of where a position points
    moves the code away from the models and is reported even when the search meets no failing slice"""
    def f(c):
        from checks import layerc
        # Props/BlocksSlice.v: the START of every delimited block points at its delimiter (theorems about the block model
        # that is tied just below); obligations accumulate with those of Props/C12.v
        c.phase_proofs("BlocksSlice")
        layerc.blocks(c, tier, 0.15 if tier == "quick" else 0.1, proofs=False)
        layerc.inlines(c, tier, 0.2 if tier == "quick" else 0.1, proofs=False)
    return f


def main(tier):
    c = srcposfam.run("C12", ("V",), tier, after_proofs=parser_models(tier))
    c.cov["partial_clauses"] = [
        "the global statement (forall inputs: every slice clause holds) is not proved; it is evaluated with the extracted predicate and FAILS in the known classes listed in known_findings.json (C12-a ...)",
        "block phase (Props/BlocksSlice.v), proved for every input, node and option set with front matter and the description list extension off: the start position of a ThematicBreak, BlockQuote, List, Item, HtmlBlock, FootnoteDefinition, Alert, MultilineBlockQuote, ATX Heading and fenced CodeBlock is a byte of the line the parser works on (NUL replaced by U+FFFD) and that byte is the construct's delimiter (* _ - / > / bullet character of the payload or a digit / < / [ / > / > / # / fence character of the payload); Paragraph and setext Heading (table extension off): a byte at the start position is not a blank (that it lies inside the line is not claimed). BlocksSlice_start: the same on the ORIGINAL input when it has no NUL; tabs (partially consumed ones too), a byte-order mark and lazy continuation are no exceptions. Refuted with NUL (BlocksSlice_nul_refuted, class nul_shift) and for Table / TableRow (BlocksSlice_table_refuted, class table_row_indent); the END of blocks, description lists, front matter and Paragraph under the table extension are not proved (BlocksSlice_full_statement)",
        "the verbatim clause is not demanded when the smart option is on, nor for a text whose slice contains a backslash, an ampersand or NUL (the property text excludes escape, entity, smart punctuation, NUL)"]
    c.assumptions = ["Model/Spx.v is a hand transcription; the Rust bodies are compared with the transcribed text on every run (translator item srcpos)",
                     "positions are judged against the ORIGINAL input bytes, lines split at LF, CR LF, CR (CommonMark 2.1)",
                     "a block owns its lines up to the line ending (trailing blanks of a heading line are not a failure); a table cell is the text between its pipes"]
    c.finish(level="proof", rule="distinct by (option token, input bytes); non-trivial = the parsed tree has more than two nodes",
             trusted_base=["Coq 8.16.1 kernel", "no axioms (Print Assumptions: closed for every theorem)", "tools/gen_model.py recognisers (item srcpos)",
                           "extraction (ExtrOcamlBasic only) + ocaml/d_srcpos.ml, ocaml/d_0tree.ml (tree token parser)", "harness/src (parse op, tree dump)"])
