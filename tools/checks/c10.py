"""C10 — HTML output is balanced and properly nested.  Theorems: coq/Props/C10.v (for every tree with
S2, S3, S6w the events of Model/Html.v are well nested; table sections / footnote section open and
close exactly once; html_total: no renderer panic under S2/S3; refutation witnesses for each clause).
Tie: render.html correspondence.  Search on the implementation: the extracted lexer + stack check on
every real output where raw HTML is not passed through, and the shape clauses S2/S3/S6w on every tree
the real parser returns."""
import vlib, docgen, e2e
from vlib import hx, unhx
from checks import htmlfam


def main(tier):
    c = vlib.Check("C10", tier)
    c.phase_proofs()
    c.phase_proofs("HtmlBytes")   # byte-level forms via the lexer round trip (Proofs/HtmlLexRt.v)
    # the shape clauses as theorems about the parser models (Props/ParserShape.v), and the tie of the block-phase
    # model those theorems talk about
    c.phase_proofs("ParserShape")
    from checks import layerc
    layerc.blocks(c, tier, 0.12 if tier == "quick" else 0.1, proofs=(tier != "quick"))   # the whole-parser tie below runs the block phase too
    # Parse_C10 / Parse_html_total (Props/Parse.v): the events of the HTML model are well nested on the tree that ONE Coq
    # function of the input bytes returns (Model/Parse.v parse_document_model), tied end to end to parse_document here
    layerc.whole(c, tier, 0.12 if tier == "quick" else 0.15)
    n = 3000 if tier == "quick" else 30000
    recs = htmlfam.tie_html(c, n, 400 if tier == "quick" else 4000)
    if recs is None:
        c.finish(rule="build failed")
    drv = vlib.DRIVER
    rng = c.rng
    # structure-heavy documents: tables, nested lists, footnotes, figures, alerts, description lists
    def heavy(rng):
        parts = []
        for _ in range(rng.choice([2, 3, 5])):
            k = rng.choice(["table", "foot", "list", "img", "alert", "dl", "quote", "task", "nested"])
            if k == "table":
                cols = rng.choice([1, 2, 3])
                rows = rng.choice([0, 1, 2, 3])
                parts.append("|" + "|".join(" h " for _ in range(cols)) + "|\n|" + "|".join(rng.choice(["-", ":-", "-:", ":-:"]) for _ in range(cols)) + "|\n" +
                             "".join("|" + "|".join(" " + rng.choice(["c", "", "*e*", "[^1]", "`|`"]) + " " for _ in range(rng.choice([cols, cols - 1, cols + 1]) or 1)) + "|\n" for _ in range(rows)))
            elif k == "foot":
                parts.append(rng.choice([
                    f"x[^{rng.choice('ab1')}] y[^{rng.choice('ab1')}]\n\n[^a]: A\n\n    more\n\n[^b]: > q[^1]\n\n[^1]: - l\n",
                    # a definition written inside a definition (stays in place: known finding F22), inside a quote, inside a list
                    "x[^1]\n\n[^1]: outer\n\n    [^2]: inner\n", "x[^1][^2]\n\n[^1]: outer\n\n    [^2]: inner\n\n    tail\n",
                    "x[^1]\n\n> [^1]: in quote\n\n- [^2]: in list\n\ny[^2]\n", "x[^1]\n\n[^1]: a\n\n    [^2]: b\n\n        [^3]: c\n\ny[^3]\n"]))
            elif k == "list":
                parts.append("- a\n\n  b\n- c\n  1. d\n  2. e\n\n     f\n")
            elif k == "img":
                parts.append("![a *b* `c`](/u \"t\") ![x](y)\n")
            elif k == "alert":
                parts.append("> [!WARNING] T\n> body\n>\n> - l\n")
            elif k == "dl":
                parts.append("term\n\n: def\n\n  more\n: def2\n")
            elif k == "quote":
                parts.append("> a\n> > b\n>\n> ```\n> c\n> ```\n")
            elif k == "task":
                parts.append("- [x] a\n- [ ] b\n  - [x] c\n")
            else:
                parts.append("**a **b** __c__** [l [m](n)](o) http://x.y\n")
        return "\n".join(parts)
    recs += e2e.run_pipe(e2e.gen_cases(rng, n // 3, doc_fn=heavy))
    ok = [r for r in recs if r.status == "ok"]
    preds = vlib.run_lines(drv, [f"treepred {r.tree}" for r in ok], timeout=900)
    for r, p in zip(ok, preds):
        if not p.startswith("ok ") or len(p) != 9:
            c.problem("spec", "treepred", f"driver: {p[:100]}", {"doc": hx(r.doc)})
            continue
        s2, s3, s6w = p[3], p[4], p[7]
        if s2 != "1" or s3 != "1" or s6w != "1":
            c.violation("the parser returned a tree outside the shape clauses of the nesting theorem (S2 root is a document / S3 table shape / S6w first footnote definition at the root)",
                        {"doc": hx(r.doc), "opts": docgen.opts_token(r.opts), "s2": s2, "s3": s3, "s6w": s6w, "line": f"parse {docgen.opts_token(r.opts)} {hx(r.doc)}"})
    # balanced output whenever raw HTML is not passed through
    def no_passthrough(r):
        o = r.opts
        return (not o.get("unsafe")) or o.get("escape") or not any(k in r.tree for k in ("HtmlBlock", "HtmlInline", "Raw"))
    live = [r for r in ok if r.stage("html") is not None and no_passthrough(r)]
    res = vlib.run_lines(drv, [f"html_balanced_check {r.html}" for r in live], timeout=900)
    for r, x in zip(live, res):
        c.count(("nest:" + docgen.opts_token(r.opts) + ":" + r.doc).encode("utf-8", "surrogatepass"), r.tree.count("(") > 4)
        if x != "ok 0":
            c.violation("HTML output is not a well-nested sequence of elements" if x == "ok 3" else "HTML output does not lex as comrak's output language",
                        {"doc": hx(r.doc), "opts": docgen.opts_token(r.opts), "html": r.stage("html")[:800].decode("utf-8", "replace"),
                         "line": f"md html {docgen.opts_token(r.opts)} {hx(r.doc)}"})
    for r in ok:
        pan = r.stage_panic("html")
        if pan is not None:
            c.violation("format_html panics on a tree produced by the parser (formatter meets a context it does not handle)",
                        {"doc": hx(r.doc), "opts": docgen.opts_token(r.opts), "panic": pan[0][:200], "at": pan[1], "line": f"md html {docgen.opts_token(r.opts)} {hx(r.doc)}"})
    c.cov["spec_checks"]["html_balanced_check(real html) = 0 where raw HTML is not passed through"] = len(live)
    c.cov["spec_checks"]["S2, S3, S6w on dumped parser trees"] = len(ok)
    c.cov["partial_clauses"] = ["the byte-level statement (lexer round trip) is evaluated on the real output, not proved",
                                "S2/S3/S6w are theorems about the parser: Props/Parse.v Parse_shape / Parse_C10 / Parse_html_total state them of every tree that Model/Parse.v parse_document_model (block phase + process_inlines + process_footnotes + postprocess_text_nodes as ONE function of the input bytes) returns, and that function is tied end to end to the compiled parse_document (correspondence parser.whole: equal trees with positions); what remains outside Coq: totality of the parser model (statements are about runs that return Ok) and the Unicode oracles; the clauses are still evaluated on every dumped tree"]
    c.assumptions = ["no plugins (heading adapter, syntax highlighter) — they write arbitrary bytes"]
    c.finish(rule="distinct by (options, document); non-trivial = the dumped tree has more than four nodes",
             trusted_base=htmlfam.TRUSTED)
