"""C04 (links half) — parent / child / sibling links of arena_tree are mutually consistent after every
history of operations.  Theorems: coq/Props/C04_links.v.  Tie: translator item `arena` (whole bodies
of Node::new, detach, append, prepend, insert_after, insert_before; audits of link writes and of the
parser's mutation call sites, compared by reflexivity in Coq) + correspondence arena.ops (random and
small exhaustive operation histories, all five links of all nodes after every step, debug and
release builds).  Search on the implementation: the extracted predicate Arena.wf_b evaluated on every
dump the compiled arena_tree produces along admissible histories.

`run(c)` adds these phases to an existing vlib.Check (the C04 check calls it); `main(tier)` runs them
alone:  ./check C04_LINKS quick   (evidence written to evidence/C04_links.json)."""
import os, re, shutil
import vlib
import shrink

FNS = ("detach", "append", "prepend", "insert_after", "insert_before")
TOK = {"a": "append", "p": "prepend", "ia": "insert_after", "ib": "insert_before", "d": "detach"}


# ----------------------------------------------------------------------------- panic sites
def assert_lines():
    """{fn: [line of 1st debug_assert!, line of 2nd, ...]} from the current source"""
    src = open(os.path.join(vlib.REPO, "src", "arena_tree.rs"), encoding="utf-8").read().split("\n")
    res = {}
    cur = None
    for i, l in enumerate(src, 1):
        m = re.match(r"\s*pub fn (\w+)\(", l)
        if m:
            cur = m.group(1)
        if "debug_assert!" in l and cur in FNS:
            res.setdefault(cur, []).append(i)
    return res


def norm_impl(out, alines):
    """rewrite the harness' panic token !<fn>:<kind>:<line> to the model's site name"""
    toks = out.split(" ")
    if toks and toks[-1].startswith("!"):
        parts = toks[-1][1:].split(":")
        if len(parts) == 3 and parts[1] in ("assert", "unwrap") and parts[2].isdigit():
            fn, kind, line = parts[0], parts[1], int(parts[2])
            k = sum(1 for a in alines.get(fn, []) if a <= line)
            toks[-1] = f"!arena_tree.rs:{fn}:{kind}{k}"
    return " ".join(toks)


# ----------------------------------------------------------------------------- histories
def all_ops(n, self_insert=True):
    ops = [f"d:{i}" for i in range(n)]
    for k in ("a", "p", "ia", "ib"):
        for i in range(n):
            for j in range(n):
                if not self_insert and k in ("ia", "ib") and i == j:
                    continue
                ops.append(f"{k}:{i}:{j}")
    return ops


def admissible(toks):
    for t in toks:
        p = t.split(":")
        if p[0] in ("ia", "ib") and p[1] == p[2]:
            return False
    return True


def gen_history(rng, n, maxlen, wild):
    ln = rng.randrange(1, maxlen + 1)
    toks = []
    # weights: building operations dominate, detach and the odd cases are frequent enough to matter
    for _ in range(ln):
        r = rng.random()
        i = rng.randrange(n)
        j = rng.randrange(n)
        if r < 0.12:
            toks.append(f"d:{i}")
            if rng.random() < 0.2:
                toks.append(f"d:{i}")          # repeated detach
        elif r < 0.17:
            toks.append(f"{rng.choice(['a', 'p'])}:{i}:{i}")   # self-append / self-prepend
        elif r < 0.22 and toks and toks[-1][0] in "ap" and ":" in toks[-1]:
            p = toks[-1].split(":")
            toks.append(f"{rng.choice(['a', 'p'])}:{p[2]}:{p[1]}")   # the parent under its new child
        else:
            k = rng.choice(["a", "a", "p", "ia", "ib"])
            if k in ("ia", "ib") and i == j and not (wild and rng.random() < 0.5):
                j = (i + 1 + rng.randrange(max(1, n - 1))) % n if n > 1 else i
                if j == i:
                    k = "a"
            toks.append(f"{k}:{i}:{j}")
    toks = toks[:maxlen]
    if not wild:
        toks = [t for t in toks if admissible([t])]
    return toks or ["d:0"]


def line_of(n, toks, fn="arena"):
    return f"{fn} {n} " + " ".join(toks)


def nontrivial(out):
    """some node has a parent and a sibling at some step"""
    for d in out.split(" ")[1:]:
        if d.startswith("!"):
            continue
        for c in d.split(";"):
            f = c.split(",")
            if len(f) == 5 and f[0] != "-" and (f[1] != "-" or f[2] != "-"):
                return True
    return False


# ----------------------------------------------------------------------------- the phases
def run(c, quick_histories=2000):
    tier = c.tier
    rng = c.rng
    c.phase_translator(["arena"])
    c.phase_proofs("C04_links")
    if not c.phase_builds(("debug", "release")):
        return False
    drv = vlib.DRIVER
    alines = assert_lines()

    # ---- cases
    seeds = [(2, ["a:0:0"]), (2, ["a:0:1", "a:1:0"]), (1, ["ia:0:0"]), (2, ["a:0:1", "ib:1:1", "a:0:1"]),
             (3, ["a:0:1", "a:0:2", "d:1", "d:1", "d:2", "d:0"]), (3, ["a:0:1", "a:1:2", "a:2:0", "d:1", "p:1:1"]),
             (2, ["ia:0:0", "a:1:0", "ib:0:1"]), (3, ["a:0:1", "a:0:2", "ia:1:1", "a:0:1", "ia:2:1"]),
             (10, ["a:0:1", "a:0:2", "p:0:3", "a:4:0", "ib:0:5", "ib:0:6", "ia:0:7", "ia:0:8", "a:4:9", "d:7"])]
    exh = []
    for n, L in ((1, 4), (2, 3), (3, 2)):
        ops = all_ops(n)
        level = [[]]
        for _ in range(L):
            level = [h + [o] for h in level for o in ops]
            exh.extend((n, h) for h in level)
    nrand = quick_histories if tier == "quick" else quick_histories * 20
    rnd = []
    for k in range(nrand):
        n = rng.choice([1, 2, 3, 3, 4, 4, 5, 6, 7, 8])
        rnd.append((n, gen_history(rng, n, 60, wild=(k % 2 == 1))))
    cases = seeds + exh + rnd

    # ---- correspondence arena.ops: debug build vs dbg=true, release build vs dbg=false
    impl_dbg = None
    for profile, fn in (("debug", "arena"), ("release", "arena_rel")):
        impl = [norm_impl(o, alines) for o in vlib.run_lines(vlib.VH[profile], [line_of(n, t) for n, t in cases])]
        model = vlib.run_lines(drv, [line_of(n, t, fn) for n, t in cases])
        if profile == "debug":
            impl_dbg = impl
        agree = 0
        reported = 0
        panics = 0
        for (n, toks), a, m in zip(cases, impl, model):
            if profile == "debug":
                c.count(line_of(n, toks), nontrivial(a))
            if " !" in a:
                panics += 1
            if a == m and a.startswith("ok"):
                agree += 1
                continue
            if reported < 3:
                reported += 1

                def still(t, n=n, profile=profile, fn=fn):
                    if not t:
                        return False
                    x = norm_impl(vlib.run_one(vlib.VH[profile], line_of(n, t)), alines)
                    y = vlib.run_one(drv, line_of(n, t, fn))
                    return x != y or not x.startswith("ok")
                small = shrink.ddmin(list(toks), still) if still(list(toks)) else list(toks)
                x = norm_impl(vlib.run_one(vlib.VH[profile], line_of(n, small)), alines)
                y = vlib.run_one(drv, line_of(n, small, fn))
                c.problem("correspondence", f"arena.ops:{profile}",
                          f"history `{line_of(n, small)}` ({profile} build): implementation {x} / model {y}",
                          {"line": line_of(n, small), "profile": profile, "impl": x, "model": y, "original": line_of(n, toks)})
        c.cov["correspondences"][f"arena.ops:{profile}"] = {
            "cases": len(cases), "agree": agree, "histories_ending_in_debug_assert_panic": panics,
            "exhaustive": "all histories: 1 node len<=4, 2 nodes len<=3, 3 nodes len<=2 (%d)" % len(exh),
            "random": len(rnd), "compared": "parent, previous_sibling, next_sibling, first_child, last_child of every node after every step"}

    # ---- search on the implementation: Arena.wf_b on every dump of every admissible history; no panic
    adm = [(n, t, o) for (n, t), o in zip(cases, impl_dbg) if admissible(t)]
    lines, owner = [], []
    for ix, (n, t, o) in enumerate(adm):
        if not o.startswith("ok") or " !" in o:
            small = shrink.ddmin(list(t), lambda u, n=n: bool(u) and admissible(u) and " !" in vlib.run_one(vlib.VH["debug"], line_of(n, u))) \
                if " !" in o else list(t)
            c.violation("an admissible history (no node inserted as its own sibling) does not run to completion on arena_tree",
                        {"line": line_of(n, small), "observed": vlib.run_one(vlib.VH["debug"], line_of(n, small))})
            continue
        for step, d in enumerate(o.split(" ")[1:]):
            lines.append(f"arena_wf {n} {d}")
            owner.append((ix, step))
    res = vlib.run_lines(drv, lines)
    bad = {}
    for (ix, step), r in zip(owner, res):
        if r != "ok 1" and ix not in bad:
            bad[ix] = step
    for ix, step in sorted(bad.items())[:3]:
        n, t, o = adm[ix]
        t = list(t[:step + 1])

        def still(u, n=n):
            if not u or not admissible(u):
                return False
            x = vlib.run_one(vlib.VH["debug"], line_of(n, u))
            if not x.startswith("ok") or " !" in x:
                return False
            ds = x.split(" ")[1:]
            return bool(ds) and vlib.run_one(drv, f"arena_wf {n} {ds[-1]}") != "ok 1"
        small = shrink.ddmin(t, still) if still(t) else t
        c.violation("links are not mutually consistent after an admissible history of arena_tree operations (wf_b false)",
                    {"line": line_of(n, small), "observed": vlib.run_one(vlib.VH["debug"], line_of(n, small)), "first_bad_step": len(small)})
    if len(bad) > 3:
        c.cov["more_wf_failures"] = len(bad) - 3
    c.cov["spec_checks"]["arena: wf_b(dump) after every step of every admissible history on the compiled arena_tree; no panic"] = len(lines)
    # how many histories end in a cyclic "tree" (allowed by the Rust code; informational)
    fin = [(n, o.split(" ")[-1]) for n, t, o in adm if o.startswith("ok ") and " !" not in o]
    cyc = vlib.run_lines(drv, [f"arena_acyclic {n} {d}" for n, d in fin])
    c.cov["admissible_histories_ending_with_parent_cycle"] = sum(1 for r in cyc if r == "ok 0")
    c.cov["samples"].append({"history": line_of(*cases[len(seeds) + len(exh) + 1]), "impl": impl_dbg[len(seeds) + len(exh) + 1][:400]})
    c.cov["samples"].append({"history": line_of(*seeds[1]), "impl": impl_dbg[1]})
    c.assumptions.append("Model/Arena.v is a hand transcription of Node::new, detach, append, prepend, insert_after, insert_before; "
                         "the translator compares the whole comment-stripped bodies with the transcribed ones on every run (item `arena`)")
    c.assumptions.append("a node is identified by its index; Cell<Option<&Node>> is a total map from ids to five optional ids "
                         "(typed_arena never moves or frees a node while the arena lives)")
    c.assumptions.append("trees are built from detached nodes (Node::new) only through the five operations: audited "
                         "(no other write to a link cell in src/, fields private, no unsafe in arena_tree.rs; 36 call sites in src/parser)")
    return True


RULE = ("a case is one operation history (n nodes, tokens a:i:j p:i:j ia:i:j ib:i:j d:i); distinct by the token string; "
        "non-trivial = at some step a node has both a parent and a sibling")
TRUSTED = ["Coq 8.16.1 kernel", "no axioms (Print Assumptions: closed for every theorem)",
           "tools/gen_model.py item `arena` (whole-body comparison, regex audits)",
           "extraction (ExtrOcamlBasic only) + ocaml/d_arena.ml (dump printing / parsing)",
           "harness/src/ops_arena.rs (reads the five public accessors, catch_unwind)"]


def main(tier):
    c = vlib.Check("C04_LINKS", tier)
    ok = run(c)
    c.cov["partial_clauses"] = ["links half of C04 only; acyclicity is NOT implied by link consistency (C04_links_ancestor_append_keeps_wf_but_cycles)"]
    import atexit
    src = os.path.join(vlib.ROOT, "evidence", "C04_LINKS.json")
    atexit.register(lambda: os.path.exists(src) and shutil.move(src, os.path.join(vlib.ROOT, "evidence", "C04_links.json")))
    c.finish(level="proof", rule=RULE if ok else "build failed", trusted_base=TRUSTED)
