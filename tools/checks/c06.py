"""C06 — Bounded work and output: no super-linear blow-up on adversarial input.

Theorems (coq/Props/C06.v): reference budget over every sequence of lookups, table auto-completion cap
(+ one row), column cap, XML indent cap, six-fold escape expansion, HTML size per event list.
Tie: translator item `consts` (constants + verbatim shape of every enforcement site) and the cap models
run against the compiled parser (reference documents at the budget, tables at the cap).
Asymptotics are MEASURED, not proved: the compiled comrak (release) is run on families
prefix^n body suffix^n / (fragment)^n / tree-shaped repetitions over the Markdown alphabet plus curated
shapes at doubling n, in deterministic units: work-counter steps (hook at the top of every scanning
loop body, repo_hooks_c06.patch), bytes requested from the allocator and peak live heap (counting
global allocator inside the harness).  A (family, options, stage, metric) is flagged when the log-log
growth exponent exceeds 1.2 over the last three doublings and the cost per input byte is above a floor;
output size is checked against K*|input| + allowance.  Flagged cases inside a class of
known_findings.json are reported as known; anything else is a violation with a replay."""
import os, subprocess, threading, time
import vlib, c06fam
from vlib import hx

K_OUT = {"html": 96, "xml": 128, "cm": 8}           # per-renderer constant of the output bound (see evidence: max_ratio)
CELL_BYTES = {"html": 11, "xml": 24, "cm": 4}        # bytes written per auto-completed (empty) table cell
BASE_ALLOW = 64 * 1024
REF_FLOOR = 100000
CAP_CELLS = 500000 + 65535


def case_line(g, optok, n, stage="all", main=False):
    tail = " main" if main else ""
    if g[0] == "f":
        return "costf %s %s %s %s %s %d%s" % (stage, optok, hx(g[1]), hx(g[2]), hx(g[3]), n, tail)
    return "cost %s %s %s%s" % (stage, optok, hx(g[1]), tail)


def text_of(g, n):
    if g[0] == "f":
        k = min(n, 4)
        return g[1] * k + g[2] + g[3] * k
    return g[1][:4000]


# ------------------------------------------------------------------------------------------ known classes
def classify(text, optok, stage, metric):
    """the class of known_findings.json a flagged (input shape, options, stage, metric) belongs to, or None"""
    has = lambda k: (k + "=1") in optok
    if "experimental_minimize_commonmark=1" in optok and stage == "cm":
        return "minimize_commonmark"
    if stage == "parse":
        if has("math_code") and "$" in text and "`" in text and metric == "steps":
            return "math_code_scan"
        if has("math_dollars") and "$" in text and "\\" in text and metric == "steps":
            return "math_dollar_scan"
        if has("autolink") and "@" in text and metric in ("alloc", "peak"):
            return "email_autolink_tail_copy"
        if has("autolink") and ")" in text and ("www." in text or "://" in text) and metric == "steps":
            return "autolink_delim_parens"
        if has("footnotes") and "[^" in text and "]" in text and metric == "steps":
            return "footnote_name_sibling_scan"
    if stage == "html":
        if has("table") and "|" in text and metric == "steps":
            return "table_cell_index_scan"
        if "header_ids=" in optok and metric in ("alloc", "peak") and ("#" in text or "\n=" in text or "\n-" in text or "=\n" in text or "-\n" in text):
            return "anchorizer_duplicate_ids"
    return None


def out_allowance(text, optok, fmt, inlen):
    a = BASE_ALLOW
    if "table=1" in optok and "|" in text:
        a += CAP_CELLS * CELL_BYTES[fmt]
    if "]:" in text:
        a += 6 * max(REF_FLOOR, inlen)
    return a


# ------------------------------------------------------------------------------------------ measurement
def measure(c, vh, fams, optsets, Ns, timeout):
    """-> {(family name, optset name): [(n, parsed dict | None, raw line)]}"""
    gens = dict(fams)
    cases = [(name, on, n) for name, _ in fams for on in optsets for n in Ns]
    lines = [case_line(gens[name](n), optsets[on], n) for name, on, n in cases]
    order = list(range(len(lines)))
    c.rng.shuffle(order)     # spread the expensive families over the shards
    out = vlib.run_lines(vh, [lines[i] for i in order], timeout=timeout)
    res = [None] * len(lines)
    for j, i in enumerate(order):
        res[i] = out[j]
    table = {}
    for (name, on, n), r, l in zip(cases, res, lines):
        table.setdefault((name, on), []).append((n, c06fam.parse_cost_line(r), r, l))
    return table


def analyse(c, table, gens, optsets, stats):
    """flag, classify, count; fills stats (rows for the evidence table)"""
    for (name, on), pts in sorted(table.items()):
        optok = optsets[on]
        nmax = pts[-1][0]
        g = gens[name](min(nmax, 64))
        text = text_of(gens[name](nmax), nmax)
        key = "%s|%s" % (name, on)
        dead = [(n, r, l) for n, d, r, l in pts if d is None]
        if dead:
            n, r, l = dead[0]
            c.count(key, True)
            c.violation("the parser/renderer did not finish (%s) on family %s at n=%d under options %s" % (r[:40], name, n, on),
                        {"family": name, "opts": optok, "n": n, "observed": r[:200], "line": l[:4000]})
            continue
        ins = [d["in"] for n, d, r, l in pts]
        worst = (0.0, "", 0)
        flagged_here = False
        for st in c06fam.STAGES:
            pan = [(n, d, l) for n, d, r, l in pts if "panic" in d[st]]
            if pan:
                n, d, l = pan[0]
                c.violation("%s stage panics on family %s at n=%d under options %s" % (st, name, n, on),
                            {"family": name, "opts": optok, "n": n, "panic": d[st]["panic"], "line": l[:4000]})
                flagged_here = True
                continue
            for m in c06fam.METRICS:
                vals = [d[st][m] for n, d, r, l in pts]
                e, sus, fl = c06fam.growth(ins, vals, m)
                if vals[-1] > c06fam.FLOOR[m] * ins[-1] / 4 and e > worst[0]:
                    worst = (round(e, 2), st + "." + m, vals[-1])
                if sus and fl:
                    flagged_here = True
                    cls = classify(text, optok, st, m)
                    row = {"family": name, "opts": on, "stage": st, "metric": m, "exponent": round(e, 2), "n": [p[0] for p in pts],
                           "input_bytes": ins, "values": vals, "class": cls}
                    stats["flagged"].append(row)
                    if cls and any(k["class"] == cls for k in c.known):
                        c.known_hit(cls, row)
                    else:
                        c.violation("super-linear %s of the %s stage: exponent %.2f over the last three doublings (%s) on family %s under options %s"
                                    % (m, st, e, vals, name, on),
                                    {"family": name, "opts": optok, "stage": st, "metric": m, "exponent": round(e, 2), "n": [p[0] for p in pts],
                                     "values": vals, "input_bytes": ins, "line": pts[-1][3][:4000], "input_sample": text[:200]})
            if st != "parse":
                outs = [d[st]["out"] for n, d, r, l in pts]
                ratio = max(max(0, o - (out_allowance(text, optok, st, i) - BASE_ALLOW)) / max(1, i) for o, i in zip(outs, ins))
                if ratio > stats["max_ratio"][st][0]:
                    stats["max_ratio"][st] = (round(ratio, 1), key)
                e, sus, _ = c06fam.growth(ins, outs, "steps")
                over = [(o, i) for o, i in zip(outs, ins) if o > K_OUT[st] * i + out_allowance(text, optok, st, i)]
                if over or (sus and outs[-1] > 8 * ins[-1] + out_allowance(text, optok, st, ins[-1])):
                    flagged_here = True
                    c.violation("%s output size is not bounded by %d*|input| + allowance on family %s under options %s: outputs %s for inputs %s"
                                % (st, K_OUT[st], name, on, outs, ins),
                                {"family": name, "opts": optok, "stage": st, "outputs": outs, "input_bytes": ins, "line": pts[-1][3][:4000]})
        c.count(key, pts[-1][1]["nodes"] > 2 or flagged_here)
        if name.startswith("cur:") or flagged_here:
            stats["rows"].append([name, on, worst[1], worst[0], worst[2]])


# ------------------------------------------------------------------------------------------ cap ties
def ref_tie(c, vh, drv):
    """documents whose references exhaust the budget: the compiled parser resolves exactly the lookups the model grants"""
    rng = c.rng
    cases = []
    for k in range(10 if c.tier == "quick" else 60):
        ne = rng.randrange(1, 5)
        ents = []
        for i in range(ne):
            ents.append(("r%d" % i, "/" + "u" * rng.choice([10, 999, 20000, 33333, 50000, 99990]), "t" * rng.choice([0, 5, 9, 20000])))
        seq = [rng.choice(ents + [("zz", "", "")])[0] for _ in range(rng.randrange(3, 40))]
        pad = "" if rng.random() < 0.6 else ("x" * rng.choice([1000, 150000]) + "\n\n")
        doc = pad + "".join('[%s]: %s "%s"\n' % (l, u, t) if t else "[%s]: %s\n" % (l, u) for l, u, t in ents) + "\n" + "".join("[%s]\n\n" % l for l in seq)
        cases.append((doc, ents, seq, bool(pad)))
    # boundary: size exactly the remaining budget is granted, one more byte is refused
    for extra in (0, 1):
        u = "/" + "u" * (50000 - 1 + extra)
        cases.append(("[a]: %s\n\n[a]\n\n[a]\n\n[a]\n\n" % u, [("a", u, "")], ["a", "a", "a"], False))
    impl = vlib.run_lines(vh, ["reflinks - %s" % hx(d) for d, _, _, _ in cases])
    mod = vlib.run_lines(drv, ["ref_lookups %d %d %s %s" % (len(d.encode()), len(e), " ".join("%s %s %s" % (hx(l), hx(u), hx(t)) for l, u, t in e),
                                                            " ".join(hx(l) for l in s)) for d, e, s, _ in cases])
    agree = 0
    refused = 0
    for (d, e, s, padded), a, m in zip(cases, impl, mod):
        c.count("ref:" + d[:2000] + str(len(d)), True)
        if padded and a.startswith("ok 0"):
            a = "ok " + a[4:]      # the padding paragraph in front of the definitions
        if a.startswith("ok ") and m.startswith("ok ") and a[3:] == m[3:].split(" ")[0]:
            agree += 1
            refused += a[3:].count("0")
            total = sum(len(u) + len(t) for (l, u, t), bit in zip([dict((x[0], x) for x in e).get(l, ("", "", "")) for l in s], a[3:]) if bit == "1")
            if total > max(REF_FLOOR, len(d.encode())):
                c.violation("expanded reference text exceeds max(100000, |input|)", {"doc": hx(d)[:4000], "expanded": total})
        else:
            c.problem("correspondence", "RefMap::lookup", "impl=%s model=%s" % (a[:100], m[:100]), {"doc": hx(d)[:20000], "impl": a, "model": m})
    c.cov["correspondences"]["RefMap::lookup sequences (documents at the reference budget)"] = {"cases": len(cases), "agree": agree, "lookups_refused": refused}


def table_tie(c, vh, drv):
    rng = c.rng
    shapes = [(1000, [1] * 600), (65535, [1] * 12), (700, [rng.randrange(0, 5) + 1 for _ in range(900)]), (3, [1, 2, 3, 4, 1] * 5),
              (2000, [1] * 100 + [2000] * 5 + [1] * 300), (500, [1] * 1100)]
    if c.tier != "quick":
        shapes += [(rng.randrange(200, 5000), [rng.randrange(1, 4) for _ in range(rng.randrange(50, 3000))]) for _ in range(10)]
    docs = []
    for cols, rows in shapes:
        docs.append("|a" * cols + "|\n" + "|-" * cols + "|\n" + "".join("|b" * r + "|\n" for r in rows))
    impl = vlib.run_lines(vh, ["tablerows6 table=1 %s" % hx(d) for d in docs])
    mod = vlib.run_lines(drv, ["tbl_rows %d %s" % (cols, " ".join(str(r) for r in rows)) for cols, rows in shapes])
    agree = 0
    for (cols, rows), d, a, m in zip(shapes, docs, impl, mod):
        c.count("tbl:%d:%s" % (cols, rows[:50]), True)
        ok = False
        if a.startswith("ok ") and m.startswith("ok "):
            ar, ac, ae = [int(x) for x in a[3:].split(" ")]
            mr, mc = [int(x) for x in m[3:].split(" ")]
            ok = ar == mr and ac == cols * mr and ae == mc
            if ae > 500000 + cols:
                c.violation("more auto-completed table cells than the cap plus one row", {"cols": cols, "rows": len(rows), "cells": ae})
        if ok:
            agree += 1
        else:
            c.problem("correspondence", "table auto-completion counter", "cols=%d impl=%s model=%s" % (cols, a[:100], m[:100]), {"cols": cols, "rows": rows[:2000], "impl": a, "model": m})
    c.cov["correspondences"]["table row acceptance and auto-completed cells (tables at the cap)"] = {"cases": len(shapes), "agree": agree}


# ------------------------------------------------------------------------------------------ stack
def stack_runs(c, vh, optsets):
    """deep shapes on the MAIN thread (default 8 MB stack), one process per case"""
    N = 100000
    shapes = [("> x n", ("f", "> ", "a", ""), "all", N), ("- x n", ("f", "- ", "a", ""), "all", N), ("[ x n", ("f", "[", "", ""), "all", N),
              ("*^n a *^n", ("f", "*", "a", "*"), "all", N), ("( x n", ("f", "(", "", ""), "all", N), ("[a]( x n", ("f", "[a](", "", ""), "all", N),
              ("![ x n", ("f", "![", "", ""), "all", N), ("*a  x n", ("f", "*a ", "", ""), "all", N), ("[^a]: nested x n", ("r", "x[^0]\n\n" + "".join("[^%d]: a[^%d]\n\n" % (i, i + 1) for i in range(20000))), "all", 0),
              ("<a> x n", ("f", "<a>", "", ""), "all", N), ("_*^n", ("f", "_*", "a", "*_"), "all", N),
              ("a@b.c  x 24000", ("f", "a@b.c ", "", ""), "gfm", 24000)]
    results = [None] * len(shapes)
    env = dict(vlib.ENV)
    env["VH_LIVE_LIMIT_MB"] = "6000"

    def work(i):
        name, g, on, n = shapes[i]
        line = case_line(g, optsets[on], n, stage="all", main=True)
        try:
            p = subprocess.run([vh], input=(line + "\n").encode(), stdout=subprocess.PIPE, stderr=subprocess.PIPE, timeout=170, env=env)
            results[i] = (p.returncode, p.stdout.decode("utf-8", "replace").strip()[:300], p.stderr.decode("utf-8", "replace")[-300:], line)
        except subprocess.TimeoutExpired:
            results[i] = ("hang", "", "", line)
    ths = [threading.Thread(target=work, args=(i,)) for i in range(len(shapes))]
    for t in ths:
        t.start()
    for t in ths:
        t.join()
    rows = []
    for (name, g, on, n), (rc, out, err, line) in zip(shapes, results):
        c.count("stack:" + name, True)
        overflow = "overflowed its stack" in err
        rows.append({"shape": name, "opts": on, "completed_on_8MB_main_thread_stack": rc == 0 and out.startswith("ok "), "stack_overflow": overflow, "rc": rc})
        if rc == 0 and out.startswith("ok "):
            continue
        if "@" in g[1] and any(k["class"] == "email_autolink_recursion" for k in c.known) and (overflow or "memory allocation" in err):
            c.known_hit("email_autolink_recursion", {"shape": name, "rc": rc, "stderr": err[-200:]})
        else:
            c.violation("the pipeline does not complete on the default 8 MB main-thread stack (%s) for %s" % ("stack overflow" if overflow else "rc=%s %s" % (rc, err[-120:]), name),
                        {"shape": name, "opts": optsets[on], "rc": rc, "stderr": err, "line": line[:4000]})
    c.cov["main_thread_stack"] = rows


def main(tier):
    c = vlib.Check("C06", tier)
    c.phase_translator(["consts", "nodes_xml", "tables"])
    c.phase_proofs()
    if not c.phase_builds(("release",)):
        c.finish(rule="build failed")
    vh, drv = vlib.VH["release"], vlib.DRIVER
    optsets = dict(c06fam.OPTSETS)

    # the step hooks must be present, otherwise the work counter reads 0 and the measurement is blind
    probe = c06fam.parse_cost_line(vlib.run_one(vh, case_line(("f", "*a ", "", ""), "-", 50)))
    if not probe or probe.get("hooks") != 1 or probe["parse"]["steps"] == 0:
        c.problem("tie", "hooks:verif::step", "the compiled comrak carries no work-counter hooks (repo_hooks_c06.patch not applied?): %s" % (probe,))

    ref_tie(c, vh, drv)
    table_tie(c, vh, drv)

    stats = {"flagged": [], "rows": [], "max_ratio": {"html": (0, ""), "xml": (0, ""), "cm": (0, "")}}
    quick = tier == "quick"
    sw = c06fam.swept(2 if quick else 3)
    cur = c06fam.curated()
    gens = dict(sw + cur)
    Ns_sw = [250, 500, 1000, 2000, 4000] if quick else [500, 1000, 2000, 4000, 8000]
    Ns_cur = [250, 500, 1000, 2000, 4000] if quick else [1000, 2000, 4000, 8000, 16000, 32000]
    vlib.log("C06: ties done %.0fs" % (time.time() - c.t0))
    t1 = measure(c, vh, sw, optsets, Ns_sw, timeout=600 if quick else 6000)
    vlib.log("C06: swept families measured %.0fs" % (time.time() - c.t0))
    analyse(c, t1, gens, optsets, stats)
    t2 = measure(c, vh, cur, optsets, Ns_cur, timeout=600 if quick else 6000)
    analyse(c, t2, gens, optsets, stats)
    vlib.log("C06: curated families measured %.0fs" % (time.time() - c.t0))
    # experimental_minimize_commonmark: its own class (re-parses the output per candidate backslash)
    mopts = {"minimize": c06fam.MINIMIZE, "minimize+all": c06fam.OPTSETS["all"] + "," + c06fam.MINIMIZE}
    mf = [f for f in cur if f[0] in ("cur:backslash-punct", "cur:backslash", "cur:star-a", "cur:entity", "cur:open-bracket", "cur:many-paragraphs")]
    t3 = measure(c, vh, mf, mopts, [125, 250, 500, 1000] if quick else [250, 500, 1000, 2000], timeout=900)
    analyse(c, t3, gens, mopts, stats)
    if not quick:
        # larger n for everything that stayed cheap: one more doubling up to 64000 on the curated shapes
        slow = set(r["family"] for r in stats["flagged"])
        rest = [f for f in cur if f[0] not in slow]
        t4 = measure(c, vh, rest, optsets, [8000, 16000, 32000, 64000], timeout=6000)
        analyse(c, t4, gens, optsets, stats)
    vlib.log("C06: minimize class measured %.0fs" % (time.time() - c.t0))
    stack_runs(c, vh, optsets)
    vlib.log("C06: main-thread stack runs done %.0fs" % (time.time() - c.t0))

    # ---------------------------------------------------------------- evidence
    stats["rows"].sort(key=lambda r: -r[3])
    c.cov["exponents_table"] = {"columns": ["family", "options", "worst stage.metric", "exponent (last three doublings)", "value at max n"],
                                "rows": stats["rows"][:150], "families_measured": len(gens), "n_swept": Ns_sw, "n_curated": Ns_cur}
    c.cov["flagged"] = [dict(r, values=r["values"][-3:], input_bytes=r["input_bytes"][-3:]) for r in stats["flagged"][:80]]
    c.cov["flagged_total"] = len(stats["flagged"])
    c.cov["flagged_by_class"] = {}
    for r in stats["flagged"]:
        c.cov["flagged_by_class"][r["class"] or "UNKNOWN"] = c.cov["flagged_by_class"].get(r["class"] or "UNKNOWN", 0) + 1
    c.cov["output_ratio_max"] = {k: {"ratio": v[0], "family": v[1], "bound_constant_used": K_OUT[k]} for k, v in stats["max_ratio"].items()}
    c.cov["samples"] += [{"family": "cur:dollar-backtick-a", "input_sample": "$`a $`a $`a ...", "options": "all"},
                         {"family": "rep:'[^' + 'x' + mirror", "input_sample": "[^[^[^x^]^]^]", "options": "all"}]
    c.cov["spec_checks"]["growth exponent <= 1.2 (steps, allocated bytes, peak live bytes) per family x options x stage"] = c.cov["evaluations"]
    c.cov["input_distribution"] = {"alphabet": c06fam.ALPHA, "fragment_length": 2 if quick else 3, "swept_families": len(sw), "curated_families": len(cur),
                                   "option_sets": list(optsets) + list(mopts), "stages": c06fam.STAGES, "metrics": c06fam.METRICS}
    c.cov["partial_clauses"] = [
        "quasi-linear cost of parsing and rendering is MEASURED on the listed families at the listed n, not proved; a super-linear term with a small constant can stay below the 1.2 threshold at these n",
        "the output bound uses per-renderer constants (html 96, xml 128, cm 8) instead of a single 8: per-node markup (footnote back-references, XML element names with capped indentation) legitimately exceeds 8x; the measured maxima are in output_ratio_max",
        "table auto-completion and reference expansion are capped, not proportional: their allowance (cap x bytes per empty cell; 6 x max(100000, |input|)) is added for families that contain a table / a definition",
        "html_output_bound_full_statement (events bounded by the tree) is stated, not proved; proved: the size of the serialisation per event list and the six-fold escape bounds",
        "CPU time is recorded by the harness but not used for verdicts (not deterministic)"]
    c.assumptions = ["the work counter counts loop iterations of the hooked files (parser, generated scanners, strings, entity, renderers, nodes); code outside them is visible only through allocated bytes",
                     "Model/Caps.v is a hand transcription of RefMap::lookup and the table counters; their Rust bodies are compared verbatim by the translator item consts and the models are run against the compiled parser on documents at the caps",
                     "usize arithmetic modelled in N; the one subtraction that could wrap is an explicit panic site proved unreachable"]
    c.finish(level="proof",
             rule="one case = one family x option set (measured at 4-6 doubling n, four stages, three metrics); distinct by (family, options); non-trivial when the parsed tree at the largest n has more than two nodes or the case was flagged; cap-tie documents and main-thread stack runs count as non-trivial",
             trusted_base=["Coq 8.16.1 kernel (vm_compute for finite checks)", "no axioms (Print Assumptions: closed for every theorem)",
                           "tools/gen_model.py recognisers (constants, verbatim bodies of the cap enforcement sites)",
                           "extraction (ExtrOcamlBasic only) + ocaml/d_caps.ml",
                           "harness/src/ops_c06.rs (counting global allocator, cost ops), repo_hooks_c06.patch (guarded work counter)"])
