"""C18 — the sourcepos option only adds attributes.
Theorems: coq/Props/C18.v (HTML: events with the option off = events with it on after erasing every
SpAttr, for every tree / option record / state, panics included; bytes: deletion of flagged segments,
cr() decisions unaffected; XML: the mirror element trees differ by xdrop_sp, bytes and reader
statements under C09's shape clause; the audit of every read of render.sourcepos in src/: none in
cm.rs or the parser).
Tie: translator item audit_sp (+ the HTML items and nodes_xml), correspondence render.html (shared
htmlfam.tie_html, options with sourcepos on and off) and render.xml (model vs compiled renderer on
parser trees and synthetic trees, sourcepos on and off).
Search on the IMPLEMENTATION, end to end from Markdown (parser included): for documents x option
sets without sourcepos, the pipeline is run with the option off and on; the dumped trees must be
equal, the extracted deletions of Spec/SpSpec.v + Spec/HtmlSpec.v applied to the on-output must give
the off-output (HTML: token-wise over the strict lexer, and the lexer-free pattern deletion; XML: the
byte scanner and the reader + xdrop_sp), CommonMark output must be equal byte for byte.  Then the same
TREE is rendered twice (render html|xml|cm on dumped and synthetic trees) to separate the renderers
from the parser."""
import vlib, docgen, e2e
from vlib import hx, unhx
from checks import htmlfam
from checks import c09 as treegen

MARK = b' data-sourcepos="'
XMARK = b' sourcepos="'

HTML_CODES = {
    2: "deleting every data-sourcepos attribute (token-wise) from the HTML rendered with sourcepos on does not give the HTML rendered with it off",
    3: "the HTML rendered with sourcepos off is in comrak's output language but the HTML rendered with it on is not",
    6: "deleting every data-sourcepos attribute (byte pattern) from the HTML rendered with sourcepos on does not give the HTML rendered with it off",
}
XML_CODES = {
    1: "the XML rendered with sourcepos on does not scan as tags / quoted values / character data",
    2: "deleting every sourcepos attribute from the XML rendered with sourcepos on does not give the XML rendered with it off",
    3: "the XML rendered with sourcepos off changes under the deletion of sourcepos attributes (or does not scan)",
}
XTREE_CODES = {
    2: "the element tree read from the XML rendered with sourcepos on, its sourcepos attributes dropped, differs from the element tree read from the XML rendered with it off",
    4: "the XML rendered with sourcepos off carries a sourcepos attribute",
}


def passthrough(opts, tree):
    """raw bytes of the document may reach the HTML output unescaped"""
    if " Raw " in tree or " EscapedTag " in tree:
        return True
    return bool(opts.get("unsafe")) and not opts.get("escape") and (" HtmlBlock " in tree or " HtmlInline " in tree)


def marker_docs(rng):
    """documents that carry the marker text themselves, in every kind of position"""
    m = rng.choice([' data-sourcepos="1:1-1:2"', ' data-sourcepos="x"', ' data-sourcepos="', ' sourcepos="3:1-3:4"', 'data-sourcepos'])
    k = rng.choice(["text", "code", "rawblock", "rawinline", "title", "alt", "info", "url", "heading", "fn", "table", "autolink"])
    if k == "text":
        return f"a{m} b\n\n- x{m}\n"
    if k == "code":
        return f"`c{m}` and\n\n    ind{m}\n\n```\nf{m}\n```\n"
    if k == "rawblock":
        return f"<div{m}>\n\ntext *e*\n\n</div>\n\npara\n"
    if k == "rawinline":
        return f"x <span{m}>y</span> <b{m}/> z\n"
    if k == "title":
        return f"[l](/u '{m}') ![i](/v \"t{m[:-1] if m.endswith(chr(34)) else m}\")\n"
    if k == "alt":
        return f"![a{m} *b*](/u)\n"
    if k == "info":
        return f"```rust{m}\ncode\n```\n\n``` {m}\nx\n```\n"
    if k == "url":
        return f"[l](<u{m}>) <http://e.x/{m.strip()}>\n"
    if k == "heading":
        return f"# h{m}\n\nt{m}\n===\n"
    if k == "fn":
        return f"x[^a{m.split('=')[0].strip()}]\n\n[^a{m.split('=')[0].strip()}]: d{m}\n"
    if k == "table":
        return f"| a{m} | b |\n|---|:-:|\n| `c{m}` | d |\n"
    return f"www.e.x/{m.strip()} http://e.x/?q={m.strip()}\n"


def sp_docs(rng):
    r = rng.random()
    if r < 0.12:
        return marker_docs(rng)
    if r < 0.22:
        return docgen.gen_malformed(rng)
    d = docgen.gen_doc(rng)
    if rng.random() < 0.1:
        d += "\n" + marker_docs(rng)
    return d


def html_out(a):
    """`render html` answers `ok <hex> S ...`"""
    return a.split(" S", 1)[0]


def main(tier):
    c = vlib.Check("C18", tier)
    c.phase_translator(["audit_sp", "nodes_xml"])
    c.phase_proofs()
    quick = tier == "quick"
    rng = c.rng

    def tie_opts(r):
        o = docgen.gen_opts(r)
        if r.random() < 0.5:
            o["sourcepos"] = not o.get("sourcepos", False)
        return o
    recs = htmlfam.tie_html(c, 2500 if quick else 20000, 400 if quick else 4000, opts_fn=tie_opts)
    if recs is None:
        c.finish(rule="build failed")
    drv, vh = vlib.DRIVER, vlib.VH["debug"]

    # ------------------------------------------------------------------ tie of the XML model (light; C09 is the full one)
    xok = [r for r in recs if r.status == "ok" and r.xml is not None]
    model = vlib.run_lines(drv, [f"xml {docgen.opts_token(r.opts)} {r.tree}" for r in xok], timeout=900)
    agree = 0
    for r, m in zip(xok, model):
        if r.xml.startswith("!"):
            if m.startswith("panic"):
                agree += 1
            else:
                c.problem("correspondence", "render.xml", f"implementation panics but the model returns {m[:80]}", {"doc": hx(r.doc), "opts": docgen.opts_token(r.opts)})
        elif m == "ok " + r.xml:
            agree += 1
        else:
            c.problem("correspondence", "render.xml", f"parser tree: impl={r.xml[:200]} model={m[:200]}",
                      {"doc": hx(r.doc), "opts": docgen.opts_token(r.opts), "line": f"render xml {docgen.opts_token(r.opts)} {r.tree}"})
    c.cov["correspondences"]["render.xml (parser trees, sourcepos on and off)"] = {"cases": len(xok), "agree": agree}

    # ------------------------------------------------------------------ synthetic trees (used for the XML tie and for the same-tree search)
    synth = []
    for _ in range(600 if quick else 4000):
        synth.append(("random", treegen.random_tree(rng, maxdepth=rng.choice([3, 5, 6]), allow_bad=(rng.random() < 0.1))))
    sysl = list(treegen.systematic(rng))
    rng.shuffle(sysl)
    synth += sysl[: 150 if quick else len(sysl)]
    synth += list(treegen.shape_violations(rng))
    # the marker text as a payload in every payload position, positions with line 0 and huge numbers
    for k in ["Text", "Code", "HtmlBlock", "HtmlInline", "Raw", "CodeBlock", "Link", "Image", "WikiLink", "FootnoteDefinition",
              "FootnoteReference", "Alert", "Math", "EscapedTag", "FrontMatter"]:
        for p in (' data-sourcepos="1:1-1:1"', ' sourcepos="1:1-1:1"', '<a data-sourcepos="9:9-9:9">', 'x" data-sourcepos="1:1-1:1'):
            inner = treegen.node(k, rng, [treegen.node("Text", rng, p="t")] if k in ("Link", "Image", "WikiLink", "FootnoteDefinition", "Alert", "EscapedTag") else [], p=p)
            if k in ("HtmlBlock", "CodeBlock", "FootnoteDefinition", "Alert", "FrontMatter"):
                synth.append(("marker:" + k, treegen.node("Document", rng, [inner])))
            else:
                synth.append(("marker:" + k, treegen.node("Document", rng, [treegen.node("Paragraph", rng, [inner])])))
    sopts = [docgen.gen_opts(rng, exclude=("sourcepos", "experimental_minimize_commonmark")) for _ in synth]

    # ------------------------------------------------------------------ the search, end to end from Markdown
    n = 6000 if quick else 40000
    cases = []
    for _ in range(n):
        d = sp_docs(rng)
        o = docgen.gen_opts(rng, exclude=("sourcepos",))
        if rng.random() < 0.25:
            o["unsafe"] = True
        cases.append((d, o))
    off = e2e.run_pipe(cases)
    on = e2e.run_pipe([(d, dict(o, sourcepos=True)) for d, o in cases])
    stats = {"pairs": 0, "html_differs": 0, "html_lexer": 0, "html_pattern_fallback": 0, "excluded_own_attribute": 0, "xml": 0, "cm": 0,
             "coinciding_panics": 0, "marker_in_document": 0}
    hl, hidx, xl, xidx = [], [], [], []
    for i, (a, b) in enumerate(zip(off, on)):
        d, o = cases[i]
        ot = docgen.opts_token(o)
        case = {"doc": hx(d), "opts": ot, "line": f"pipe {docgen.opts_token(dict(o, sourcepos=True))} {hx(d)}", "line_off": f"pipe {ot} {hx(d)}"}
        if a.status != "ok" or b.status != "ok":
            if a.status != b.status:
                c.violation("the pipeline fails differently with sourcepos on and off", dict(case, off=a.status[:300], on=b.status[:300]))
            else:
                stats["coinciding_panics"] += 1
            continue
        stats["pairs"] += 1
        if MARK in d.encode("utf-8", "surrogatepass"):
            stats["marker_in_document"] += 1
        if a.tree != b.tree:
            c.violation("the tree returned by the parser depends on render.sourcepos", dict(case, tree_off=a.tree[:1500], tree_on=b.tree[:1500]))
            continue
        for st in ("html", "xml", "cm"):
            pa, pb = a.stage_panic(st), b.stage_panic(st)
            if (pa is None) != (pb is None) or (pa is not None and pa[0] != pb[0]):
                c.violation(f"format_{st} panics with sourcepos {'on' if pb else 'off'} only (or with a different message)", dict(case, off=str(pa), on=str(pb)))
            elif pa is not None:
                stats["coinciding_panics"] += 1
        if a.stage("html") is not None and b.stage("html") is not None:
            hl.append(f"html_sp_check {b.html} {a.html}")
            hl.append(f"sp_deleted {b.html} {a.html}")
            hidx.append(i)
            c.count(("html:" + ot + ":" + d).encode("utf-8", "surrogatepass"), a.html != b.html)
            stats["html_differs"] += a.html != b.html
        if a.stage("xml") is not None and b.stage("xml") is not None:
            xl.append(f"xml_sp_check {b.xml} {a.xml}")
            xl.append(f"xml_sp_tree_check {b.xml} {a.xml}")
            xidx.append(i)
            c.count(("xml:" + ot + ":" + d).encode("utf-8", "surrogatepass"), a.xml != b.xml)
        if a.stage("cm") is not None and b.stage("cm") is not None:
            stats["cm"] += 1
            c.count(("cm:" + ot + ":" + d).encode("utf-8", "surrogatepass"), len(d) > 8)
            if a.cm != b.cm:
                c.violation("CommonMark output depends on the sourcepos option",
                            dict(case, cm_off=a.stage("cm")[:600].decode("utf-8", "replace"), cm_on=b.stage("cm")[:600].decode("utf-8", "replace"),
                                 line=f"md cm {docgen.opts_token(dict(o, sourcepos=True))} {hx(d)}"))
    hres = vlib.run_lines(drv, hl, timeout=900)
    for k, i in enumerate(hidx):
        d, o = cases[i]
        a, b = off[i], on[i]
        ot = docgen.opts_token(o)
        case = {"doc": hx(d), "opts": ot, "line": f"md html {docgen.opts_token(dict(o, sourcepos=True))} {hx(d)}", "line_off": f"md html {ot} {hx(d)}",
                "html_off": a.stage("html")[:800].decode("utf-8", "replace"), "html_on": b.stage("html")[:800].decode("utf-8", "replace")}
        check_html(c, stats, hres[2 * k], hres[2 * k + 1], passthrough(o, a.tree), MARK in d.encode("utf-8", "surrogatepass"), case)
    xres = vlib.run_lines(drv, xl, timeout=900)
    for k, i in enumerate(xidx):
        d, o = cases[i]
        a, b = off[i], on[i]
        ot = docgen.opts_token(o)
        case = {"doc": hx(d), "opts": ot, "line": f"md xml {docgen.opts_token(dict(o, sourcepos=True))} {hx(d)}", "line_off": f"md xml {ot} {hx(d)}",
                "xml_off": a.stage("xml")[:800].decode("utf-8", "replace"), "xml_on": b.stage("xml")[:800].decode("utf-8", "replace")}
        check_xml(c, stats, xres[2 * k], xres[2 * k + 1], True, case)
    c.cov["spec_checks"]["end to end (md -> html|xml|cm, sourcepos off vs on): trees equal, html_sp_check, sp_deleted, xml_sp_check, xml_sp_tree_check, cm bytes equal"] = stats["pairs"]
    c.cov["samples"].append({"op": "md html", "doc": cases[0][0][:200], "opts": docgen.opts_token(cases[0][1]),
                             "html_on": (on[0].stage("html") or b"")[:300].decode("utf-8", "replace") if on[0].status == "ok" else on[0].status})

    # ------------------------------------------------------------------ the same TREE rendered twice
    trees = [("parser", a.tree, cases[i][1]) for i, a in enumerate(off) if a.status == "ok"]
    rng.shuffle(trees)
    trees = trees[: 1500 if quick else 8000]
    trees += [(src, t, o) for (src, t), o in zip(synth, sopts)]
    st2 = {"trees": len(trees), "html": 0, "xml": 0, "cm": 0, "coinciding_panics": 0, "excluded_own_attribute": 0, "html_lexer": 0,
           "html_pattern_fallback": 0, "html_differs": 0, "unbuildable": 0}
    lines = []
    for src, t, o in trees:
        for fmt in ("html", "xml", "cm"):
            lines.append(f"render {fmt} {docgen.opts_token(o)} {t}")
            lines.append(f"render {fmt} {docgen.opts_token(dict(o, sourcepos=True))} {t}")
    out = vlib.run_lines(vh, lines, timeout=900)
    hl, hmeta, xl, xmeta, ml, mmeta = [], [], [], [], [], []
    for k, (src, t, o) in enumerate(trees):
        ot = docgen.opts_token(o)
        ont = docgen.opts_token(dict(o, sourcepos=True))
        for j, fmt in enumerate(("html", "xml", "cm")):
            a, b = out[6 * k + 2 * j], out[6 * k + 2 * j + 1]
            if fmt == "html":
                a, b = html_out(a), html_out(b)
            case = {"source": src, "opts": ot, "tree": t[:3000], "line": f"render {fmt} {ont} {t}", "line_off": f"render {fmt} {ot} {t}"}
            if a.startswith("ok ") and b.startswith("ok "):
                c.count((fmt + ":tree:" + ot + ":" + t).encode(), a != b or fmt == "cm")
                if fmt == "html":
                    hl += [f"html_sp_check {b[3:]} {a[3:]}", f"sp_deleted {b[3:]} {a[3:]}"]
                    hmeta.append((case, passthrough(o, t), hx(MARK) in t, a, b))
                    st2["html_differs"] += a != b
                elif fmt == "xml":
                    xl += [f"xml_sp_check {b[3:]} {a[3:]}", f"xml_sp_tree_check {b[3:]} {a[3:]}"]
                    xmeta.append((case, src == "parser"))
                    # tie of the XML model on the synthetic trees, both settings
                    if src != "parser":
                        ml += [f"xml {ot} {t}", f"xml {ont} {t}"]
                        mmeta.append((case, a, b))
                else:
                    st2["cm"] += 1
                    if a != b:
                        c.violation("CommonMark output of one and the same tree depends on the sourcepos option",
                                    dict(case, cm_off=unhx(a[3:])[:600].decode("utf-8", "replace"), cm_on=unhx(b[3:])[:600].decode("utf-8", "replace")))
            elif a.startswith("panic") and b.startswith("panic"):
                st2["coinciding_panics"] += 1
                if treegen.classify_panic(a) != treegen.classify_panic(b) and fmt == "xml":
                    c.violation("format_xml panics at different sites with sourcepos on and off", dict(case, off=a[:300], on=b[:300]))
            elif a.startswith(("ok", "panic")) or b.startswith(("ok", "panic")):
                if a.split(" ")[0] != b.split(" ")[0]:
                    c.violation(f"format_{fmt} of one and the same tree fails with sourcepos {'on' if b.startswith('panic') else 'off'} only", dict(case, off=a[:300], on=b[:300]))
            else:
                st2["unbuildable"] += 1   # a tree the harness cannot build (e.g. payload not UTF-8)
    hres = vlib.run_lines(drv, hl, timeout=900)
    for k, (case, pt, mk, a, b) in enumerate(hmeta):
        case = dict(case, html_off=unhx(a[3:])[:800].decode("utf-8", "replace"), html_on=unhx(b[3:])[:800].decode("utf-8", "replace"))
        check_html(c, st2, hres[2 * k], hres[2 * k + 1], pt, mk, case)
        st2["html"] += 1
    xres = vlib.run_lines(drv, xl, timeout=900)
    for k, (case, strict) in enumerate(xmeta):
        check_xml(c, st2, xres[2 * k], xres[2 * k + 1], strict, case)
    mres = vlib.run_lines(drv, ml, timeout=900)
    magree = 0
    for k, (case, a, b) in enumerate(mmeta):
        if mres[2 * k] == a and mres[2 * k + 1] == b:
            magree += 1
        else:
            c.problem("correspondence", "render.xml", f"synthetic tree: impl off={a[:120]} model off={mres[2*k][:120]} impl on={b[:120]} model on={mres[2*k+1][:120]}", case)
    c.cov["correspondences"]["render.xml (synthetic trees, sourcepos off and on)"] = {"cases": len(mmeta), "agree": magree}
    c.cov["spec_checks"]["one tree rendered with sourcepos off and on (render html|xml|cm): html_sp_check, sp_deleted, xml_sp_check, xml_sp_tree_check, cm bytes equal"] = len(trees)
    c.cov["end_to_end"] = stats
    c.cov["same_tree"] = st2
    c.cov["exclusion"] = ("html_sp_check code 1/5: the HTML rendered with sourcepos OFF itself changes under the deletion, i.e. it carries a data-sourcepos attribute; "
                          "accepted only when raw bytes of the document can reach the output (unsafe without escape and an HtmlBlock/HtmlInline node, or a Raw/EscapedTag node) "
                          "and the marker text is in the document; then strip(on) = strip(off) is required instead.  Counted in excluded_own_attribute.")
    c.cov["partial_clauses"] = [
        "HTML byte level: proved as deletion of flagged segments of the model's serialisation (C18_html_sp_deletion); the statement with the lexer-based strip_sourcepos is refuted literally (own attribute under unsafe) and otherwise evaluated on every real output, not proved",
        "XML: byte and reader statements are proved under C09's shape_ok; the byte scanner strip_xml_sourcepos is evaluated on every real output, not proved (C18_xml_scan_full_statement)",
        "CommonMark: no Coq model of cm.rs; covered by the audit (cm.rs never mentions sourcepos) and the byte comparison on the implementation",
        "parser: covered by the audit (no read of render.sourcepos outside html.rs / xml.rs) and by the equality of the dumped trees"]
    c.assumptions = ["no plugins (heading adapter, syntax highlighter): render_heading / render_code_block pass the position to the adapter, which writes arbitrary bytes",
                     "the dumped tree carries every field the renderers read (harness/src/tree.rs)"]
    c.finish(rule="distinct by (format, options, document or tree); an HTML/XML case is non-trivial when the outputs with the option on and off differ; a CommonMark case when the document has more than 8 characters",
             trusted_base=htmlfam.TRUSTED + ["tools/gen_model.py audit_sp recogniser (textual reads of `render.sourcepos`, receivers of `.sourcepos`, bare identifiers)",
                                             "Model/Xml.v tie: translator item nodes_xml + render.xml correspondence (C09)"])


def check_html(c, stats, r1, r2, pt, marker, case):
    if not r1.startswith("ok ") or not r2.startswith("ok "):
        c.problem("spec", "html_sp_check", f"driver: {r1[:100]} / {r2[:100]}", case)
        return
    code, deleted = int(r1[3:]), r2 == "ok 1"
    case = dict(case, html_sp_check=code, sp_deleted=deleted)
    if code in (0, 1):
        stats["html_lexer"] += 1
    if code in (4, 5):
        stats["html_pattern_fallback"] += 1
        if not pt:
            c.violation("HTML output is outside comrak's own output language although no raw bytes of the document are passed through", case)
    if code in (1, 5):
        stats["excluded_own_attribute"] += 1
        if not (pt and marker):
            c.violation("the HTML rendered with sourcepos OFF carries a data-sourcepos attribute that does not come from the document's raw HTML", case)
    if code in HTML_CODES:
        c.violation(HTML_CODES[code], case)
    elif not deleted:
        c.violation("the HTML rendered with sourcepos off is not the HTML rendered with it on minus well-formed data-sourcepos attributes", case)


def check_xml(c, stats, r1, r2, strict, case):
    if not r1.startswith("ok ") or not r2.startswith("ok "):
        c.problem("spec", "xml_sp_check", f"driver: {r1[:100]} / {r2[:100]}", case)
        return
    code, tcode = int(r1[3:]), int(r2[3:])
    case = dict(case, xml_sp_check=code, xml_sp_tree_check=tcode)
    stats["xml"] += 1
    if code in XML_CODES:
        c.violation(XML_CODES[code], case)
    elif tcode in XTREE_CODES:
        c.violation(XTREE_CODES[tcode], case)
    elif tcode in (1, 3) and strict:
        c.violation("XML output of a parser tree is rejected by the reader", case)
