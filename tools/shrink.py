"""Delta debugging for documents (bytes/chars) and option dicts."""

def ddmin(s, pred, granular=True):
    """s: str; pred(s)->bool (True = still failing). Returns a 1-minimal failing string."""
    assert pred(s)
    n = 2
    while len(s) >= 2:
        chunk = max(1, len(s) // n)
        reduced = False
        i = 0
        while i < len(s):
            cand = s[:i] + s[i + chunk:]
            if cand != s and pred(cand):
                s = cand
                n = max(n - 1, 2)
                reduced = True
            else:
                i += chunk
        if not reduced:
            if chunk == 1:
                break
            n = min(len(s), n * 2)
    return s


def shrink_opts(opts, pred):
    """opts: dict; pred(dict)->bool. Remove keys while still failing."""
    o = dict(opts)
    for k in sorted(list(o)):
        t = dict(o)
        del t[k]
        if pred(t):
            o = t
    return o
