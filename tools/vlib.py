"""Shared machinery of ./check: builds, translator, Coq obligations, model/impl runners,
verdict logic, evidence and replay files.  See DESIGN.md §1.3 and §5."""
import fcntl, hashlib, json, os, random, re, shutil, subprocess, sys, time

ROOT = os.path.dirname(os.path.dirname(os.path.abspath(__file__)))
REPO = os.environ.get("VERIF_REPO", "/repo")
CACHE = os.path.join(ROOT, ".cache")
COQ = os.path.join(ROOT, "coq")
OCAML = os.path.join(CACHE, "ocaml")
TARGET = os.path.join(CACHE, "target")
VH = {"debug": os.path.join(TARGET, "debug", "vh"), "release": os.path.join(TARGET, "release", "vh")}
DRIVER = os.path.join(OCAML, "driver")
NPROC = min(16, os.cpu_count() or 4)

ENV = dict(os.environ)
ENV.update({"CARGO_NET_OFFLINE": "true", "CARGO_TARGET_DIR": TARGET})
# conda prints a warning on every shell start in this sandbox; keep our own output clean
ENV.pop("PYTHONWARNINGS", None)

ALLOWED_AXIOMS = set()  # names allowed in Print Assumptions output (none today)

FORBIDDEN = re.compile(
    r"\b(Admitted|admit|Axiom|Axioms|Parameter|Parameters|Conjecture|Hypothesis|Variable|Unset Guard Checking|"
    r"bypass_check|type-in-type|impredicative-set|Admit Obligations|Unset Universe Checking|Unset Positivity Checking)\b"
)


def log(*a):
    print(*a, file=sys.stderr, flush=True)


class Lock:
    def __init__(self, name):
        os.makedirs(CACHE, exist_ok=True)
        self.path = os.path.join(CACHE, name + ".lock")

    def __enter__(self):
        self.f = open(self.path, "w")
        fcntl.flock(self.f, fcntl.LOCK_EX)
        return self

    def __exit__(self, *a):
        fcntl.flock(self.f, fcntl.LOCK_UN)
        self.f.close()


def run(cmd, cwd=None, timeout=None, env=None, input=None):
    p = subprocess.run(cmd, cwd=cwd, env=env or ENV, stdout=subprocess.PIPE, stderr=subprocess.STDOUT,
                       timeout=timeout, input=input)
    return p.returncode, p.stdout.decode("utf-8", "replace")


# --------------------------------------------------------------------------- builds
def build_harness(profile="debug"):
    """cargo build of the harness against /repo's current working tree, hooks on."""
    with Lock("cargo"):
        hdir = os.path.join(ROOT, "harness")
        lock = os.path.join(hdir, "Cargo.lock")
        if not os.path.exists(lock):
            shutil.copy(os.path.join(REPO, "Cargo.lock"), lock)
        cmd = ["cargo", "build", "--offline", "--bin", "vh"] + (["--release"] if profile == "release" else [])
        rc, out = run(cmd, cwd=hdir, timeout=1800)
        if rc != 0:
            # a stale lock file (dependency set of /repo changed) is the usual culprit: retry once from a fresh copy
            shutil.copy(os.path.join(REPO, "Cargo.lock"), lock)
            rc, out = run(cmd, cwd=hdir, timeout=1800)
        return rc == 0, out


def build_cli():
    """the comrak binary itself (C16), from /repo's working tree, default features, no hooks."""
    with Lock("cargo"):
        env = dict(ENV)
        # one target dir per source tree: cargo keys path packages relative to the workspace root, so two
        # copies of the repository would share artifacts and an older main.rs would count as fresh
        tdir = "target-cli" if REPO == "/repo" else "target-cli-" + hashlib.sha256(REPO.encode()).hexdigest()[:8]
        env["CARGO_TARGET_DIR"] = os.path.join(CACHE, tdir)
        rc, out = run(["cargo", "build", "--offline", "--bin", "comrak"], cwd=REPO, timeout=1800, env=env)
        return rc == 0, out, os.path.join(CACHE, tdir, "debug", "comrak")


def run_translator():
    rc, out = run([sys.executable, os.path.join(ROOT, "tools", "gen_model.py")], timeout=300)
    st = {}
    try:
        with open(os.path.join(COQ, "Gen", "status.json")) as f:
            st = json.load(f)
    except Exception as e:
        st = {"translator": f"status.json unreadable: {e}"}
    return st


def coq_make(targets, timeout=1500):
    with Lock("coq"):
        rc, out = run(["sh", os.path.join(COQ, "build.sh")] + targets, cwd=COQ, timeout=timeout)
        return rc == 0, out


def coq_props(prop, file=None):
    """(file: name of the Props file when it is not <prop>.v, e.g. "C04_links")
    Build Props/<prop>.vo and everything it depends on (full .vo), then re-check the property file
    itself so that its Print Assumptions output is captured on every run.
    Returns dict(ok, theorems=[{name, assumptions}], log, forbidden=[...])."""
    res = {"ok": False, "theorems": [], "log": "", "forbidden": []}
    prop = file or prop
    ok, out = coq_make([f"Props/{prop}.vo"])
    res["log"] = out
    if not ok:
        m = re.search(r'File "\./([^"]+)", line (\d+)', out)
        res["failed_file"] = m.group(1) if m else None
        res["failed_line"] = int(m.group(2)) if m else None
        return res
    with Lock("coq"):
        rc, out2 = run(["coqc", "-q", "-Q", ".", "V", "-w", "-notation-overridden,-deprecated-hint-without-locality,-deprecated-instance-without-locality", f"Props/{prop}.v"], cwd=COQ, timeout=900)
    res["log"] += out2
    if rc != 0:
        return res
    src = open(os.path.join(COQ, "Props", f"{prop}.v")).read()
    names = re.findall(r"^(?:Theorem|Lemma)\s+([A-Za-z0-9_']+)", src, re.M)
    printed = re.findall(r"^Print Assumptions\s+([A-Za-z0-9_']+)\.", src, re.M)
    # split the coqc output into one block per Print Assumptions, in order
    blocks = re.split(r"(?=^Closed under the global context|^Axioms:)", out2, flags=re.M)
    blocks = [b for b in blocks if b.startswith("Closed under") or b.startswith("Axioms:")]
    ok_all = len(blocks) == len(printed) and set(names) == set(printed)
    for i, n in enumerate(printed):
        b = blocks[i] if i < len(blocks) else "?"
        if b.startswith("Closed under"):
            ax = []
        else:
            ax = re.findall(r"^([A-Za-z0-9_.']+)\s*:", b, re.M)
        bad = [a for a in ax if a not in ALLOWED_AXIOMS]
        if bad:
            ok_all = False
        res["theorems"].append({"name": n, "assumptions": ax or "closed"})
    # forbidden constructs anywhere in the development (comments are stripped first)
    for dp, _, fs in os.walk(COQ):
        for fn in fs:
            if fn.endswith(".v"):
                txt = open(os.path.join(dp, fn)).read()
                txt = strip_coq_comments(txt)
                for m in FORBIDDEN.finditer(txt):
                    w = m.group(1)
                    if w in ("Variable", "Hypothesis", "Parameter", "Parameters") and inside_section(txt, m.start()):
                        continue
                    res["forbidden"].append(f"{os.path.relpath(os.path.join(dp, fn), COQ)}: {w}")
    if res["forbidden"]:
        ok_all = False
    res["ok"] = ok_all
    return res


def strip_coq_comments(s):
    out = []
    depth = 0
    i = 0
    instr = False
    while i < len(s):
        if depth == 0 and s[i] == '"':
            instr = not instr
            out.append(s[i])
            i += 1
        elif not instr and s.startswith("(*", i):
            depth += 1
            i += 2
        elif not instr and depth and s.startswith("*)", i):
            depth -= 1
            i += 2
        else:
            if depth == 0:
                out.append(s[i])
            i += 1
    return "".join(out)


def inside_section(txt, pos):
    opened = len(re.findall(r"^\s*Section\s+\w+\.", txt[:pos], re.M))
    closed = len(re.findall(r"^\s*End\s+\w+\.", txt[:pos], re.M))
    # Modules also use End; count them out
    mods = len(re.findall(r"^\s*Module\s+(?:Type\s+)?\w+\s*\.", txt[:pos], re.M))
    return opened - (closed - mods) > 0


def build_driver():
    """Extract Model/Spec executables and compile the OCaml driver (rebuilt when inputs change)."""
    with Lock("coq"):
        os.makedirs(OCAML, exist_ok=True)
        rc, out = run(["sh", os.path.join(COQ, "build.sh"), "extract-deps"], cwd=COQ, timeout=1500)
        if rc != 0:
            return False, out
        h = hashlib.sha256()
        mls = ["dcore.ml"] + sorted(f for f in os.listdir(os.path.join(ROOT, "ocaml")) if f.startswith("d_") and f.endswith(".ml")) + ["driver.ml"]
        deps = [os.path.join(COQ, "Extract", "Extract.v")] + [os.path.join(ROOT, "ocaml", f) for f in mls]
        for dp, _, fs in os.walk(COQ):
            for fn in sorted(fs):
                if fn.endswith(".vo") and not dp.endswith("Props") and not dp.endswith("Proofs"):
                    deps.append(os.path.join(dp, fn))
        for d in sorted(deps):
            with open(d, "rb") as f:
                h.update(f.read())
        stamp = os.path.join(OCAML, "stamp")
        dig = h.hexdigest()
        if os.path.exists(stamp) and open(stamp).read() == dig and os.path.exists(DRIVER):
            return True, "cached"
        rc, out = run(["coqc", "-q", "-Q", COQ, "V", os.path.join(COQ, "Extract", "Extract.v")], cwd=OCAML, timeout=900)
        if rc != 0:
            return False, out
        for f in mls:
            shutil.copy(os.path.join(ROOT, "ocaml", f), os.path.join(OCAML, f))
        rc, out2 = run(["ocamlfind", "ocamlopt", "-O2", "-w", "-a", "model.mli", "model.ml"] + mls + ["-o", "driver"], cwd=OCAML, timeout=900)
        if rc != 0:
            return False, out + out2
        with open(stamp, "w") as f:
            f.write(dig)
        return True, out + out2


# --------------------------------------------------------------------------- running cases
def hx(b):
    if isinstance(b, str):
        b = b.encode("utf-8")
    return b.hex() if b else "-"


def unhx(s):
    return b"" if s == "-" else bytes.fromhex(s)


def run_lines(exe, lines, shards=NPROC, timeout=600, args=()):
    """Feed `lines` (list of str) to `exe` on stdin, sharded over processes; return list of output lines.
    A worker that dies or hangs yields 'dead <rc>' / 'hang' for the case it was on (found with --announce
    re-runs) and the remaining cases of its shard are re-run."""
    n = len(lines)
    if n == 0:
        return []
    shards = max(1, min(shards, (n + 199) // 200))
    size = (n + shards - 1) // shards
    procs = []
    for i in range(shards):
        chunk = lines[i * size:(i + 1) * size]
        if not chunk:
            continue
        p = subprocess.Popen([exe] + list(args), stdin=subprocess.PIPE, stdout=subprocess.PIPE, stderr=subprocess.DEVNULL, env=ENV)
        procs.append((p, chunk))
    import threading
    results = [None] * len(procs)

    def work(ix, p, chunk):
        try:
            out, _ = p.communicate(("\n".join(chunk) + "\n").encode(), timeout=timeout)
            results[ix] = (p.returncode, out.decode("utf-8", "replace").split("\n"))
        except subprocess.TimeoutExpired:
            p.kill()
            out, _ = p.communicate()
            results[ix] = ("hang", out.decode("utf-8", "replace").split("\n"))

    ths = [threading.Thread(target=work, args=(i, p, c)) for i, (p, c) in enumerate(procs)]
    for t in ths:
        t.start()
    for t in ths:
        t.join()
    out = []
    for (rc, lines_out), (p, chunk) in zip(results, procs):
        lines_out = [l for l in lines_out if l != ""]
        if rc == 0 and len(lines_out) == len(chunk):
            out.extend(lines_out)
        else:
            # the worker died or hung: isolate case by case from the first missing result
            done = lines_out[:len(chunk)] if rc == 0 else lines_out[:max(0, len(lines_out))]
            # a partially written last line cannot be trusted
            if rc != 0 and done:
                done = done[:-1] if not _complete(done[-1]) else done
            out.extend(done)
            for c in chunk[len(done):]:
                out.append(run_one(exe, c, args=args))
    return out


def _complete(line):
    return line.startswith(("ok", "panic", "none", "err", "fuel"))


def run_one(exe, line, timeout=20, args=()):
    try:
        p = subprocess.run([exe] + list(args), input=(line + "\n").encode(), stdout=subprocess.PIPE, stderr=subprocess.DEVNULL, timeout=timeout, env=ENV)
        o = p.stdout.decode("utf-8", "replace").strip().split("\n")
        if p.returncode != 0:
            return f"dead {p.returncode}"
        return o[-1] if o and o[-1] else "dead empty"
    except subprocess.TimeoutExpired:
        return "hang"


# --------------------------------------------------------------------------- PRNG (single state per run)
class Rng(random.Random):
    pass


def seed_from_env():
    try:
        return int(os.environ.get("VERIF_SEED", "1"))
    except ValueError:
        return 1


# --------------------------------------------------------------------------- known findings
def load_known(prop):
    p = os.path.join(ROOT, "known_findings.json")
    if not os.path.exists(p):
        return []
    with open(p) as f:
        data = json.load(f)
    return [e for e in data.get("findings", []) if e.get("property") == prop and e.get("status") == "known"]


# --------------------------------------------------------------------------- verdict
class Check:
    def __init__(self, prop, tier):
        self.prop = prop
        self.tier = tier
        self.seed = seed_from_env()
        self.rng = Rng(self.seed)
        self.t0 = time.time()
        self.problems = []      # broken proof / tie / correspondence (no failing input by themselves)
        self.violations = []    # concrete failing inputs on the implementation
        self.known_hits = {}    # class -> example
        self.cov = {"evaluations": 0, "distinct_nontrivial": 0, "samples": [], "correspondences": {}, "spec_checks": {}}
        self.assumptions = []
        self.obligations = []
        self.distinct = set()
        self.known = load_known(prop)
        os.makedirs(os.path.join(ROOT, "evidence"), exist_ok=True)
        os.makedirs(os.path.join(ROOT, "replays"), exist_ok=True)

    # --- bookkeeping
    def count(self, key, nontrivial, sample=None):
        self.cov["evaluations"] += 1
        if nontrivial:
            h = hashlib.blake2b(key if isinstance(key, bytes) else key.encode(), digest_size=8).digest()
            self.distinct.add(h)
        if sample is not None and len(self.cov["samples"]) < 12:
            self.cov["samples"].append(sample)

    def problem(self, kind, name, detail, case=None):
        self.problems.append({"kind": kind, "name": name, "detail": detail[:4000], "case": case})

    def violation(self, what, case):
        self.violations.append({"what": what, "case": case})

    def known_hit(self, cls, example):
        self.known_hits.setdefault(cls, example)

    # --- standard phases
    def phase_translator(self, items):
        st = run_translator()
        self.cov.setdefault("translator", {}).update({k: st.get(k, "missing") for k in items})
        for k in items:
            if st.get(k) != "ok":
                self.problem("translator", f"translator:{k}", st.get(k, "item missing from status.json"))
        return all(st.get(k) == "ok" for k in items)

    def phase_proofs(self, file=None):
        """file: Props file name when it differs from the property id; several calls accumulate"""
        r = coq_props(self.prop, file)
        pf = file or self.prop
        if file and self.cov.get("theorems"):
            prev_ok = self.cov.get("discharged", 0) == len(self.cov["theorems"])
            r["theorems"] = self.cov["theorems"] + r["theorems"]
            r["ok"] = r["ok"] and prev_ok
        self.obligations = r["theorems"]
        self.cov["checker_cmd"] = (self.cov["checker_cmd"] + "; " if file and self.cov.get("checker_cmd") else "") + f"make -C coq Props/{pf}.vo (full .vo) && coqc Props/{pf}.v (Print Assumptions); grep for Admitted/Axiom/..."
        if not r["ok"]:
            tail = "\n".join(r["log"].strip().split("\n")[-25:])
            where = r.get("failed_file")
            name = f"proof:{where}:{r.get('failed_line')}" if where else "proof:Props/%s.v" % pf
            if r["forbidden"]:
                name = "proof:forbidden-construct"
                tail = "; ".join(r["forbidden"]) + "\n" + tail
            self.problem("proof", name, tail)
        self.cov["obligations"] = max(1, len(r["theorems"])) if r["theorems"] else 0
        self.cov["discharged"] = len(r["theorems"]) if r["ok"] else 0
        self.cov["theorems"] = r["theorems"]
        return r["ok"]

    def phase_builds(self, profiles=("debug",), driver=True):
        ok = True
        for pr in profiles:
            good, out = build_harness(pr)
            if not good:
                self.problem("build", f"build:harness:{pr}", "\n".join(out.strip().split("\n")[-30:]))
                ok = False
        if driver:
            good, out = build_driver()
            if not good:
                self.problem("build", "build:driver", "\n".join(out.strip().split("\n")[-30:]))
                ok = False
        return ok

    # --- finish
    def finish(self, level="proof", rule="", trusted_base=None, extra=None):
        wall = time.time() - self.t0
        self.cov["distinct_nontrivial"] = len(self.distinct)
        self.cov["rule"] = rule
        self.cov["trusted_base"] = trusted_base or []
        if "obligations" not in self.cov:
            self.cov["obligations"] = 0
            self.cov["discharged"] = 0
        if extra:
            self.cov.update(extra)
        lines = []
        exit_code = 0
        # known findings that still reproduce
        for e in self.known:
            # every listed finding is printed; the ones whose class was met (or whose witness was replayed)
            # in this run are marked as re-confirmed in the evidence
            hit = e["class"] in self.known_hits
            lines.append(f"KNOWN-FINDING: property={self.prop} {e['id']} [{e['class']}] {e['text']}" + ("" if hit else " (not exercised by this run's inputs)"))
        self.cov["known_findings_reconfirmed"] = sorted(self.known_hits.keys())
        nviol = 0
        if self.violations:
            exit_code = 1
            for i, v in enumerate(self.violations[:5]):
                path = self.write_replay(f"{self.prop}-{self.tier}-{i}", {"kind": "failing-input", **v})
                lines.append(f"VIOLATION property={self.prop} replay={path}")
                nviol += 1
        elif self.problems:
            exit_code = 1
            p = self.problems[0]
            path = self.write_replay(f"{self.prop}-{self.tier}-tie", {"kind": "broken-proof-or-tie", "broken": [q["name"] for q in self.problems], "details": self.problems})
            lines.append(f"VIOLATION property={self.prop} replay={path} broken={p['name']} no-failing-input-found")
            nviol = 1
        ev = {
            "property_id": self.prop,
            "tier": self.tier,
            "seed": self.seed,
            "level": level,
            "coverage": self.cov,
            "assumptions": self.assumptions,
            "wall_s": round(wall, 2),
            "violations": nviol,
        }
        # a proof-level evidence file must have obligations >= 1; when the proof phase could not even
        # enumerate them the run is a violation anyway, and the schema's fallback keys are present
        if self.cov.get("obligations", 0) < 1:
            self.cov.pop("obligations", None)
            self.cov.pop("discharged", None)
        with open(os.path.join(ROOT, "evidence", f"{self.prop}.json"), "w") as f:
            json.dump(ev, f, indent=1, default=str)
        for l in lines:
            print(l)
        print(f"{self.prop} {self.tier}: {'FAIL' if exit_code else 'ok'} evaluations={self.cov['evaluations']} distinct_nontrivial={self.cov['distinct_nontrivial']} obligations={self.cov.get('discharged', 0)}/{self.cov.get('obligations', 0)} wall={wall:.1f}s")
        sys.exit(exit_code)

    def write_replay(self, name, obj):
        path = os.path.join(ROOT, "replays", name + ".json")
        obj = dict(obj)
        obj["property"] = self.prop
        obj["seed"] = self.seed
        obj["tier"] = self.tier
        obj["replay_cmd"] = f"./check replay {path}"
        with open(path, "w") as f:
            json.dump(obj, f, indent=1, default=str)
        return path
