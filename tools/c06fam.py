"""C06 input families and growth analysis (shared by tools/checks/c06.py and its exploration mode).

A family is (name, gen) with gen(n) -> ("f", prefix, body, suffix)   input = prefix^n body suffix^n  (op costf)
                                     | ("r", bytes)                  raw input                       (op cost)
Every family is deterministic; n is the repetition count (input length is proportional to n)."""
import math

ALPHA = ["a", " ", "\n", "*", "_", "`", "[", "]", "(", ")", "<", ">", "!", "#", "-", "+", ".", ":", "|", "~", "$", "^", "@",
         "&", "\\", '"', "'", "/", "=", "1", "w"]
MIRROR = {"(": ")", ")": "(", "[": "]", "]": "[", "<": ">", ">": "<"}

# bracket-like pairs for nested families  p^n x s^n  and tree-shaped repetitions
PAIRS = [("(", ")"), ("[", "]"), ("<", ">"), ("*", "*"), ("_", "_"), ("**", "**"), ("__", "__"), ("`", "`"), ("~~", "~~"), ("~", "~"),
         ("^", "^"), ("$", "$"), ("$$", "$$"), ("$`", "`$"), ("||", "||"), ("==", "=="), ('"', '"'), ("'", "'"), ("[", "](u)"), ("![", "](u)"),
         ("[", "][r]"), ("[[", "]]"), ("[^", "]"), ("<a>", "</a>"), ("<!--", "-->"), ("<a href=\"", "\">"), ("*_", "_*"), ("[*", "*]"),
         ("(<", ">)"), ("[a](", ")"), ("[a](<", ">)"), ("\\(", "\\)"), ("> ", "\n"), ("- ", "\n"), ("1. ", "\n"), ("&", ";"), ("| ", " |")]

OPTSETS = {
    "default": "-",
    "gfm": "autolink=1,strikethrough=1,table=1,tagfilter=1,tasklist=1,unsafe=1",
    "all": ("alerts=1,autolink=1,description_lists=1,footnotes=1,front_matter_delimiter=2d2d2d,greentext=1,header_ids=-,math_code=1,"
            "math_dollars=1,multiline_block_quotes=1,spoiler=1,strikethrough=1,subscript=1,superscript=1,table=1,tagfilter=1,tasklist=1,"
            "underline=1,unsafe=1,wikilinks_title_after_pipe=1"),
}
MINIMIZE = "experimental_minimize_commonmark=1"


def mirror_rev(f):
    return "".join(MIRROR.get(ch, ch) for ch in reversed(f))


def fragments(maxlen):
    out = list(ALPHA)
    cur = list(ALPHA)
    for _ in range(maxlen - 1):
        cur = [x + y for x in cur for y in ALPHA]
        out += cur
    return out


def _f(p, b="", s=""):
    return lambda n: ("f", p, b, s)


def tree_text(p, m, s, leaf, depth):
    t = leaf
    for _ in range(depth):
        t = p + t + m + t + s
    return t


def swept(maxlen):
    """the systematic families over the alphabet"""
    fams = []
    for f in fragments(maxlen):
        fams.append(("rep:" + repr(f), _f(f)))
        fams.append(("pal:" + repr(f), _f(f, "x", mirror_rev(f))))
        # the same repetition in INLINE context (leading text, so that block starts such as `<!--`, `#`, `>` do not capture the line)
        fams.append(("inl:" + repr(f), _f("", "a ", f)))
    for p, s in PAIRS:
        fams.append(("nest:%r..%r" % (p, s), _f(p, "x", s)))
        fams.append(("nestrep:%r" % (p + "x" + s,), _f(p + "x" + s + " ")))
        # tree-shaped: t(k) = p t(k-1) ' ' t(k-1) s ; depth chosen so that the size is about n leaves
        fams.append(("tree:%r..%r" % (p, s), (lambda p, s: lambda n: ("r", tree_text(p, " ", s, "x", max(1, int(math.log2(max(2, n)))))))(p, s)))
    return fams


def curated():
    F = []

    def add(name, g):
        F.append(("cur:" + name, g))

    def raw(fn):
        return lambda n: ("r", fn(n))
    # backtick runs of increasing length separated by spaces: total length ~ n
    def ticks(n):
        out, k, tot = [], 1, 0
        while tot < n:
            out.append("`" * k)
            tot += k + 1
            k += 1
        return " ".join(out)
    add("backtick-runs-increasing", raw(ticks))
    add("backtick-runs-1..80-cycled", raw(lambda n: " ".join("`" * (1 + i % 80) for i in range(max(1, n // 40)))))
    add("dollar-backtick-a", _f("$`a "))
    add("dollar-runs", raw(lambda n: " ".join("$" * (1 + i % 5) + "a" for i in range(n // 3))))
    # lists whose items hold nothing but reference definitions (each emptied paragraph is removed at finalization;
    # whatever that triggers must not look at the whole list again: seeded C06-m3), loose and ordered variants
    add("list-refdef-items", _f("- [a]: b\n"))
    add("list-refdef-items-loose", _f("- [a]: b\n\n"))
    add("olist-refdef-items", _f("1. [a]: b\n"))
    add("list-refdef-then-text", _f("- [a]: b\n  c\n"))
    add("quote-list-refdef-items", _f("> - [a]: b\n"))
    add("email", _f("a@b.c "))
    add("email-nl", _f("a@b.c\n"))
    add("www", _f("www.a.b "))
    add("www-parens", raw(lambda n: "www.a.b/" + "(" * n + ")" * n))
    add("www-close-parens", raw(lambda n: "www.a.b/" + ")" * n))
    add("www-close-parens-rep", _f("www.a.b/))))))))) "))
    add("http-close-parens", raw(lambda n: "http://a.b/" + ")" * n))
    add("http-rep", _f("http://a.b/c "))
    add("open-bracket", _f("["))
    add("star-a", _f("*a "))
    add("2star-a-star-b", _f("**a *b "))
    add("a-star-alt", _f("a*", "", ""))
    add("underscore-mix", _f("_a*b "))
    add("emph-closers-only", raw(lambda n: "a* " * n))
    add("emph-mod3", raw(lambda n: "*a**b***c " * (n // 3 + 1)))
    add("html-comment-open", _f("<!--"))
    add("html-comment-open-sp", _f("<!-- a "))
    for nm, fr in (("html-comment-open", "<!--"), ("html-comment-open-sp", "<!-- a "), ("pi-open", "<?"), ("pi-open-sp", "<? a "), ("cdata-open", "<![CDATA["),
                   ("cdata-open-sp", "<![CDATA[ a "), ("decl-open", "<!A "), ("tag-open", "<a "), ("tag-attr-open", "<a b=\""), ("comment-dashes", "<!--a--"),
                   ("comment-almost", "<!-- -- "), ("cdata-almost", "<![CDATA[]] "), ("pi-almost", "<?a? ")):
        add("inline-" + nm, _f("", "a ", fr))
    add("pi-open", _f("<?"))
    add("pi-open-sp", _f("<? a "))
    add("cdata-open", _f("<![CDATA["))
    add("cdata-open-sp", _f("<![CDATA[ a "))
    add("decl-open", _f("<!A "))
    add("tag-open", _f("<a "))
    add("tag-attr-open", _f("<a b=\""))
    add("link-paren-open", _f("[a]("))
    add("link-angle-open", _f("[a](<"))
    add("link-title-open", _f("[a](u \""))
    add("image-open", _f("!["))
    add("link-in-link", raw(lambda n: "[" * n + "a" + "](u)" * n))
    add("link-after-bracket", raw(lambda n: "[" * n + "a](u)"))
    add("close-brackets-refs", raw(lambda n: "[a]: /u\n\n" + "[a]" * n))
    add("bracket-pairs", _f("[]"))
    add("bracket-pairs-paren", _f("[]("))
    add("footnote-refs+defs", raw(lambda n: "[^a]" * n + "\n\n[^a]: x\n"))
    add("footnote-many-defs", raw(lambda n: "".join("[^%d]" % i for i in range(n // 4)) + "\n\n" + "".join("[^%d]: x\n\n" % i for i in range(n // 4))))
    add("footnote-nested-defs", raw(lambda n: "x[^0]\n\n" + "".join("[^%d]: a[^%d]\n\n" % (i, i + 1) for i in range(n // 8))))
    add("footnote-unused-defs", raw(lambda n: "".join("[^%d]: x\n\n" % i for i in range(n // 6))))
    add("table-n-cols-n-rows", raw(lambda n: (lambda k: "|a" * k + "|\n" + "|-" * k + "|\n" + "|a|\n" * k)(max(1, int(n)))))
    add("table-wide", raw(lambda n: "|a" * n + "|\n" + "|-" * n + "|\n" + "|b" * n + "|\n"))
    add("table-long", raw(lambda n: "|a|b|\n|-|-|\n" + "|c|d|\n" * (n // 2)))
    add("table-escaped-pipes", raw(lambda n: "|a|\n|-|\n|" + "\\|" * n + "|\n"))
    add("table-header-para", raw(lambda n: "a\n" * (n // 2) + "|a|\n|-|\n"))
    add("table-cells-code", raw(lambda n: "|a|\n|-|\n" + "|`|`|\n" * (n // 4)))
    add("blockquote-nest", _f("> ", "a"))
    add("blockquote-lines", _f("> a\n"))
    add("blockquote-nest-lazy", raw(lambda n: "> " * n + "a\n" + "b\n" * 3))
    add("list-nest", _f("- ", "a"))
    add("list-nest-lines", raw(lambda n: "".join(" " * (2 * i) + "- a\n" for i in range(min(n, 2000)))))
    add("olist-nest", _f("1. ", "a"))
    add("list-items", _f("- a\n"))
    add("list-empty-items", _f("-\n"))
    add("list-loose", _f("- a\n\n"))
    add("list-bq-alt", _f("> - ", "a"))
    add("ref-long-url", raw(lambda n: "[x]: /" + "u" * 1000 + ' "t"\n\n' + "[x]" * n))
    add("ref-long-title", raw(lambda n: "[x]: /u \"" + "t" * 1000 + '"\n\n' + "[x] " * n))
    add("ref-n-defs", raw(lambda n: "".join("[r%d]: /u%d\n" % (i, i) for i in range(n // 8)) + "\n" + "".join("[r%d] " % i for i in range(n // 8))))
    add("ref-defs-same-label", _f("[a]: /u\n"))
    add("ref-def-candidates", _f("[a]: \n"))
    add("ref-def-unclosed-title", raw(lambda n: "[a]: /u \"" + "t\n" * n))
    add("label-1000", raw(lambda n: ("[" + "a" * 998 + "] ") * max(1, n // 250)))
    add("label-1001", raw(lambda n: ("[" + "a" * 1001 + "] ") * max(1, n // 250)))
    add("label-unclosed-long", raw(lambda n: "[" + "a" * n))
    add("label-escapes", raw(lambda n: "[" + "\\]" * n))
    add("emph-nest-deep", raw(lambda n: "*" * n + "a" + "*" * n))
    add("emph-nest-alt", raw(lambda n: "*_" * n + "a" + "_*" * n))
    add("emph-nest-sp", raw(lambda n: "*a " * n + "b*" * n))
    add("strong-nest", raw(lambda n: "**a " * n + "b**" * n))
    add("strike-nest", raw(lambda n: "~~a " * n + "b~~" * n))
    add("entity", _f("&a;"))
    add("entity-amp", _f("&amp;"))
    add("entity-long", _f("&abcdefghijklmnopqrstuvwxyzabcdefg;"))
    add("entity-num", _f("&#1234567;"))
    add("entity-unclosed", _f("&a"))
    add("backslash", _f("\\"))
    add("backslash-punct", _f("\\*"))
    add("backslash-nl", _f("\\\n"))
    add("hardbreak-sp", _f("a  \n"))
    add("setext", _f("a\n=\n"))
    add("atx", _f("# a\n"))
    add("atx-closing", raw(lambda n: "# a " + "#" * n))
    add("thematic", _f("***\n"))
    add("thematic-long", raw(lambda n: "* " * n))
    add("fence-open", _f("```\n"))
    add("fence-long", raw(lambda n: "`" * n + "\na\n" + "`" * n))
    add("fence-tilde-info", raw(lambda n: "~~~" + "a " * n + "\nx\n~~~"))
    add("indented-code", _f("    a\n"))
    add("indented-blank", raw(lambda n: "    a\n" + "    \n" * n + "    b\n"))
    add("blank-lines", _f("\n"))
    add("tabs", _f("\t"))
    add("tabs-a", _f("\ta\n"))
    add("spaces-line", raw(lambda n: " " * n + "a"))
    add("trailing-spaces", raw(lambda n: "a" + " " * n + "\nb"))
    add("long-line", raw(lambda n: "a" * (n * 4)))
    add("long-word-lines", _f("aaaaaaa\n"))
    add("html-block-1", raw(lambda n: "<script>\n" + "a\n" * n))
    add("html-block-2", raw(lambda n: "<!--\n" + "a\n" * n))
    add("html-block-6", _f("<div>\n\n"))
    add("html-block-7", _f("<x>\n\n"))
    add("html-block-lt", raw(lambda n: "<div>\n" + "<" * n))
    add("html-block-tagfilter", raw(lambda n: "<div>\n" + "<title" * n))
    add("html-inline-tags", _f("<a>"))
    add("html-inline-attrs", raw(lambda n: "<a" + " b='c'" * n + ">"))
    add("html-inline-attrs-unclosed", raw(lambda n: "<a" + " b='c'" * n))
    add("autolink-angle", _f("<a:b>"))
    add("autolink-angle-open", _f("<a:b "))
    add("autolink-angle-email-open", _f("<a@b.c "))
    add("scheme-colon", _f("a:"))
    add("xmpp", _f("xmpp:a@b.c/d "))
    add("mailto", _f("mailto:a@b.c "))
    add("email-dots", raw(lambda n: "a@" + "b." * n + "c"))
    add("email-local-long", raw(lambda n: "a" * n + "@b.c"))
    add("email-at-only", _f("@"))
    add("email-a-at", _f("a@"))
    add("email-brackets", raw(lambda n: "[" * n + " a@b.c " * 3))
    add("www-long-domain", raw(lambda n: "www." + "a." * n + "b"))
    add("www-underscores", raw(lambda n: "www." + "a_." * n + "b"))
    add("www-trailing-punct", raw(lambda n: "www.a.b/" + "?!.,:" * n))
    add("www-entity-tail", raw(lambda n: "www.a.b/" + "&amp;" * n))
    add("www-lt-tail", raw(lambda n: ("www.a.b/c<" * n)))
    add("wikilink", _f("[[a|b]]"))
    add("wikilink-open", _f("[[a"))
    add("wikilink-open-pipe", _f("[[a|"))
    add("spoiler", _f("||a||"))
    add("spoiler-open", _f("||a "))
    add("underline", _f("__a__"))
    add("sup", _f("^a^"))
    add("sup-open", _f("^a "))
    add("sub-open", _f("~a "))
    add("strike-open", _f("~~a "))
    add("tilde-runs", raw(lambda n: " ".join("~" * (1 + i % 7) + "a" for i in range(n // 4))))
    add("math-dollar", _f("$a$ "))
    add("math-dollar-open", _f("$a "))
    add("math-2dollar-open", _f("$$a "))
    add("math-code", _f("$`a`$ "))
    add("math-code-open2", _f("$`a` "))
    add("tasklist", _f("- [x] a\n"))
    add("tasklist-nest", raw(lambda n: "".join(" " * (2 * i) + "- [ ] a\n" for i in range(min(n, 2000)))))
    add("desc-list", _f("a\n\n: b\n\n"))
    add("desc-colon-lines", _f(": a\n"))
    add("alert", _f("> [!NOTE]\n> a\n\n"))
    add("alert-nest", raw(lambda n: "> " * min(n, 3000) + "[!NOTE]\n"))
    add("mbq", _f(">>>\na\n>>>\n\n"))
    add("mbq-open", _f(">>>\n"))
    add("mbq-nest", raw(lambda n: "".join(">" * (3 + i) + "\n" for i in range(min(n, 1500)))))
    add("greentext", _f(">a\n"))
    add("front-matter", raw(lambda n: "---\n" + "a\n" * n + "---\nb\n"))
    add("front-matter-unclosed", raw(lambda n: "---\n" + "a\n" * n))
    add("smart-quotes", _f("'a\" "))
    add("smart-dashes", raw(lambda n: "a" + "-" * n + "b"))
    add("smart-dots", _f("..."))
    add("quote-nest", raw(lambda n: "\"'" * n + "a" + "'\"" * n))
    add("crlf", _f("a\r\n"))
    add("cr", _f("a\r"))
    add("nul", _f("\x00"))
    add("utf8-2", _f("é"))
    add("utf8-punct", _f("“a” "))
    add("utf8-space", _f("a "))
    add("utf8-4", _f("😀"))
    add("bom-lines", _f("﻿a\n"))
    add("link-dest-parens", raw(lambda n: "[a](" + "(" * n + ")" * n + ")"))
    add("link-dest-parens-32", raw(lambda n: ("[a](" + "(" * 32 + ")" * 32 + ") ") * max(1, n // 70)))
    add("link-dest-parens-33", raw(lambda n: ("[a](" + "(" * 33 + ")" * 33 + ") ") * max(1, n // 70)))
    add("link-dest-escapes", raw(lambda n: "[a](" + "\\)" * n + ")"))
    add("link-title-long", raw(lambda n: "[a](u \"" + "t" * n + "\")"))
    add("link-title-paren-nest", raw(lambda n: "[a](u (" + "(" * n))
    add("link-ref-chain", raw(lambda n: "[a]" + "[b]" * n + "\n\n[b]: /u\n"))
    add("image-nest", raw(lambda n: "![" * n + "a" + "](u)" * n))
    add("heading-ids-same", _f("# a\n"))
    add("heading-ids-emph", _f("# *a* `b`\n"))
    add("code-span-spaces", _f("` a ` "))
    add("code-span-newlines", raw(lambda n: "`" + "a\n" * n + "`"))
    add("code-span-2tick-open", _f("``a "))
    add("code-span-mixed", _f("`a``b "))
    add("para-cont-lazy", raw(lambda n: "> a\n" + "b\n" * n))
    add("item-cont-lazy", raw(lambda n: "- a\n" + "b\n" * n))
    add("many-paragraphs", _f("a\n\n"))
    add("pipe-lines", _f("|\n"))
    add("delimiter-rows", _f("|-|\n"))
    add("table-then-paras", _f("|a|\n|-|\n\n"))
    add("sourcepos-n/a", _f("a *b* `c` [d](e)\n"))
    return F


# ----------------------------------------------------------------------------------------------- analysis
METRICS = ["steps", "alloc", "peak"]
STAGES = ["parse", "html", "xml", "cm"]


def parse_cost_line(line):
    """ok hooks=1 in=.. nodes=.. parse=s,a,c,us,peak html=s,a,c,us,peak,out ...  -> dict or None"""
    if not line.startswith("ok "):
        return None
    d = {}
    for kv in line[3:].split(" "):
        k, v = kv.split("=", 1)
        if k in ("hooks", "in", "nodes"):
            d[k] = int(v)
        elif v.startswith("panic:"):
            d[k] = {"panic": v[6:]}
        else:
            xs = [int(x) for x in v.split(",")]
            e = {"steps": xs[0], "alloc": xs[1], "calls": xs[2], "us": xs[3], "peak": xs[4]}
            if len(xs) > 5:
                e["out"] = xs[5]
            d[k] = e
    return d


def slope(xs, ys):
    """least-squares slope of log y against log x (y, x > 0)"""
    lx = [math.log(max(1, x)) for x in xs]
    ly = [math.log(max(1, y)) for y in ys]
    n = len(lx)
    mx, my = sum(lx) / n, sum(ly) / n
    den = sum((a - mx) ** 2 for a in lx)
    if den == 0:
        return 0.0
    return sum((a - mx) * (b - my) for a, b in zip(lx, ly)) / den


# a cost is only interesting when it is not already small relative to the input (per input byte at the largest n)
FLOOR = {"steps": 60, "alloc": 1500, "peak": 1500, "us": 3}
EXP_LIMIT = 1.2


def growth(ins, vals, metric):
    """ins: input lengths (increasing), vals: cost at each.  -> (exponent over the last three points, sustained?, above floor?)"""
    if len(ins) < 3:
        return 0.0, False, False
    e3 = slope(ins[-3:], vals[-3:])
    loc = [slope(ins[i:i + 2], vals[i:i + 2]) for i in range(max(0, len(ins) - 4), len(ins) - 1)]
    sustained = len(loc) >= 3 and all(l > EXP_LIMIT for l in loc) and e3 > EXP_LIMIT
    floor = vals[-1] > FLOOR[metric] * max(1, ins[-1])
    return e3, sustained, floor
