"""End-to-end runs shared by several checks: generate documents x options, run the real pipeline
(`pipe` op) and parse its sections; run the Coq renderer models on the dumped trees."""
import vlib, docgen
from vlib import hx, unhx


class Rec:
    __slots__ = ("doc", "opts", "raw", "tree", "valid", "links", "html", "xml", "cm", "slugs", "status")

    def stage(self, name):
        """bytes of a render stage or None when that stage panicked"""
        v = getattr(self, name)
        return None if (v is None or v.startswith("!")) else unhx(v)

    def stage_panic(self, name):
        v = getattr(self, name)
        if v is not None and v.startswith("!"):
            msg, _, loc = v[1:].partition("@")
            return (unhx(msg).decode("utf-8", "replace"), loc)
        return None


def parse_pipe(line):
    r = Rec()
    r.raw = line
    r.tree = r.valid = r.links = r.html = r.xml = r.cm = r.slugs = None
    if not line.startswith("ok "):
        r.status = line  # panic ... / dead / hang / err
        return r
    r.status = "ok"
    parts = line[3:].split(" | ")
    r.tree = parts[0]
    for p in parts[1:]:
        tag, _, rest = p.partition(" ")
        if tag == "V":
            r.valid = rest
        elif tag == "L":
            r.links = rest
        elif tag == "H":
            r.html = rest
        elif tag == "X":
            r.xml = rest
        elif tag == "C":
            r.cm = rest
        elif tag == "S" or tag.startswith("S"):
            r.slugs = (p[1:]).strip()
    return r


def gen_cases(rng, n, malformed=0.15, opts_fn=None, doc_fn=None):
    cases = []
    for _ in range(n):
        if doc_fn:
            d = doc_fn(rng)
        else:
            d = docgen.gen_malformed(rng) if rng.random() < malformed else docgen.gen_doc(rng)
        o = opts_fn(rng) if opts_fn else docgen.gen_opts(rng)
        cases.append((d, o))
    return cases


def run_pipe(cases, profile="debug", timeout=600):
    lines = [f"pipe {docgen.opts_token(o)} {hx(d)}" for d, o in cases]
    out = vlib.run_lines(vlib.VH[profile], lines, timeout=timeout)
    recs = []
    for (d, o), l in zip(cases, out):
        r = parse_pipe(l)
        r.doc = d
        r.opts = o
        recs.append(r)
    return recs


def slug_tokens(slugs):
    toks = slugs.split() if slugs else []
    return f"{len(toks) // 2}" + ("" if not toks else " " + " ".join(toks))


def model_html_lines(recs):
    """driver lines for Model/Html.v on the dumped trees of recs (those that parsed)"""
    lines = []
    idx = []
    for i, r in enumerate(recs):
        if r.status == "ok":
            lines.append(f"html {docgen.opts_token(r.opts)} {slug_tokens(r.slugs)} {r.tree}")
            idx.append(i)
    return lines, idx
