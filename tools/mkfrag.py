#!/usr/bin/env python3
"""mkfrag.py ID 'level text' 'level note' 'technique' [design_ref]  -> manifest/checks/ID.json"""
import json, os, sys
ROOT = os.path.dirname(os.path.dirname(os.path.abspath(__file__)))
pid, text, note, tech = sys.argv[1:5]
ref = sys.argv[5] if len(sys.argv) > 5 else f"DESIGN.md §6 {pid}"
frag = {"property_id": pid, "quick_cmd": f"./check {pid} quick", "thorough_cmd": f"./check {pid} thorough", "evidence_file": f"evidence/{pid}.json",
        "replay_cmd_template": "./check replay {path}", "engine": "coq",
        "level_claimed": {"category": "proof", "text": text, "design_ref": ref}, "level_note": note, "technique": tech}
json.dump(frag, open(os.path.join(ROOT, "manifest", "checks", pid + ".json"), "w"), indent=1)
