"""setup: build everything once from files on disk (offline)."""
import sys, vlib

def main():
    ok = True
    st = vlib.run_translator()
    print("translator:", st)
    for pr in ("debug", "release"):
        good, out = vlib.build_harness(pr)
        print(f"harness {pr}:", "ok" if good else "FAILED")
        if not good:
            print(out[-3000:]); ok = False
    good, out = vlib.coq_make([])
    print("coq make:", "ok" if good else "FAILED")
    if not good:
        print(out[-3000:]); ok = False
    good, out = vlib.build_driver()
    print("driver:", "ok" if good else "FAILED")
    if not good:
        print(out[-3000:]); ok = False
    return 0 if ok else 1
