"""C03 — Python mirror of the construct grammar of coq/Spec/Doc.v: random generator, systematic
small-document families, token serialiser (parsed by ocaml/d_doc.ml), structural shrinker.
The generator aims at canonical documents but `Doc.canonical` (run in the driver) is the judge."""
import itertools

HEXD = "0123456789abcdef"


def hx(b):
    return b.hex() if b else "-"


# ------------------------------------------------------------------ serialiser
def dest_tok(d):
    url, angle, title = d
    t = "n" if title is None else "t%d%s" % (title[0], title[1].hex())
    return f"{hx(url)} {1 if angle else 0} {t}"


def inl_tok(i):
    k = i[0]
    if k in ("Str", "Esc", "Code", "Foot"):
        return f"( {k} {hx(i[1])} )"
    if k == "Ent":
        return f"( Ent {i[1]} )"
    if k in ("Sp", "Soft"):
        return f"( {k} )"
    if k == "Hard":
        return f"( Hard {1 if i[1] else 0} )"
    if k in ("Em", "Strong"):
        return f"( {k} {1 if i[1] else 0} " + " ".join(map(inl_tok, i[2])) + " )"
    if k == "Del":
        return "( Del " + " ".join(map(inl_tok, i[1])) + " )"
    if k in ("Link", "Img"):
        return f"( {k} {dest_tok(i[1])} " + " ".join(map(inl_tok, i[2])) + " )"
    if k == "Ref":
        return f"( Ref {1 if i[1] else 0} {i[2]} {hx(i[3])} " + " ".join(map(inl_tok, i[4])) + " )"
    if k == "Auto":
        return f"( Auto {1 if i[1] else 0} {hx(i[2])} )"
    raise ValueError(k)


def blk_tok(b):
    k = b[0]
    if k == "Para":
        return "( Para " + " ".join(map(inl_tok, b[1])) + " )"
    if k == "Atx":
        return f"( Atx {b[1]} {b[2]} " + " ".join(map(inl_tok, b[3])) + " )"
    if k == "Setext":
        return f"( Setext {1 if b[1] else 0} " + " ".join(map(inl_tok, b[2])) + " )"
    if k == "Hr":
        return f"( Hr {hx(b[1])} {b[2]} {1 if b[3] else 0} )"
    if k == "Fence":
        return f"( Fence {1 if b[1] else 0} {b[2]} {hx(b[3])} " + " ".join(hx(l) for l in b[4]) + " )"
    if k == "Indent":
        return "( Indent " + " ".join(hx(l) for l in b[1]) + " )"
    if k == "Quote":
        return "( Quote " + " ".join(map(blk_tok, b[1])) + " )"
    if k == "Bullet":
        return f"( Bullet {1 if b[1] else 0} {hx(b[2])} " + " ".join(map(blk_tok, b[3])) + " )"
    if k == "Ordered":
        return f"( Ordered {1 if b[1] else 0} {b[2]} {1 if b[3] else 0} " + " ".join(map(blk_tok, b[4])) + " )"
    if k == "Item":
        t = "n" if b[1] is None else ("1" if b[1] else "0")
        return f"( Item {t} " + " ".join(map(blk_tok, b[2])) + " )"
    if k == "Html":
        return f"( Html {b[1]} )"
    if k == "Table":
        rows = " ".join("( Row " + " ".join("( Cell " + " ".join(map(inl_tok, c)) + " )" for c in r) + " )" for r in b[2])
        return f"( Table {b[1] or '-'} {rows} )"
    if k == "Fn":
        return f"( Fn {hx(b[1])} " + " ".join(map(blk_tok, b[2])) + " )"
    raise ValueError(k)


def doc_tok(d):
    defs = " ".join(f"( Def {hx(l)} {dest_tok(ds)} )" for l, ds in d["defs"])
    return f"( Doc {1 if d['first'] else 0} ( Defs {defs} ) " + " ".join(map(blk_tok, d["body"])) + " )"


# ------------------------------------------------------------------ construct census
def census(d, h=None):
    h = {} if h is None else h

    def add(k):
        h[k] = h.get(k, 0) + 1

    def inl(i):
        add("i:" + i[0] + (":" + i[2] if i[0] == "Ref" else ""))
        for c in kids_i(i):
            inl(c)

    def blk(b):
        k = b[0]
        if k in ("Bullet", "Ordered"):
            add(f"b:{k}:{'tight' if b[1] else 'loose'}")
        elif k == "Item":
            add("b:Item" + ("" if b[1] is None else ":task"))
        else:
            add("b:" + k)
        for l in inl_lists(b):
            for i in l:
                inl(i)
        for c in kids_b(b):
            blk(c)
    for b in d["body"]:
        blk(b)
    if d["defs"]:
        add("defs:" + ("before" if d["first"] else "after"))
    return h


def kids_i(i):
    k = i[0]
    if k in ("Em", "Strong", "Link", "Img"):
        return i[2]
    if k == "Del":
        return i[1]
    if k == "Ref":
        return i[4]
    return []


def inl_lists(b):
    k = b[0]
    if k == "Para":
        return [b[1]]
    if k == "Atx":
        return [b[3]]
    if k == "Setext":
        return [b[2]]
    if k == "Table":
        return [c for r in b[2] for c in r]
    return []


def kids_b(b):
    k = b[0]
    if k == "Quote":
        return b[1]
    if k == "Bullet":
        return b[3]
    if k == "Ordered":
        return b[4]
    if k in ("Item", "Fn"):
        return b[2]
    return []


def depth_b(b):
    ks = kids_b(b)
    di = max([depth_i(i) for l in inl_lists(b) for i in l] or [0])
    return 1 + max([depth_b(c) for c in ks] + [di])


def depth_i(i):
    return 1 + max([depth_i(c) for c in kids_i(i)] or [0])


# ------------------------------------------------------------------ random generator
WORDS = [b"a", b"b", b"foo", b"bar", b"baz", b"Qux", b"x1", b"42", b"7", b"caf\xc3\xa9", b"\xe6\xbc\xa2", b"\xc3\x89t\xc3\xa9",
         b"it's", b'say"hi"', b"a,b", b"q?", b"50%", b"{x}", b"a/b", b"c;d", b"e^f", b"www", b"http", b"1", b"x", b"X"]
PUNCT = b"!\"#$%&'()*+,-./:;<=>?@[\\]^_`{|}~"
NENT = 16
CODE = [b"x", b"a b", b"`", b"a`b", b"``", b" a ", b" ", b"  ", b"a  b", b"*a*", b"<b>&amp;", b"a|b", b"\\", b"a\\", b"[l](u)", b" `", b"` ",
        b"caf\xc3\xa9", b"~~", b"a``b`c", b" x", b"x "]
URLS = [b"/u", b"/url", b"http://x.y/z?a=1&b=2", b"u", b"#frag", b"/a%20b", b"x'y", b"mailto:a@b.c", b"/caf\xc3\xa9", b"a*b_c", b"/p/q.html", b"&copy;"]
URLS_ANGLE = [b"", b"/a b", b"/a(b)c", b"/u", b"a)b("]
TITLES = [b"t", b"a title", b'q"uo"te', b"it's", b"<b> & c", b"(p)", b"back\\slash", b"*s* _u_", b"caf\xc3\xa9"]
LABELS = [b"foo", b"bar", b"Baz", b"ref1", b"\xc3\xa9t\xc3\xa9", b"a1", b"LONGLABEL"]
FNLABELS = [b"1", b"a", b"note", b"n2", b"z9"]
INFOS = [b"", b"", b"rust", b"c++", b"python extra", b"c# a b", b".net", b"x_y", b"math", b"math x"]
CODELINES = [b"x", b"let a = 1;", b"", b"  indented", b"<b>&amp;</b>", b"* not a list", b"# not a heading", b"``", b"~~", b"    four", b"a\\b", b"> q", b"caf\xc3\xa9",
             b"trailing  ", b"- x", b"1. y", b"|a|b|", b"[r]: /u"]
AUTO = [b"http://a.b/c", b"https://x.y/?q=1", b"ftp://h/p", b"mailto:me@x.y", b"irc:chan", b"http://a.b/c'd", b"http://a.b/*x*", b"https://e.f/_u_"]
EMAILS = [b"a@b.c", b"me1@host.example.org", b"X@y.z"]


def case_variant(rng, lb):
    r = rng.random()
    if r < 0.5:
        return lb
    if r < 0.7:
        return lb.decode().upper().encode()
    if r < 0.9:
        return lb.decode().lower().encode()
    return lb.decode().swapcase().encode()


class Gen:
    def __init__(self, rng, labels, fnlabels, maxdepth=6):
        self.rng = rng
        self.labels = labels      # defined reference labels
        self.fnlabels = fnlabels  # defined footnote labels
        self.maxdepth = maxdepth
        self.used_fn = set()

    def dest(self):
        rng = self.rng
        if rng.random() < 0.2:
            url, angle = rng.choice(URLS_ANGLE), True
        else:
            url, angle = rng.choice(URLS), rng.random() < 0.15
        title = None
        if rng.random() < 0.35:
            title = (rng.choice([0, 0, 1, 2]), rng.choice(TITLES))
        return (url, angle, title)

    def atom(self, cx, depth):
        """one inline that is not a space or a break"""
        rng = self.rng
        deep = depth < self.maxdepth
        r = rng.random()
        if r < 0.34 or not deep:
            return ("Str", rng.choice(WORDS))
        if r < 0.40:
            return ("Esc", bytes([rng.choice(PUNCT)]))
        if r < 0.45:
            return ("Ent", rng.randrange(NENT))
        if r < 0.53:
            t = rng.choice(CODE)
            if cx.get("tbl") and b"\\" in t:
                t = b"a|b"
            return ("Code", t)
        if r < 0.63:
            return ("Em", rng.random() < 0.4, self.inls(cx, depth + 1, edge=True))
        if r < 0.71:
            return ("Strong", rng.random() < 0.4, self.inls(cx, depth + 1, edge=True))
        if r < 0.76:
            return ("Del", self.inls(cx, depth + 1, edge=True))
        if r < 0.83 and not cx.get("link"):
            return ("Link", self.dest(), self.inls(dict(cx, link=True, fn=False), depth + 1, allow_empty=True))
        if r < 0.88:
            return ("Img", self.dest(), self.inls(dict(cx, img=True, fn=False), depth + 1, allow_empty=True))
        if r < 0.94 and self.labels and (not cx.get("link") or rng.random() < 0.3):
            lb = case_variant(rng, rng.choice(self.labels))
            img = rng.random() < 0.25 or bool(cx.get("link"))
            st = rng.choice("fcs")
            sub = dict(cx, fn=False, **({"img": True} if img else {"link": True}))
            l = self.inls(sub, depth + 1, allow_empty=True) if st == "f" else [("Str", lb)]
            return ("Ref", img, st, lb, l)
        if r < 0.97 and not cx.get("link"):
            if rng.random() < 0.3:
                return ("Auto", True, rng.choice(EMAILS))
            return ("Auto", False, rng.choice(AUTO))
        if cx.get("fn") and self.fnlabels:
            lb = rng.choice(self.fnlabels)
            self.used_fn.add(lb)
            return ("Foot", lb)
        return ("Str", rng.choice(WORDS))

    def inls(self, cx, depth, edge=False, allow_empty=False, n=None):
        rng = self.rng
        if allow_empty and rng.random() < 0.05:
            return []
        n = n or rng.choice([1, 1, 2, 2, 3, 4, 6])
        out = []
        for j in range(n):
            if j:
                r = rng.random()
                if r < 0.72:
                    out.append(("Sp",))
                elif r < 0.84 and cx.get("breaks"):
                    out.append(("Soft",) if rng.random() < 0.6 else ("Hard", rng.random() < 0.5))
                # else: nothing in between (intraword emphasis, adjacent constructs)
            out.append(self.atom(cx, depth))
        return out

    def para(self, cx):
        return ("Para", self.inls(dict(cx, breaks=True), 1))

    def item_children(self, cx, depth, tight, task):
        rng = self.rng
        n = rng.choice([1, 1, 1, 2, 2, 3])
        kids = []
        for j in range(n):
            if j == 0 and (task is not None or rng.random() < 0.7):
                kids.append(self.para(cx))
            elif tight:
                kids.append(self.block(cx, depth + 1, kinds=["Para", "Atx", "Fence", "Quote", "Bullet", "Ordered"], first=(j == 0)))
            else:
                kids.append(self.block(cx, depth + 1, first=(j == 0)))
        return kids

    def list_(self, cx, depth, ordered):
        rng = self.rng
        tight = rng.random() < 0.55
        n = rng.choice([1, 2, 2, 3])
        tasks = rng.random() < 0.2
        items = []
        for _ in range(n):
            task = rng.choice([True, False]) if tasks and rng.random() < 0.8 else None
            items.append(("Item", task, self.item_children(cx, depth, tight, task)))
        if ordered:
            start = rng.choice([1, 1, 1, 0, 2, 7, 10, 99, 123456789, 999999990])
            return ("Ordered", tight, start, rng.random() < 0.3, items)
        return ("Bullet", tight, bytes([rng.choice(b"-+*")]), items)

    def block(self, cx, depth, kinds=None, first=False):
        rng = self.rng
        allk = ["Para", "Para", "Para", "Atx", "Setext", "Hr", "Fence", "Indent", "Quote", "Bullet", "Bullet", "Ordered", "Html", "Table"]
        kinds = kinds or allk
        if depth >= self.maxdepth - 1:
            kinds = [k for k in kinds if k not in ("Quote", "Bullet", "Ordered")] or ["Para"]
        k = rng.choice(kinds)
        if k == "Para":
            return self.para(cx)
        if k == "Atx":
            l = [] if rng.random() < 0.07 else self.inls(cx, 1)
            return ("Atx", rng.randrange(1, 7), 0 if not l or rng.random() < 0.7 else rng.choice([1, 2, 3, 8]), l)
        if k == "Setext":
            return ("Setext", rng.random() < 0.5, self.inls(dict(cx, breaks=True), 1))
        if k == "Hr":
            c = b"_" if first else bytes([rng.choice(b"*-_")])
            return ("Hr", c, rng.choice([3, 3, 4, 7]), rng.random() < 0.3)
        if k == "Fence":
            tilde = rng.random() < 0.35
            ln = rng.choice([3, 3, 3, 4, 5])
            lines = [rng.choice(CODELINES) for _ in range(rng.choice([0, 1, 2, 3, 5]))]
            fc = b"~" if tilde else b"`"
            lines = [l for l in lines if not l.lstrip(b" ").startswith(fc * 3)]
            return ("Fence", tilde, ln, rng.choice(INFOS), lines)
        if k == "Indent":
            lines = [l for l in (rng.choice(CODELINES) for _ in range(rng.choice([1, 2, 3]))) if l.strip(b" ")] or [b"code"]
            return ("Indent", lines)
        if k == "Quote":
            return ("Quote", self.blocks(cx, depth + 1, rng.choice([1, 1, 2, 3])))
        if k == "Bullet":
            return self.list_(cx, depth, False)
        if k == "Ordered":
            return self.list_(cx, depth, True)
        if k == "Html":
            return ("Html", rng.randrange(8))
        if k == "Table":
            ncol = rng.choice([1, 2, 2, 3])
            al = "".join(rng.choice("nlcr") for _ in range(ncol))
            tcx = dict(cx, tbl=True, breaks=False)
            rows = [[self.inls(tcx, 2, n=rng.choice([1, 1, 2, 3])) for _ in range(ncol)]]
            for _ in range(rng.choice([0, 1, 2, 3])):
                rows.append([([] if rng.random() < 0.1 else self.inls(tcx, 2, n=rng.choice([1, 1, 2]))) for _ in range(ncol)])
            return ("Table", al, rows)
        raise ValueError(k)

    def blocks(self, cx, depth, n):
        out = []
        for _ in range(n):
            out.append(self.block(cx, depth))
        return out


def fix_adjacent(rng, bs):
    """drop siblings that the canonical predicate rejects for sure (same-type lists, indented code after lists)"""
    out = []
    for b in bs:
        if out:
            a = out[-1]
            if a[0] == b[0] == "Bullet" and a[2] == b[2]:
                continue
            if a[0] == b[0] == "Ordered" and a[3] == b[3]:
                continue
            if b[0] == "Indent" and a[0] in ("Bullet", "Ordered", "Indent", "Fn"):
                continue
        out.append(b)
    return out


def gen_doc(rng, maxdepth=6):
    labels = rng.sample(LABELS, rng.choice([0, 0, 1, 2, 3]))
    fnl = rng.sample(FNLABELS, rng.choice([0, 0, 0, 1, 2]))
    g = Gen(rng, labels, fnl, maxdepth)
    defs = []
    for lb in labels:
        defs.append((case_variant(rng, lb), g.dest()))
        if rng.random() < 0.15:   # a second definition with the same label (first one wins)
            defs.append((case_variant(rng, lb), g.dest()))
    rng.shuffle(defs)
    cx = {"fn": True}
    body = g.blocks(cx, 1, rng.choice([1, 2, 3, 4, 6]))
    # footnote definitions for the labels that were used; unused ones are dropped
    g2 = Gen(rng, labels, [], maxdepth)
    for lb in sorted(g.used_fn):
        kids = [g2.para({"fn": False})] + g2.blocks({"fn": False}, 2, rng.choice([0, 0, 1, 2]))
        body.insert(rng.randrange(len(body) + 1), ("Fn", lb, fix_adjacent(rng, kids)))
    return {"first": rng.random() < 0.5, "defs": defs, "body": fix_adjacent(rng, body)}


# ------------------------------------------------------------------ systematic families (thorough tier / part of quick)
def S(w):
    return ("Str", w)


SP = ("Sp",)


def P(*l):
    return ("Para", list(l))


def D(*bs, defs=(), first=True):
    return {"first": first, "defs": list(defs), "body": list(bs)}


def fam_emphasis():
    """all inline sequences of length <= 3 over emphasis atoms, and all two-level nestings"""
    a, b, c = S(b"a"), S(b"b"), S(b"c")
    atoms0 = [a, SP, ("Esc", b"*"), ("Esc", b"_"), ("Code", b"x"), S(b","), ("Ent", 8)]

    def wraps(inner):
        return [("Em", False, inner), ("Em", True, inner), ("Strong", False, inner), ("Strong", True, inner), ("Del", inner)]
    lvl1 = wraps([b])
    lvl2 = [w for i in lvl1 for w in wraps([i])] + [w for i in lvl1 for w in wraps([a, i, c])] + [w for i in lvl1 for w in wraps([a, SP, i])] + \
           [w for i in lvl1 for w in wraps([i, SP, c])]
    pool = atoms0 + lvl1
    for n in (1, 2, 3):
        for seq in itertools.product(pool, repeat=n):
            yield D(P(*seq))
    for x in lvl2:
        yield D(P(x))
        yield D(P(a, x, c))
        yield D(P(a, SP, x, SP, c))
    lvl3 = [w for i in lvl2[:25] for w in wraps([a, i, c])]
    for x in lvl3:
        yield D(P(x))


def fam_lists():
    pa, pb = P(S(b"a")), P(S(b"b"))
    fence = ("Fence", False, 3, b"", [b"x", b"", b"y"])
    quote = ("Quote", [P(S(b"q"))])
    atx = ("Atx", 2, 0, [S(b"h")])
    hr = ("Hr", b"_", 3, False)
    ind = ("Indent", [b"code"])

    def nested(tight, m=b"-"):
        return ("Bullet", tight, m, [("Item", None, [P(S(b"n"))]), ("Item", None, [P(S(b"m"))])])
    kids_pool = [pa, fence, quote, atx, nested(True, b"+"), nested(False, b"+"), ("Ordered", True, 1, False, [("Item", None, [pb])]), ("Ordered", True, 3, True, [("Item", None, [pb])]), hr, ind]
    child_lists = [[k] for k in kids_pool] + [[k1, k2] for k1 in kids_pool for k2 in kids_pool] + [[pa, k1, k2] for k1 in kids_pool[:6] for k2 in kids_pool[:6]]
    for tight in (True, False):
        for cl in child_lists:
            for other in ([], [pb]):
                items = [("Item", None, cl)] + ([("Item", None, other)] if other else [])
                yield D(("Bullet", tight, b"-", items))
                yield D(("Ordered", tight, 2, False, items))
                yield D(("Bullet", tight, b"*", list(reversed(items))), pb)
    for t1 in (True, False):
        for t2 in (True, False):
            for t3 in (True, False):
                inner2 = ("Bullet", t3, b"*", [("Item", None, [P(S(b"c"))]), ("Item", None, [P(S(b"d")), fence] if not t3 else [P(S(b"d"))])])
                inner = ("Bullet", t2, b"+", [("Item", None, [pb, inner2]), ("Item", None, [P(S(b"e"))])])
                yield D(("Bullet", t1, b"-", [("Item", None, [pa, inner]), ("Item", None, [P(S(b"f"))])]))
                yield D(("Ordered", t1, 1, False, [("Item", None, [pa, inner])]), pa)
    for task1 in (None, True, False):
        for task2 in (None, True, False):
            for tight in (True, False):
                yield D(("Bullet", tight, b"-", [("Item", task1, [pa]), ("Item", task2, [pb, nested(True, b"*")])]))
                yield D(("Ordered", tight, 1, True, [("Item", task1, [pa]), ("Item", task2, [pb])]))
    for start in (0, 1, 2, 9, 10, 999999998):
        for paren in (False, True):
            yield D(("Ordered", True, start, paren, [("Item", None, [pa]), ("Item", None, [pb])]))


def fam_blocks():
    pa = P(S(b"a"))
    singles = [pa, ("Atx", 1, 0, [S(b"h")]), ("Atx", 6, 2, [S(b"h"), SP, ("Esc", b"#")]), ("Atx", 3, 0, []), ("Setext", False, [S(b"s")]), ("Setext", True, [S(b"s"), ("Soft",), S(b"t")]),
               ("Hr", b"*", 3, False), ("Hr", b"-", 5, True), ("Hr", b"_", 3, True), ("Fence", False, 3, b"rust", [b"x"]), ("Fence", True, 4, b"a b", [b"```", b"", b"~~~ x"]), ("Fence", False, 5, b"", []),
               ("Indent", [b"x", b"  y"]), ("Quote", [pa]), ("Bullet", True, b"-", [("Item", None, [pa])]), ("Ordered", True, 1, False, [("Item", None, [pa])]),
               ("Table", "nl", [[[S(b"a")], [S(b"b")]], [[S(b"c")], []]]), ("Table", "c", [[[S(b"a")]]])] + [("Html", k) for k in range(8)]
    for x in singles:
        yield D(x)
        yield D(("Quote", [x]))
        if x[0] not in ("Hr",):
            yield D(("Bullet", False, b"-", [("Item", None, [x, pa])]))
        if x[0] == "Indent":
            yield D(("Ordered", True, 1, False, [("Item", None, [x])]))
            yield D(("Bullet", True, b"*", [("Item", None, [x]), ("Item", None, [pa])]))
            yield D(("Quote", [("Ordered", False, 7, True, [("Item", None, [x, pa])])]))
    for x in singles:
        for y in singles:
            yield D(x, y)
            yield D(("Quote", [x, y]))
            yield D(("Quote", [x]), y)
    for lvl in range(1, 7):
        for closing in (0, 1, 3):
            yield D(("Atx", lvl, closing, [S(b"t"), SP, ("Em", False, [S(b"e")])]))
    for hard in (("Hard", True), ("Hard", False), ("Soft",)):
        yield D(P(S(b"a"), hard, S(b"b")))
        yield D(("Setext", True, [S(b"a"), hard, S(b"b")]))
        yield D(("Quote", [P(S(b"a"), hard, ("Em", False, [S(b"b")]))]))
        yield D(("Bullet", True, b"-", [("Item", None, [P(S(b"a"), hard, S(b"b"))])]))
    for al in ("n", "l", "c", "r", "lr", "rl", "ncl", "rcln"):
        hdr = [[S(b"h%d" % i)] for i in range(len(al))]
        for nrows in (0, 1, 2):
            rows = [[[S(b"c")] if (i + j) % 3 else [("Code", b"a|b"), SP, ("Esc", b"|")] for i in range(len(al))] for j in range(nrows)]
            yield D(("Table", al, [hdr] + rows))


def fam_links():
    a = S(b"a")
    dests = [(b"/u", False, None), (b"/u", False, (0, b"t")), (b"/u", True, (1, b"it's")), (b"", True, None), (b"/a b", True, (2, b"(p)")), (b"/x?a=1&b=2", False, (0, b'q"<&>'))]
    for d in dests:
        for txt in ([a], [], [a, SP, ("Em", False, [S(b"b")])], [("Code", b"]")], [("Esc", b"]")], [S(b"^a")], [("Img", (b"/i", False, None), [a])]):
            yield D(P(("Link", d, txt)))
            yield D(P(("Img", d, txt)))
            yield D(P(S(b"x"), SP, ("Link", d, txt), S(b"y")))
    for lb_def in (b"foo", b"FOO", b"Foo", b"\xc3\x89t\xc3\xa9"):
        for lb_use in (b"foo", b"FOO", b"fOo", b"\xc3\xa9t\xc3\xa9", b"\xc3\x89T\xc3\x89"):
            for first in (True, False):
                for st in "fcs":
                    for img in (False, True):
                        txt = [a, SP, S(b"b")] if st == "f" else [S(lb_use)]
                        yield D(P(("Ref", img, st, lb_use, txt), SP, S(b"z")), defs=[(lb_def, (b"/u", False, (0, b"t"))), (b"foo", (b"/second", False, None))], first=first)
    for u in AUTO:
        yield D(P(("Auto", False, u)))
        yield D(P(S(b"a"), SP, ("Auto", False, u), SP, S(b"b")))
    for e in EMAILS:
        yield D(P(("Auto", True, e)))
    for k in range(NENT):
        yield D(P(("Ent", k)))
        yield D(P(S(b"a"), ("Ent", k), S(b"b")))
    for ch in PUNCT:
        yield D(P(("Esc", bytes([ch]))))
        yield D(P(S(b"a"), ("Esc", bytes([ch])), S(b"b")))
        yield D(P(("Esc", bytes([ch])), SP, S(b"b")))
    for t in CODE:
        yield D(P(("Code", t)))
        yield D(P(S(b"a"), SP, ("Code", t), SP, S(b"b")))


def fam_footnotes():
    pa = P(S(b"A"))
    fence = ("Fence", False, 3, b"", [b"c"])
    for bodyk in ([pa], [pa, fence], [pa, pa], [pa, ("Bullet", True, b"-", [("Item", None, [pa])])], [pa, ("Quote", [pa])]):
        for nrefs in (1, 2, 3):
            refs = []
            for j in range(nrefs):
                refs += [S(b"x"), ("Foot", b"a"), SP]
            yield D(P(*refs, S(b"e")), ("Fn", b"a", bodyk))
            yield D(("Fn", b"a", bodyk), P(*refs, S(b"e")))
            yield D(P(S(b"x"), ("Foot", b"b"), SP, *refs, S(b"y"), ("Foot", b"b")), ("Fn", b"a", bodyk), ("Fn", b"b", [pa]))
            yield D(("Quote", [P(*refs, S(b"e"))]), ("Fn", b"a", bodyk), pa)
            yield D(("Bullet", True, b"-", [("Item", None, [P(*refs, S(b"e"))])]), ("Fn", b"a", bodyk))
            yield D(("Table", "n", [[[S(b"h"), ("Foot", b"a")]], [[S(b"c"), ("Foot", b"a")]]]), ("Fn", b"a", bodyk))


FAMILIES = {"emphasis": fam_emphasis, "lists": fam_lists, "blocks": fam_blocks, "links": fam_links, "footnotes": fam_footnotes}


# ------------------------------------------------------------------ structural shrinker
def shrink_candidates(d):
    """documents one step smaller than d"""
    body = d["body"]
    for i in range(len(body)):
        yield dict(d, body=body[:i] + body[i + 1:])
    for i in range(len(d["defs"])):
        yield dict(d, defs=d["defs"][:i] + d["defs"][i + 1:])
    for i, b in enumerate(body):
        for nb in shrink_block(b):
            yield dict(d, body=body[:i] + [nb] + body[i + 1:])
        for kid in kids_b(b):            # hoist
            if kid[0] != "Item":
                yield dict(d, body=body[:i] + [kid] + body[i + 1:])
            else:
                for kk in kid[2]:
                    yield dict(d, body=body[:i] + [kk] + body[i + 1:])


def with_kids_b(b, ks):
    k = b[0]
    if k == "Quote":
        return ("Quote", ks)
    if k == "Bullet":
        return b[:3] + (ks,)
    if k == "Ordered":
        return b[:4] + (ks,)
    if k in ("Item", "Fn"):
        return b[:2] + (ks,)
    return b


def shrink_inls(l):
    for i in range(len(l)):
        yield l[:i] + l[i + 1:]
    for i, x in enumerate(l):
        ks = kids_i(x)
        if ks:
            yield l[:i] + ks + l[i + 1:]     # unwrap
            for nk in shrink_inls(ks):
                yield l[:i] + [with_kids_i(x, nk)] + l[i + 1:]
        if x[0] == "Str" and len(x[1]) > 1:
            yield l[:i] + [("Str", x[1][:1])] + l[i + 1:]
        if x[0] in ("Link", "Img") and x[1][2] is not None:
            yield l[:i] + [(x[0], (x[1][0], x[1][1], None), x[2])] + l[i + 1:]
        if x[0] not in ("Str", "Sp"):
            yield l[:i] + [("Str", b"a")] + l[i + 1:]


def with_kids_i(i, ks):
    k = i[0]
    if k in ("Em", "Strong", "Link", "Img"):
        return i[:2] + (ks,)
    if k == "Del":
        return ("Del", ks)
    if k == "Ref":
        return i[:4] + (ks,)
    return i


def shrink_block(b):
    k = b[0]
    ks = kids_b(b)
    for i in range(len(ks)):
        if len(ks) > 1:
            yield with_kids_b(b, ks[:i] + ks[i + 1:])
        for nk in shrink_block(ks[i]):
            yield with_kids_b(b, ks[:i] + [nk] + ks[i + 1:])
    if k == "Para":
        for nl in shrink_inls(b[1]):
            if nl:
                yield ("Para", nl)
    elif k == "Atx":
        for nl in shrink_inls(b[3]):
            yield b[:3] + (nl,)
    elif k == "Setext":
        for nl in shrink_inls(b[2]):
            if nl:
                yield b[:2] + (nl,)
    elif k == "Fence":
        for i in range(len(b[4])):
            yield b[:4] + (b[4][:i] + b[4][i + 1:],)
        if b[3]:
            yield b[:3] + (b"",) + b[4:]
    elif k == "Indent" and len(b[1]) > 1:
        for i in range(len(b[1])):
            yield ("Indent", b[1][:i] + b[1][i + 1:])
    elif k == "Table":
        rows = b[2]
        for i in range(1, len(rows)):
            yield ("Table", b[1], rows[:i] + rows[i + 1:])
        if len(b[1]) > 1:
            for c in range(len(b[1])):
                yield ("Table", b[1][:c] + b[1][c + 1:], [r[:c] + r[c + 1:] for r in rows])
        for ri, r in enumerate(rows):
            for ci, c in enumerate(r):
                for nl in shrink_inls(c):
                    if nl or ri > 0:
                        yield ("Table", b[1], rows[:ri] + [r[:ci] + [nl] + r[ci + 1:]] + rows[ri + 1:])
    elif k in ("Bullet", "Ordered"):
        if not b[1]:
            yield (k, True) + b[2:]
        if k == "Ordered" and b[2] != 1:
            yield (k, b[1], 1) + b[3:]
    if k not in ("Para", "Item"):
        yield ("Para", [("Str", b"a")])


def shrink(d, fails, budget=400):
    """greedy structural minimisation: `fails(doc)` must stay true (it also checks canonicity)"""
    cur = d
    n = 0
    progress = True
    while progress and n < budget:
        progress = False
        for cand in shrink_candidates(cur):
            n += 1
            if n >= budget:
                break
            if fails(cand):
                cur = cand
                progress = True
                break
    return cur
