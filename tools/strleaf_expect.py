"""Pinned text (signature and body, whitespace-normalised, comments stripped) of the leaf functions modelled in
coq/Model/{Strings,Entity,LinkUrl,AutolinkLeaf,ListMarker}.v.  Written once from /repo by hand-reviewed
transcription; gen_model.py item `strleaf` compares the current source with it on every run."""
EXPECT = {
    'src/strings.rs::unescape':
        "pub fn unescape(v: &mut Vec<u8>) { let mut r = 0; let mut prev = None; let mut found = 0; while r < v.len() { if v[r] == b'\\\\' && r + 1 < v.len() && ispunct(v[r + 1]) { if v[r + 1] == b'\\\\' { r += 1; } if let Some(prev) = prev { let window = &mut v[(prev + 1 - found)..r]; shift_buf_left(window, found); } prev = Some(r); found += 1; } r += 1; } if let Some(prev) = prev { let window = &mut v[(prev + 1 - found)..r]; shift_buf_left(window, found); } let new_size = v.len() - found; v.truncate(new_size); }",
    'src/strings.rs::clean_autolink':
        'pub fn clean_autolink(url: &[u8], kind: AutolinkType) -> Vec<u8> { let mut url_vec = url.to_vec(); trim(&mut url_vec); if url_vec.is_empty() { return url_vec; } let mut buf = Vec::with_capacity(url_vec.len()); if kind == AutolinkType::Email { buf.extend_from_slice(b"mailto:"); } buf.extend_from_slice(&entity::unescape_html(&url_vec)); buf }',
    'src/strings.rs::normalize_code':
        "pub fn normalize_code(v: &[u8]) -> Vec<u8> { let mut r = Vec::with_capacity(v.len()); let mut i = 0; let mut contains_nonspace = false; while i < v.len() { match v[i] { b'\\r' => { if i + 1 == v.len() || v[i + 1] != b'\\n' { r.push(b' '); } } b'\\n' => { r.push(b' '); } c => r.push(c), } if v[i] != b' ' && v[i] != b'\\r' && v[i] != b'\\n' { contains_nonspace = true; } i += 1 } if contains_nonspace && !r.is_empty() && r[0] == b' ' && r[r.len() - 1] == b' ' { r.remove(0); r.pop(); } r }",
    'src/strings.rs::remove_trailing_blank_lines':
        "pub fn remove_trailing_blank_lines(line: &mut String) { let line_bytes = line.as_bytes(); let mut i = line.len() - 1; loop { let c = line_bytes[i]; if c != b' ' && c != b'\\t' && !is_line_end_char(c) { break; } if i == 0 { line.clear(); return; } i -= 1; } for (i, c) in line_bytes.iter().enumerate().take(line.len()).skip(i) { if !is_line_end_char(*c) { continue; } line.truncate(i); break; } }",
    'src/strings.rs::is_line_end_char':
        'pub fn is_line_end_char(ch: u8) -> bool { matches!(ch, 10 | 13) }',
    'src/strings.rs::is_space_or_tab':
        'pub fn is_space_or_tab(ch: u8) -> bool { matches!(ch, 9 | 32) }',
    'src/strings.rs::chop_trailing_hashtags':
        "pub fn chop_trailing_hashtags(line: &mut Vec<u8>) { rtrim(line); let orig_n = line.len() - 1; let mut n = orig_n; while line[n] == b'#' { if n == 0 { return; } n -= 1; } if n != orig_n && is_space_or_tab(line[n]) { line.truncate(n); rtrim(line); } }",
    'src/strings.rs::rtrim':
        'pub fn rtrim(line: &mut Vec<u8>) -> usize { let spaces = line.iter().rev().take_while(|&&b| isspace(b)).count(); let new_len = line.len() - spaces; line.truncate(new_len); spaces }',
    'src/strings.rs::ltrim':
        'pub fn ltrim(line: &mut Vec<u8>) -> usize { let spaces = line.iter().take_while(|&&b| isspace(b)).count(); shift_buf_left(line, spaces); let new_len = line.len() - spaces; line.truncate(new_len); spaces }',
    'src/strings.rs::trim':
        'pub fn trim(line: &mut Vec<u8>) { ltrim(line); rtrim(line); }',
    'src/strings.rs::ltrim_slice':
        'pub fn ltrim_slice(mut i: &[u8]) -> &[u8] { while let [first, rest @ ..] = i { if isspace(*first) { i = rest; } else { break; } } i }',
    'src/strings.rs::rtrim_slice':
        'pub fn rtrim_slice(mut i: &[u8]) -> &[u8] { while let [rest @ .., last] = i { if isspace(*last) { i = rest; } else { break; } } i }',
    'src/strings.rs::trim_slice':
        'pub fn trim_slice(mut i: &[u8]) -> &[u8] { i = ltrim_slice(i); i = rtrim_slice(i); i }',
    'src/strings.rs::shift_buf_left':
        'fn shift_buf_left(buf: &mut [u8], n: usize) { if n == 0 { return; } assert!(n <= buf.len()); let keep = buf.len() - n; unsafe { let dst = buf.as_mut_ptr(); let src = dst.add(n); ptr::copy(src, dst, keep); } }',
    'src/strings.rs::clean_url':
        'pub fn clean_url(url: &[u8]) -> Vec<u8> { let url = trim_slice(url); let url_len = url.len(); if url_len == 0 { return vec![]; } let mut b = entity::unescape_html(url); unescape(&mut b); b }',
    'src/strings.rs::clean_title':
        'pub fn clean_title(title: &[u8]) -> Vec<u8> { let title_len = title.len(); if title_len == 0 { return vec![]; } let first = title[0]; let last = title[title_len - 1]; let mut b = if (first == b\'\\\'\' && last == b\'\\\'\') || (first == b\'(\' && last == b\')\') || (first == b\'"\' && last == b\'"\') { entity::unescape_html(&title[1..title_len - 1]) } else { entity::unescape_html(title) }; unescape(&mut b); b }',
    'src/strings.rs::is_blank':
        'pub fn is_blank(s: &[u8]) -> bool { for &c in s { match c { 10 | 13 => return true, 32 | 9 => (), _ => return false, } } true }',
    'src/strings.rs::normalize_label':
        "pub fn normalize_label(i: &str, casing: Case) -> String { let i = unsafe { str::from_utf8_unchecked(trim_slice(i.as_bytes())) }; let mut v = String::with_capacity(i.len()); let mut last_was_whitespace = false; for c in i.chars() { if c.is_whitespace() { if !last_was_whitespace { last_was_whitespace = true; v.push(' '); } } else { last_was_whitespace = false; v.push(c); } } if casing == Case::Fold { caseless::default_case_fold_str(&v) } else { v } }",
    'src/strings.rs::trim_start_match':
        "pub fn trim_start_match<'s>(s: &'s str, pat: &str) -> &'s str { s.strip_prefix(pat).unwrap_or(s) }",
    'src/entity.rs::isxdigit':
        "fn isxdigit(ch: &u8) -> bool { (*ch >= b'0' && *ch <= b'9') || (*ch >= b'a' && *ch <= b'f') || (*ch >= b'A' && *ch <= b'F') }",
    'src/entity.rs::unescape':
        "pub fn unescape(text: &[u8]) -> Option<(Vec<u8>, usize)> { if text.len() >= 3 && text[0] == b'#' { let mut codepoint: u32 = 0; let mut i = 0; let num_digits = if isdigit(text[1]) { i = 1; while i < text.len() && isdigit(text[i]) { codepoint = (codepoint * 10) + (text[i] as u32 - '0' as u32); codepoint = min(codepoint, 0x11_0000); i += 1; } i - 1 } else if text[1] == b'x' || text[1] == b'X' { i = 2; while i < text.len() && isxdigit(&text[i]) { codepoint = (codepoint * 16) + ((text[i] as u32 | 32) % 39 - 9); codepoint = min(codepoint, 0x11_0000); i += 1; } i - 2 } else { 0 }; if i < text.len() && text[i] == b';' && (((text[1] == b'x' || text[1] == b'X') && (1..=6).contains(&num_digits)) || (1..=7).contains(&num_digits)) { if codepoint == 0 || (0xD800..=0xE000).contains(&codepoint) || codepoint >= 0x110000 { codepoint = 0xFFFD; } return Some(( char::from_u32(codepoint) .unwrap_or('\\u{FFFD}') .to_string() .into_bytes(), i + 1, )); } } let size = min(text.len(), ENTITY_MAX_LENGTH); for i in ENTITY_MIN_LENGTH..size { if text[i] == b' ' { return None; } if text[i] == b';' { return lookup(&text[..i]).map(|e| (e.to_vec(), i + 1)); } } None }",
    'src/entity.rs::lookup':
        'fn lookup(text: &[u8]) -> Option<&[u8]> { let entity_str = format!("&{};", unsafe { str::from_utf8_unchecked(text) }); let entity = ENTITIES.iter().find(|e| e.entity == entity_str); match entity { Some(e) => Some(e.characters.as_bytes()), None => None, } }',
    'src/entity.rs::unescape_html':
        "pub fn unescape_html(src: &[u8]) -> Vec<u8> { let size = src.len(); let mut i = 0; let mut v = Vec::with_capacity(size); while i < size { let org = i; while i < size && src[i] != b'&' { i += 1; } if i > org { if org == 0 && i >= size { return src.to_vec(); } v.extend_from_slice(&src[org..i]); } if i >= size { return v; } i += 1; match unescape(&src[i..]) { Some((chs, size)) => { v.extend_from_slice(&chs); i += size; } None => v.push(b'&'), } } v }",
    'src/parser/inlines.rs::manual_scan_link_url':
        "pub fn manual_scan_link_url(input: &[u8]) -> Option<(&[u8], usize)> { let len = input.len(); let mut i = 0; if i < len && input[i] == b'<' { i += 1; while i < len { let b = input[i]; if b == b'>' { i += 1; break; } else if b == b'\\\\' { i += 2; } else if b == b'\\n' || b == b'<' { return None; } else { i += 1; } } } else { return manual_scan_link_url_2(input); } if i >= len { None } else { Some((&input[1..i - 1], i)) } }",
    'src/parser/inlines.rs::manual_scan_link_url_2':
        "pub fn manual_scan_link_url_2(input: &[u8]) -> Option<(&[u8], usize)> { let len = input.len(); let mut i = 0; let mut nb_p = 0; while i < len { if input[i] == b'\\\\' && i + 1 < len && ispunct(input[i + 1]) { i += 2; } else if input[i] == b'(' { nb_p += 1; i += 1; if nb_p > 32 { return None; } } else if input[i] == b')' { if nb_p == 0 { break; } nb_p -= 1; i += 1; } else if isspace(input[i]) || input[i].is_ascii_control() { if i == 0 { return None; } break; } else { i += 1; } } if i >= len || nb_p != 0 { None } else { Some((&input[..i], i)) } }",
    'src/parser/autolink.rs::validate_protocol':
        'fn validate_protocol(protocol: &str, contents: &[u8], cursor: usize) -> bool { let size = contents.len(); let mut rewind = 0; while rewind < cursor && isalpha(contents[cursor - rewind - 1]) { rewind += 1; } size - cursor + rewind >= protocol.len() && &contents[cursor - rewind..cursor] == protocol.as_bytes() }',
    'src/parser/autolink.rs::check_domain':
        "fn check_domain(data: &[u8], allow_short: bool) -> Option<usize> { let mut np = 0; let mut uscore1 = 0; let mut uscore2 = 0; for (i, c) in unsafe { str::from_utf8_unchecked(data) }.char_indices() { if c == '\\\\' && i < data.len() - 1 { } else if c == '_' { uscore2 += 1; } else if c == '.' { uscore1 = uscore2; uscore2 = 0; np += 1; } else if !is_valid_hostchar(c) && c != '-' { if uscore1 == 0 && uscore2 == 0 && (allow_short || np > 0) { return Some(i); } return None; } } if (uscore1 > 0 || uscore2 > 0) && np <= 10 { None } else if allow_short || np > 0 { Some(data.len()) } else { None } }",
    'src/parser/autolink.rs::is_valid_hostchar':
        'fn is_valid_hostchar(ch: char) -> bool { !(ch.is_whitespace() || ch.is_punctuation() || ch.is_symbol()) }',
    'src/parser/autolink.rs::autolink_delim':
        'fn autolink_delim(data: &[u8], mut link_end: usize, relaxed_autolinks: bool) -> usize { const LINK_END_ASSORTMENT: [bool; 256] = character_set!(b"?!.,:*_~\'\\""); for (i, &b) in data.iter().enumerate().take(link_end) { if b == b\'<\' { link_end = i; break; } } while link_end > 0 { let cclose = data[link_end - 1]; let mut copen = if cclose == b\')\' { Some(b\'(\') } else { None }; if relaxed_autolinks && copen.is_none() { copen = if cclose == b\']\' { Some(b\'[\') } else if cclose == b\'}\' { Some(b\'{\') } else { None }; } if LINK_END_ASSORTMENT[cclose as usize] { link_end -= 1; } else if cclose == b\';\' { let mut new_end = link_end - 2; while new_end > 0 && isalpha(data[new_end]) { new_end -= 1; } if new_end < link_end - 2 && data[new_end] == b\'&\' { link_end = new_end; } else { link_end -= 1; } } else if let Some(copen) = copen { let mut opening = 0; let mut closing = 0; for &b in data.iter().take(link_end) { if b == copen { opening += 1; } else if b == cclose { closing += 1; } } if closing <= opening { break; } link_end -= 1; } else { break; } } link_end }',
    'src/parser/table.rs::unescape_pipes':
        "fn unescape_pipes(string: &[u8]) -> Vec<u8> { let len = string.len(); let mut v = Vec::with_capacity(len); for (i, &c) in string.iter().enumerate() { if c == b'\\\\' && i + 1 < len && string[i + 1] == b'|' { continue; } else { v.push(c); } } v }",
    'src/parser/mod.rs::scan_thematic_break_inner':
        "fn scan_thematic_break_inner(&mut self, line: &[u8]) -> (usize, bool) { let mut i = self.first_nonspace; if i >= line.len() { return (i, false); } let c = line[i]; if c != b'*' && c != b'_' && c != b'-' { return (i, false); } let mut count = 1; let mut nextc; loop { i += 1; if i >= line.len() { return (i, false); } nextc = line[i]; if nextc == c { count += 1; } else if nextc != b' ' && nextc != b'\\t' { break; } } if count >= 3 && (nextc == b'\\r' || nextc == b'\\n') { ((i - self.first_nonspace) + 1, true) } else { (i, false) } }",
    'src/parser/mod.rs::parse_list_marker':
        "fn parse_list_marker( line: &[u8], mut pos: usize, interrupts_paragraph: bool, ) -> Option<(usize, NodeList)> { let mut c = line[pos]; let startpos = pos; if c == b'*' || c == b'-' || c == b'+' { pos += 1; if !isspace(line[pos]) { return None; } if interrupts_paragraph { let mut i = pos; while strings::is_space_or_tab(line[i]) { i += 1; } if line[i] == b'\\n' { return None; } } return Some(( pos - startpos, NodeList { list_type: ListType::Bullet, marker_offset: 0, padding: 0, start: 1, delimiter: ListDelimType::Period, bullet_char: c, tight: false, is_task_list: false, }, )); } else if isdigit(c) { let mut start: usize = 0; let mut digits = 0; loop { start = (10 * start) + (line[pos] - b'0') as usize; pos += 1; digits += 1; if !(digits < 9 && isdigit(line[pos])) { break; } } if interrupts_paragraph && start != 1 { return None; } c = line[pos]; if c != b'.' && c != b')' { return None; } pos += 1; if !isspace(line[pos]) { return None; } if interrupts_paragraph { let mut i = pos; while strings::is_space_or_tab(line[i]) { i += 1; } if strings::is_line_end_char(line[i]) { return None; } } return Some(( pos - startpos, NodeList { list_type: ListType::Ordered, marker_offset: 0, padding: 0, start, delimiter: if c == b'.' { ListDelimType::Period } else { ListDelimType::Paren }, bullet_char: 0, tight: false, is_task_list: false, }, )); } None }",
}
