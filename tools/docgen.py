"""Document, option and tree generators shared by the checks (DESIGN §4.2).
Every random choice derives from the rng passed in (one PRNG state per run)."""

BOOL_EXT = ["strikethrough", "tagfilter", "table", "autolink", "tasklist", "superscript", "footnotes",
            "description_lists", "multiline_block_quotes", "alerts", "math_dollars", "math_code",
            "wikilinks_title_after_pipe", "wikilinks_title_before_pipe", "underline", "subscript",
            "spoiler", "greentext"]
BOOL_PARSE = ["smart", "relaxed_tasklist_matching", "relaxed_autolinks"]
BOOL_RENDER = ["hardbreaks", "github_pre_lang", "full_info_string", "unsafe", "escape", "sourcepos",
               "escaped_char_spans", "ignore_setext", "ignore_empty_links", "gfm_quirks", "prefer_fenced",
               "figure_with_caption", "tasklist_classes", "experimental_minimize_commonmark"]
ALL_BOOL = BOOL_EXT + BOOL_PARSE + BOOL_RENDER
GFM = ["strikethrough", "tagfilter", "table", "autolink", "tasklist"]


def hx(b):
    if isinstance(b, str):
        b = b.encode("utf-8")
    return b.hex() if b else "-"


def opts_token(d):
    """dict -> the harness's option token"""
    if not d:
        return "-"
    parts = []
    for k in sorted(d):
        v = d[k]
        if v is True:
            parts.append(f"{k}=1")
        elif v is False or v is None:
            continue
        elif isinstance(v, int):
            parts.append(f"{k}={v}")
        elif k == "list_style":
            parts.append(f"{k}={v}")
        else:
            parts.append(f"{k}={hx(v)}")
    return ",".join(parts) if parts else "-"


def gen_opts(rng, exclude=(), force=None, p=0.3, strings=True):
    d = {}
    mode = rng.random()
    if mode < 0.15:
        pass
    elif mode < 0.3:
        for k in GFM:
            d[k] = True
    elif mode < 0.45:
        for k in ALL_BOOL:
            if k not in ("experimental_minimize_commonmark",):
                d[k] = True
    else:
        q = rng.choice([0.08, 0.2, 0.5])
        for k in ALL_BOOL:
            if rng.random() < q:
                d[k] = True
    if strings:
        if rng.random() < p:
            d["header_ids"] = rng.choice(["", "user-content-", "x", "é-"])
        if rng.random() < p / 2:
            d["front_matter_delimiter"] = rng.choice(["---", "+++", "-"])
        if rng.random() < p / 3:
            d["default_info_string"] = rng.choice(["rust", "a b", "x\"y"])
    if rng.random() < p:
        d["width"] = rng.choice([1, 5, 10, 20, 40, 72, 80, 120])
    if rng.random() < p / 2:
        d["ol_width"] = rng.choice([1, 2, 3, 5, 8])
    if rng.random() < p / 2:
        d["list_style"] = rng.choice(["dash", "plus", "star"])
    # experimental_minimize_commonmark re-parses per character: keep it rare
    if d.get("experimental_minimize_commonmark") and rng.random() < 0.8:
        del d["experimental_minimize_commonmark"]
    for k in exclude:
        d.pop(k, None)
    if force:
        d.update(force)
    return d


WORDS = ["foo", "bar", "baz", "a", "I", "x1", "lorem", "ipsum", "é", "漢字", "Ünï", "9", "10", "z-z", "w.x", "q"]
PUNCT = list("*_`[]()<>!#+-.:~^|$&\\\"'=@/%{};?")


def word(rng, hot=0.25):
    r = rng.random()
    if r < hot:
        return rng.choice(PUNCT)
    if r < hot + 0.05:
        return rng.choice(["&amp;", "&#35;", "&copy;", "&#x22;", "&nosuch;", "\\*", "\\\\", "\\[", "\\&", "\\~", "\\|", "--", "---", "...", "'q'", "\"q\""])
    return rng.choice(WORDS)


def text(rng, n=None, hot=0.25):
    n = n or rng.choice([1, 1, 2, 3, 4, 6])
    out = []
    for i in range(n):
        out.append(word(rng, hot))
        if i + 1 < n:
            out.append(rng.choice([" ", " ", " ", "", "  ", "\t"]) if rng.random() < 0.9 else "")
    return "".join(out)


URLS = ["/url", "http://a.b/c?d=e&f", "https://example.com/a_(b)", "<a b>", "<>", "mailto:x@y.z", "javascript:alert(1)", "JaVaScRiPt:x",
        "data:text/html,x", "data:image/png;base64,xx", "vbscript:x", "file:///etc", "#frag", "a%20b", "é", "x\"y", "/u'v", "a&b"]
TITLES = ['"t"', "'t'", "(t)", '"a \\" b"', '"<b>"', '"&amp;"', "\"é\""]


def inline(rng, depth=0, feats=None):
    r = rng.random()
    if depth > 3 or r < 0.35:
        return text(rng)
    k = rng.choice(["emph", "strong", "code", "link", "image", "autolink", "html", "br", "reflink", "strike", "entity",
                    "foot", "math", "wiki", "sup", "sub", "under", "spoiler", "escape", "email", "www", "nested", "shortref"])
    t = lambda: inline(rng, depth + 1, feats)
    if k == "emph":
        d = rng.choice("*_")
        return f"{d}{t()}{d}"
    if k == "strong":
        d = rng.choice(["**", "__"])
        return f"{d}{t()}{d}"
    if k == "nested":
        return rng.choice(["***{}***", "**{} *x***", "*a **{}** b*", "_a __{}__ b_", "**a *{}***"]).format(t())
    if k == "code":
        n = rng.choice([1, 1, 2, 3])
        body = rng.choice(["x", "a b", " `` ", "a`b", "*x*", "<b>", "&amp;", " x ", "  ", "a\nb", "|", "$"])
        return "`" * n + body + "`" * n
    if k == "link":
        dest = rng.choice(URLS)
        title = " " + rng.choice(TITLES) if rng.random() < 0.3 else ""
        return f"[{t()}]({dest}{title})"
    if k == "image":
        dest = rng.choice(URLS)
        title = " " + rng.choice(TITLES) if rng.random() < 0.3 else ""
        return f"![{t()}]({dest}{title})"
    if k == "autolink":
        return rng.choice(["<http://x.y/z>", "<https://a.b?c=d&e>", "<foo@bar.baz>", "<mailto:a@b.c>", "<x:y>", "<javascript:x>"])
    if k == "html":
        return rng.choice(["<b>", "</b>", "<a href=\"x\">", "<br/>", "<!-- c -->", "<?pi?>", "<![CDATA[x]]>", "<!DOCTYPE x>", "<script>", "</title>",
                           "<textarea x>", "<iframe/>", "<xmp>", "<STYLE>", "<x y='z'>", "<!--", "<?", "<![CDATA["])
    if k == "br":
        return rng.choice(["  \n", "\\\n", "\n"]) + text(rng, 1, 0)
    if k == "reflink":
        return rng.choice(["[ref]", "[Ref][]", "[text][ref]", "[REF]", "[x][nosuch]", "[ref2]", "![ref]", "[ a  b ]"])
    if k == "shortref":
        return rng.choice(["[", "]", "[]", "[](", "![", "[x](", "[x]()", "[x](<>)", "[[x]]", "[x][", "[^"])
    if k == "strike":
        d = rng.choice(["~~", "~"])
        return f"{d}{t()}{d}"
    if k == "entity":
        return rng.choice(["&amp;", "&lt;", "&#65;", "&#x41;", "&auml;", "&#0;", "&#xD800;", "&#99999999;", "&ngE;", "&nbsp;", "&x;", "&#;", "&"])
    if k == "foot":
        return rng.choice(["[^1]", "[^a]", "[^note]", "[^A]", "[^nosuch]", "[^a\"b]", "[^]", "[^ x]"])
    if k == "math":
        return rng.choice(["$x$", "$$y$$", "$`z`$", "$1 + 2$", "$ x$", "$x $", "$$", "$`a", "$", "$a$b$"])
    if k == "wiki":
        return rng.choice(["[[url]]", "[[url|title]]", "[[a|b|c]]", "[[http://x|y]]", "[[]]", "[[x"])
    if k == "sup":
        return f"^{text(rng, 1, 0)}^"
    if k == "sub":
        return f"~{text(rng, 1, 0)}~"
    if k == "under":
        return f"__{text(rng, 1, 0)}__"
    if k == "spoiler":
        return f"||{t()}||"
    if k == "escape":
        return "\\" + rng.choice(PUNCT + ["a", " ", "\n"])
    if k == "email":
        return rng.choice(["a@b.c", "foo.bar@baz.org", "x+y@z.w.", "a@b", "@x.y", "a@b.c/d", "mailto:a@b.c", "xmpp:a@b.c/r"])
    if k == "www":
        return rng.choice(["www.example.com", "http://x.y/z)", "https://a.b/c_d_", "www.a.b/(c)", "ftp://x.y", "www.x", "http://a.b<c", "www.a.b.", "http://", "www.a_b.c"])
    return text(rng)


def inlines(rng, feats=None):
    n = rng.choice([1, 1, 2, 3, 5])
    return rng.choice([" ", " ", "", " "]).join(inline(rng, 0, feats) for _ in range(n))


def para(rng):
    lines = [inlines(rng) for _ in range(rng.choice([1, 1, 2, 3]))]
    return "\n".join(lines)


def block(rng, depth=0):
    if depth > 4:
        return para(rng)
    k = rng.choice(["para", "para", "para", "atx", "setext", "hr", "fence", "indent", "quote", "bullet", "ordered", "html", "table",
                    "refdef", "footdef", "task", "alert", "mbq", "deflist", "loose", "greentext", "lazy", "mathblock"])
    sub = lambda: block(rng, depth + 1)
    if k == "para":
        return para(rng)
    if k == "atx":
        n = rng.choice([1, 2, 3, 4, 5, 6, 6, 7])
        tail = rng.choice(["", "", " #", " ##  ", " \\#", "#"])
        return "#" * n + rng.choice([" ", " ", "  ", "\t", ""]) + inlines(rng) + tail
    if k == "setext":
        return para(rng) + "\n" + rng.choice(["===", "---", "=", "-", "==  ", " ---"])
    if k == "hr":
        return rng.choice(["---", "***", "___", "- - -", " * * *", "-----", "--", "**", "_ _ _ _"])
    if k == "fence":
        ch = rng.choice("`~")
        n = rng.choice([3, 3, 4, 5])
        info = rng.choice(["", "", "rust", "c++ x=y", "a\"b<c", " py ", "math", "x`y" if ch == "~" else "x"])
        body = rng.choice(["code", "a\n  b\n", "```", "~~~", "<b>&amp;", "", "\n\n", "*x*", "    i"])
        close = rng.choice([ch * n, ch * n, ch * (n + 1), "", ch * (n - 1)])
        return f"{ch * n}{info}\n{body}\n{close}"
    if k == "indent":
        return "\n".join("    " + rng.choice(["code", " x", "<a>", "*y*", "", "\tz"]) for _ in range(rng.choice([1, 2, 3])))
    if k == "quote":
        inner = sub().split("\n")
        lazy = rng.random() < 0.2
        return "\n".join((">" + rng.choice([" ", " ", "", "  "]) + l) if (i == 0 or not lazy) else l for i, l in enumerate(inner))
    if k == "greentext":
        return ">" + text(rng, 2, 0)
    if k in ("bullet", "ordered", "task", "loose"):
        items = []
        n = rng.choice([1, 2, 3])
        start = rng.choice([1, 1, 0, 2, 9, 10, 123456789, 1234567890])
        delim = rng.choice([".", ")"])
        bul = rng.choice("-+*")
        for i in range(n):
            marker = bul if k != "ordered" else f"{start + i}{delim}"
            if k == "task":
                marker += rng.choice([" [ ]", " [x]", " [X]", " [~]", " []", " [ ] "])
            pad = rng.choice([" ", " ", "  ", "   ", "\t"])
            body = sub().split("\n")
            ind = " " * (len(marker) + len(pad) if "\t" not in pad else len(marker) + 2)
            item = [marker + pad + body[0]] + [(ind + l if l else l) for l in body[1:]]
            if rng.random() < 0.3:
                extra = sub().split("\n")
                item.append("")
                item.extend(ind + l if l else l for l in extra)
            items.append("\n".join(item))
        sep = "\n\n" if k == "loose" or rng.random() < 0.25 else "\n"
        return sep.join(items)
    if k == "html":
        return rng.choice(["<div>\n*x*\n</div>", "<script>\nalert(1)\n</script>", "<!-- c\n-->", "<?php\n?>", "<!DOCTYPE html>", "<![CDATA[\nx\n]]>",
                           "<table><tr><td>\n</td></tr></table>", "<del>\n\n*x*\n\n</del>", "<title>x</title>", "<pre>\n\n</pre>", "<a href=\"x\">\n",
                           "<textarea>\n<TITLE>\n</textarea>", "</div>", "<x-y z>", "<style\n>", "<iframe src=x>\n<plaintext>"])
    if k == "table":
        cols = rng.choice([1, 2, 2, 3, 4])
        cell = lambda: rng.choice([text(rng, 1), inline(rng, 2), "", "a\\|b", "`x|y`", " ", "**b**"])
        head = "|" + "|".join(f" {cell()} " for _ in range(cols)) + "|"
        if rng.random() < 0.15:
            head = head.strip("|")
        dl = "|" + "|".join(rng.choice(["---", ":--", "--:", ":-:", "-", " :-: "]) for _ in range(cols if rng.random() < 0.9 else cols + 1)) + "|"
        rows = []
        for _ in range(rng.choice([0, 1, 2, 3])):
            c = rng.choice([cols, cols, cols, cols - 1, cols + 1, 1])
            rows.append("|" + "|".join(f" {cell()} " for _ in range(max(1, c))) + "|")
        pre = (text(rng, 2, 0) + "\n") if rng.random() < 0.15 else ""
        return pre + "\n".join([head, dl] + rows)
    if k == "refdef":
        return rng.choice(["[ref]: /url", "[ref]: /url \"title\"", "[REF]: /other", "[ref2]:\n  /u2\n  'multi\nline'", "[ a  b ]: <x y>", "[ref]: /dup (t)",
                           "[é]: /e", "[ref]: javascript:x", "[x]:", "[ref]: /url \"t\" junk"]) + (("\n" + para(rng)) if rng.random() < 0.3 else "")
    if k == "footdef":
        name = rng.choice(["1", "a", "note", "A", "a\"b", "x y"])
        body = sub().split("\n")
        return f"[^{name}]: " + body[0] + "".join("\n    " + l if l else "\n" for l in body[1:])
    if k == "alert":
        ty = rng.choice(["NOTE", "TIP", "IMPORTANT", "WARNING", "CAUTION", "note", "Nope"])
        title = rng.choice(["", "", " Title", " <b>"])
        return f"> [!{ty}]{title}\n> " + para(rng).replace("\n", "\n> ")
    if k == "mbq":
        n = rng.choice([3, 3, 4])
        return ">" * n + "\n" + sub() + "\n" + rng.choice([">" * n, ">" * n, "", ">" * (n + 1)])
    if k == "deflist":
        return text(rng, 2, 0) + "\n\n: " + para(rng).replace("\n", "\n  ") + ("\n\n: second" if rng.random() < 0.3 else "")
    if k == "lazy":
        return "> " + text(rng, 2, 0) + "\n" + text(rng, 2, 0)
    if k == "mathblock":
        return rng.choice(["```math\nx^2\n```", "$$\nx\n$$", "$$x$$"])
    return para(rng)


def gen_doc(rng, nblocks=None):
    n = nblocks or rng.choice([1, 1, 2, 3, 4, 6])
    parts = []
    if rng.random() < 0.12:
        d = rng.choice(["---", "+++"])
        parts.append(f"{d}\ntitle: x\n{d}")
    for _ in range(n):
        parts.append(block(rng))
    sep = lambda: rng.choice(["\n\n", "\n\n", "\n\n", "\n", "\n\n\n"])
    doc = ""
    for i, p in enumerate(parts):
        doc += p + (sep() if i + 1 < len(parts) else rng.choice(["\n", "\n", "", "\n\n"]))
    return doc


def gen_malformed(rng):
    k = rng.choice(["bytes", "ctrl", "mixed_eol", "deep", "runs", "trunc", "nulbom", "punct"])
    if k == "bytes":
        # random code points as text (valid UTF-8 by construction)
        return "".join(chr(rng.choice([rng.randrange(1, 128), rng.randrange(128, 0x800), rng.randrange(0x800, 0xD800), rng.randrange(0x10000, 0x10FFFF)]))
                       for _ in range(rng.choice([1, 5, 20, 80])))
    if k == "ctrl":
        return "".join(rng.choice(["\x00", "\x01", "\x1b", "\x7f", "\r", "\n", "\t", "\x0b", "\x0c", " ", " ", "﻿", "a", "*", " "]) for _ in range(rng.choice([3, 10, 40])))
    if k == "mixed_eol":
        d = gen_doc(rng)
        return "".join(rng.choice(["\n", "\r\n", "\r", "\n"]) if c == "\n" else c for c in d)
    if k == "deep":
        n = rng.choice([10, 50, 200, 1000])
        p = rng.choice(["> ", "- ", "1. ", "* ", ">", "[", "*", "_", "**", "`", "<", "(", "![", "[^", "~~", "||", "<a ", "\\", "$", ":"])
        s = rng.choice(["", "]", "*", "_", ")", ">", "`", "**", "](x)", "~~"])
        return p * n + "x" + s * n
    if k == "runs":
        ch = rng.choice(["`", "*", "_", "[", "]", ">", "#", "-", "~", "$", "|", "&", "<", "\\", "!", "^", "=", ":", " ", "\t", "\n", "a@b.c ", "www.a.b ", "http://x "])
        return ch * rng.choice([3, 31, 32, 33, 80, 100, 400])
    if k == "trunc":
        d = gen_doc(rng)
        return d[: rng.randrange(0, max(1, len(d)))]
    if k == "nulbom":
        d = gen_doc(rng)
        pos = rng.randrange(0, len(d) + 1)
        return rng.choice(["﻿", "", "﻿﻿"]) + d[:pos] + rng.choice(["\x00", "﻿", "\x00\x00"]) + d[pos:]
    return "".join(rng.choice(PUNCT + [" ", "\n", "a"]) for _ in range(rng.choice([2, 5, 12, 30])))


def feature_counts(doc):
    """rough construct census for the evidence's input distribution"""
    import re
    c = {}
    def add(k, n):
        if n:
            c[k] = c.get(k, 0) + n
    add("atx", len(re.findall(r"^#{1,6}[ \t]", doc, re.M)))
    add("fence", len(re.findall(r"^(```|~~~)", doc, re.M)) // 2)
    add("quote", len(re.findall(r"^>", doc, re.M)))
    add("bullet", len(re.findall(r"^\s*[-+*] ", doc, re.M)))
    add("ordered", len(re.findall(r"^\s*\d+[.)] ", doc, re.M)))
    add("table_delim", len(re.findall(r"^\|?\s*:?-+:?\s*\|", doc, re.M)))
    add("link", doc.count("]("))
    add("image", doc.count("!["))
    add("code_span", doc.count("`"))
    add("emph", doc.count("*") + doc.count("_"))
    add("html", doc.count("<"))
    add("footnote", doc.count("[^"))
    add("entity", doc.count("&"))
    add("escape", doc.count("\\"))
    add("crlf", doc.count("\r"))
    add("nul", doc.count("\x00"))
    add("multibyte", sum(1 for ch in doc if ord(ch) > 127))
    return c
