#!/usr/bin/env python3
"""Assemble MANIFEST.json from manifest/base.json + manifest/checks/Cxx.json (one file per claimed
property).  Properties without a fragment are listed under not_applicable with the reason found in
manifest/not_applicable.json (or a default)."""
import json, os, subprocess
ROOT = os.path.dirname(os.path.dirname(os.path.abspath(__file__)))
base = json.load(open(os.path.join(ROOT, "manifest", "base.json")))
props = [json.loads(l)["id"] for l in open(os.path.join(ROOT, "properties.jsonl")) if l.strip()]
checks = []
for p in props:
    f = os.path.join(ROOT, "manifest", "checks", p + ".json")
    if os.path.exists(f):
        checks.append(json.load(open(f)))
na_path = os.path.join(ROOT, "manifest", "not_applicable.json")
reasons = json.load(open(na_path)) if os.path.exists(na_path) else {}
claimed = {c["property_id"] for c in checks}
na = [{"property_id": p, "reason": reasons.get(p, "check under construction (see DESIGN.md §6 %s); not yet claimed" % p)} for p in props if p not in claimed]
engines = base.get("engines", [])
for e in engines:
    e["serves_properties"] = sorted(claimed)
# hook commits: every commit of /repo whose subject starts with "verif hooks"
try:
    out = subprocess.run(["git", "-C", "/repo", "log", "--format=%h %s"], stdout=subprocess.PIPE).stdout.decode()
    base["hooks"]["source_commits"] = [l.split()[0] for l in out.splitlines() if l.split(" ", 1)[1].startswith("verif hooks")][::-1]
except Exception:
    pass
m = dict(base)
m["checks"] = checks
m["not_applicable"] = na
json.dump(m, open(os.path.join(ROOT, "MANIFEST.json"), "w"), indent=1)
print("claimed:", sorted(claimed))
