#!/usr/bin/env python3
"""rtstats.py [N] [SEED] — how wide are the C07/C17 class predicates?
Generates N documents x options exactly as tools/checks/rtfam.py does, runs the round trip, evaluates EVERY
class predicate on EVERY document (unshrunk tree) and prints, per class: the fraction of all documents it
matches, the fraction of the documents that are clean for both properties it matches, and the fraction of the
failing documents it matches.  A class that matches a large share of clean documents explains nothing.
The numbers are for UNSHRUNK documents (several constructs each); the checks classify a failure only after
ddmin has reduced it to the constructs that are needed for it to fail, where incidental matches are rarer.
The wrap_* classes are defined for failing documents only (`the failure disappears at width 0`): on a clean
document they read `wrapping produced a line that starts with the token`.  Column st: k = known for C07 and/or
C17, f = repaired (status fixed: the predicate only names a regression)."""
import os, sys
sys.path.insert(0, os.path.dirname(os.path.abspath(__file__)))
import vlib
from checks import rtfam


def main():
    n = int(sys.argv[1]) if len(sys.argv) > 1 else 20000
    seed = int(sys.argv[2]) if len(sys.argv) > 2 else 1
    rng = vlib.Rng(seed)
    cases = []
    for _ in range(n):
        d, _u = rtfam.gen_doc(rng)
        cases.append((d, rtfam.gen_opts(rng)))
    recs = rtfam.run_rt3(cases, "release")
    proc = rtfam.Proc(vlib.VH["release"])
    ask = proc.ask
    f17 = lambda r, ask=None, ws=True: rtfam.fail17(r)
    tot = clean = failing = 0
    hit_all, hit_clean, hit_fail = {}, {}, {}
    for r in recs:
        if r.status != "ok" or not r.t1 or r.t1 == "-":
            continue
        tot += 1
        bad7, bad17 = rtfam.fail07(r, ask), rtfam.fail17(r)
        is_clean = not bad7 and not bad17
        clean += is_clean
        failing += not is_clean
        cl7, _ = rtfam.classify(r, rtfam.fail07, ask)
        cl17, _ = rtfam.classify(r, f17, ask)
        for k in set(cl7) | set(cl17):
            hit_all[k] = hit_all.get(k, 0) + 1
            if is_clean:
                hit_clean[k] = hit_clean.get(k, 0) + 1
            else:
                hit_fail[k] = hit_fail.get(k, 0) + 1
    proc.close()
    print(f"documents {tot}  clean(both) {clean}  failing(C07 or C17) {failing}  seed {seed}")
    known = {e["class"] for p in ("C07", "C17") for e in vlib.load_known(p)}
    print(f"{'class':40s} st {'all':>8s} {'clean':>8s} {'failing':>8s}")
    for k in sorted(rtfam.CLASSES, key=lambda k: -hit_all.get(k, 0)):
        print(f"{k:40s} {'k' if k in known else 'f'}  {hit_all.get(k, 0) / max(1, tot):8.4f} {hit_clean.get(k, 0) / max(1, clean):8.4f} {hit_fail.get(k, 0) / max(1, failing):8.4f}")


if __name__ == "__main__":
    main()
