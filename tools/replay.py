"""./check replay <file>: show a replay file and re-run its case on the implementation and the model."""
import json, sys, vlib

def main(path):
    with open(path) as f:
        r = json.load(f)
    print(json.dumps(r, indent=1)[:6000])
    if r.get("property") == "C16":
        from checks import c16
        c16.replay(r)
    if r.get("property") == "C13":
        from checks import c13
        c13.replay(r)
    case = r.get("case") or {}
    line = case.get("line")
    if not line and "fn" in case and "input" in case:
        line = f"{case['fn']} {case['input']}"
    if not line and r.get("details"):
        for d in r["details"]:
            cs = d.get("case") or {}
            if cs.get("line"):
                line = cs["line"]; break
            if "fn" in cs and "input" in cs:
                line = f"{cs['fn']} {cs['input']}"; break
    if line:
        vlib.build_harness("debug"); vlib.build_driver()
        print("case:", line)
        print("implementation:", vlib.run_one(vlib.VH["debug"], line))
        print("model:         ", vlib.run_one(vlib.DRIVER, line))
    return 0
