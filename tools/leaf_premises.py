"""python3 tools/leaf_premises.py  (after ./check setup) - the premises of Props/Inlines.v inlines_total EVALUATED on the
leaves the COMPILED parser's block phase hands to the inline phase (harness op `inl`: content C and line offsets L of
every Paragraph / Heading / TableCell after the block phase): after right-trim every leaf content is empty, or NUL-free,
valid UTF-8, first line not blank, line endings < number of line offsets (Proofs/InlinesTotal4Leaves.leaf_ok).
Corpus: the generators of tools/checks/inlines_tie.py plus raw byte strings with NUL / CR / invalid UTF-8 (the harness
answers `panic utf-8: FromUtf8Error` for documents that are not valid UTF-8: the API takes &str).  Not a check: prints
counts; exit 1 if a premise fails."""
import sys, os, random
ROOT = os.path.dirname(os.path.dirname(os.path.abspath(__file__)))
sys.path.insert(0, os.path.join(ROOT, "tools")); sys.path.insert(0, os.path.join(ROOT, "tools", "checks"))
os.chdir(ROOT)
import vlib, docgen
import inlines_tie as T
from vlib import hx, unhx
rng = random.Random(20261001)
cases = []
ex = list(T.exhaustive(3))
for name, tok in T.OPTSETS.items():
    cases += [(tok, d) for d in ex[::7]]
rd = T.random_docs(rng, 12000)
names = list(T.OPTSETS)
cases += [(T.OPTSETS[names[i % 4]], d) for i, d in enumerate(rd)]
for _ in range(4000):
    o = docgen.opts_token(docgen.gen_opts(rng))
    r = rng.random()
    d = docgen.gen_doc(rng) if r < 0.5 else docgen.gen_malformed(rng) if r < 0.7 else "\n\n".join(docgen.inlines(rng) for _ in range(rng.randrange(1, 4)))
    if isinstance(d, str): d = d.encode("utf-8", "replace")
    cases.append((o, d))
# raw bytes: NUL, invalid UTF-8, CR
for _ in range(3000):
    k = rng.choice([3, 5, 8, 12])
    d = b"".join(rng.choice([b"\x00", b"\xc3", b"\xa9", b"\xff", b"\r", b"\n", b"a", b" ", b"\t", b"#", b"|", b"-", b">", b"[a]: /u\n", b"<?", b"://", b"http"]) for _ in range(k))
    cases.append((T.OPTSETS["all"], d))
hl = T.harness_lines(cases)
real = vlib.run_lines(vlib.VH["debug"], hl, timeout=1800)
def line_endings(c):
    n = 0; i = 0
    while i < len(c):
        if c[i] == 13:
            n += 1
            if i + 1 < len(c) and c[i+1] == 10: i += 1
        elif c[i] == 10: n += 1
        i += 1
    return n
def rtrim(c):
    j = len(c)
    while j > 0 and c[j-1] in (9, 10, 13, 32): j -= 1
    return c[:j]
def flnb(c):
    i = 0
    while i < len(c) and c[i] in (32, 9): i += 1
    return i >= len(c) or c[i] not in (10, 13)
def valid(c):
    try: c.decode("utf-8"); return True
    except UnicodeDecodeError: return False
tot = 0; bad = {}; empties = 0; panics = 0; shown = 0; docvalid_bad = {}
for (o, md), a in zip(cases, real):
    if a.startswith("panic"): panics += 1; continue
    sp = T.split_answer(a)
    if sp is None: continue
    ftoks, btoks, utoks = sp
    blocks = T.parse_tree(btoks, with_extra=True)
    for b in T.walk(blocks):
        if b.kind not in T.LEAF: continue
        C = b.extra.get("C", "-"); L = b.extra.get("L", "-")
        c = rtrim(unhx(C) if C != "-" else b"")
        lo = [] if L in ("-", "") else L.split(",")
        tot += 1
        if not c: empties += 1; continue
        fails = []
        if 0 in c: fails.append("nul")
        if not valid(c): fails.append("utf8" if valid(md) else "utf8(doc invalid)")
        if not flnb(c): fails.append("firstblank")
        if not line_endings(c) < len(lo): fails.append("lo")
        for f in fails:
            bad[f] = bad.get(f, 0) + 1
            if shown < 12 and f != "utf8(doc invalid)":
                shown += 1; print("FAIL", f, b.kind, repr(o), repr(md), repr(c), L)
print("leaves", tot, "empty", empties, "panics", panics, "bad", bad, "docs", len(cases))
from collections import Counter
cn = Counter()
ex = {}
for (o, md), a in zip(cases, real):
    if a.startswith("panic"):
        k = (a[:90], valid(md))
        cn[k] += 1
        ex.setdefault(k, (o, md))
for k, v in cn.most_common(12):
    print(v, k, ex[k])
print("panics on valid docs:", sum(v for k, v in cn.items() if k[1]), "distinct:", [ (k[0][:60], ex[k]) for k in cn if k[1]][:5])
sys.exit(1 if any(k != "utf8(doc invalid)" for k in bad) else 0)
