#!/usr/bin/env python3
"""c06_hooks.py <comrak-tree>: regenerate the C06 work-counter hooks in a copy of /repo (add-only, guarded).

Inserts `#[cfg(comrak_verif)] crate::verif::step();` as the first statement of every while/loop/for body of
the scanning code (parser, generated scanners, string/entity helpers, renderers, node helpers; test modules
and the two constant-array initialisation loops of Subject::new excepted), at the top of
Subject::parse_inline, and appends step()/steps()/steps_reset() to src/verif.rs.
`git diff` of the result is repo_hooks_c06.patch.  Run it on a tree WITHOUT the hooks."""
import re, sys, os
REPO = sys.argv[1]
FILES = ["src/parser/inlines.rs", "src/parser/mod.rs", "src/parser/table.rs", "src/parser/autolink.rs", "src/strings.rs",
         "src/entity.rs", "src/scanners.rs", "src/html.rs", "src/cm.rs", "src/xml.rs", "src/nodes.rs"]
HDR = re.compile(r"^(\s*)(?:'[a-z_]+:\s*)?(while|loop|for)\b")
VERIF = """
thread_local! {
    static STEPS: std::cell::Cell<u64> = std::cell::Cell::new(0);
}

/// One unit of work: called as the first statement of the loop bodies that scan input
/// (parser, scanners, string helpers, renderers) and at the top of `Subject::parse_inline`.
/// A deterministic, machine-independent cost counter (per thread).
#[inline]
pub fn step() {
    STEPS.with(|s| s.set(s.get().wrapping_add(1)));
}

/// Units of work counted on this thread since the last `steps_reset`.
pub fn steps() -> u64 {
    STEPS.with(|s| s.get())
}

/// Reset this thread's work counter to zero.
pub fn steps_reset() {
    STEPS.with(|s| s.set(0));
}
"""
total = 0
for fn in FILES:
    if "crate::verif::step();" in open(os.path.join(REPO, fn)).read():
        sys.exit("already hooked: " + fn)
    p = os.path.join(REPO, fn)
    L = open(p).read().split("\n")
    out = []
    i = 0
    pending = None  # indentation of a loop header waiting for its `{`
    depth = 0
    n = 0
    in_tests = False
    while i < len(L):
        line = L[i]
        out.append(line)
        if re.match(r"^\s*#\[cfg\(test\)\]", line) or re.match(r"^mod tests? \{", line):
            in_tests = True
        m = HDR.match(line)
        if m and pending is None and not in_tests:
            # skip the two constant-array initialisation loops of Subject::new and one-line empty bodies
            if line.rstrip().endswith("{}") or "for &c in &[" in line or 'for &c in b"' in line:
                i += 1
                continue
            pending = m.group(1)
            depth = 0
        if pending is not None:
            s = re.sub(r'b?"(?:[^"\\]|\\.)*"|b?\'(?:[^\'\\]|\\.)\'', "", line)
            if line is not out[-1]:
                pass
            depth += s.count("(") - s.count(")") + s.count("[") - s.count("]")
            if depth == 0 and s.rstrip().endswith("{"):
                ind = pending + "    "
                out.append(ind + "#[cfg(comrak_verif)]")
                out.append(ind + "crate::verif::step();")
                pending = None
                n += 1
        i += 1
    open(p, "w").write("\n".join(out))
    total += n
    print(fn, n)
print("total", total)
p = os.path.join(REPO, "src/parser/inlines.rs")
s = open(p).read()
old = "    pub fn parse_inline(&mut self, node: &'a AstNode<'a>) -> bool {\n"
assert s.count(old) == 1
open(p, "w").write(s.replace(old, old + "        #[cfg(comrak_verif)]\n        crate::verif::step();\n"))
p = os.path.join(REPO, "src/verif.rs")
s = open(p).read()
assert "pub fn steps_reset" not in s
open(p, "w").write(s + VERIF)
