#!/usr/bin/env python3
"""Survey of the C11 / C12 known-finding classes (development aid, not a check).

  tools/sp_survey.py run <tier> <seed> [<seed> ...]     evaluate the cases the checks would generate for these seeds
                                                        (all four clauses at once), print per-class counts, the
                                                        unclassified failures (smallest inputs first, shrunk) and
                                                        store every document that has a failing clause in
                                                        /tmp/ag/spsurvey/<tier>-<seed>.jsonl
  tools/sp_survey.py again <file.jsonl> ...             re-evaluate stored documents (after a predicate change)
  tools/sp_survey.py cover <tier> <seed>                masking area: for every class the fraction of documents
                                                        (and of nodes) in which the class predicate would excuse a
                                                        failure of some clause if there were one (driver op sp_cover)
"""
import json, os, sys, time
ROOT = os.path.dirname(os.path.dirname(os.path.abspath(__file__)))
sys.path.insert(0, os.path.join(ROOT, "tools"))
import vlib, docgen
from vlib import hx
from checks import srcposfam as F

OUT = "/tmp/ag/spsurvey"
if os.environ.get("SP_VH"):          # a harness binary built against a mutated copy of the library
    vlib.VH["debug"] = os.environ["SP_VH"]


class _Known:
    """class names with an entry in known_findings.json, per property: a V failure is judged by C12, the others by C11"""
    def __init__(self):
        self.k = {p: {e["class"] for e in vlib.load_known(p)} for p in ("C11", "C12")}

    def has(self, clause, cls):
        return cls in self.k["C12" if clause == "V" else "C11"]


def known_classes():
    return _Known()


def summarize(cases, res, label, shrink_n=8):
    known = known_classes()
    docs_with = {}
    fails_in = {}
    unknown = []
    nfail_docs = 0
    for (o, s, origin), r in zip(cases, res):
        if r["fails"] is None:
            continue
        seen = set()
        if r["fails"]:
            nfail_docs += 1
        for cl, p, k in r["fails"]:
            if k != "-" and known.has(cl, k):
                fails_in[k] = fails_in.get(k, 0) + 1
                seen.add(k)
            else:
                unknown.append((o, s, cl, p, k, r["tree_toks"]))
        for k in seen:
            docs_with[k] = docs_with.get(k, 0) + 1
    n = len(cases)
    print(f"== {label}: {n} documents, {nfail_docs} with a failing clause ({100.0 * nfail_docs / max(n, 1):.2f}%), {len(unknown)} unclassified failures")
    for k in sorted(docs_with, key=lambda k: -docs_with[k]):
        print(f"   {k:34s} docs {docs_with[k]:7d} ({100.0 * docs_with[k] / n:6.3f}%)  failures {fails_in[k]}")
    unknown.sort(key=lambda u: len(u[1]))
    seen_keys = {}
    for o, s, cl, p, k, toks in unknown:
        d = F.fail_desc(toks, cl, p)
        key = (cl, d.get("parent", ""), d["kind"])
        seen_keys.setdefault(key, []).append((o, s, d))
    for key, lst in sorted(seen_keys.items(), key=lambda kv: -len(kv[1])):
        print(f"-- unclassified {key}: {len(lst)}")
        for o, s, d in lst[:3]:
            print(f"     {docgen.opts_token(o)} {s!r} {d['kind']} {d['sourcepos']} parent {d.get('parent')} {d.get('parent_sourcepos')}")
    done = 0
    for key, lst in sorted(seen_keys.items(), key=lambda kv: -len(kv[1])):
        if done >= shrink_n:
            break
        done += 1
        o, s, d = lst[0]
        cl = key[0]

        def pred(oo, ss, key=key, cl=cl):
            rr = F.evaluate([(oo, ss, "shrink")])[0]
            if rr["fails"] is None:
                return False
            for c2, p2, k2 in rr["fails"]:
                if c2 == cl and (k2 == "-" or not known.has(c2, k2)):
                    d2 = F.fail_desc(rr["tree_toks"], c2, p2)
                    if (c2, d2.get("parent", ""), d2["kind"]) == key:
                        return True
            return False
        o2, s2 = F.shrink_case(o, s, pred) if len(s) < 3000 else (o, s)
        rr = F.evaluate([(o2, s2, "shrunk")])[0]
        print(f"## shrunk {key}: opts={docgen.opts_token(o2)} src={s2!r} hex={hx(s2)}")
        print(f"   report: {rr['report']}")
        print(f"   tree: {' '.join(rr['tree_toks'][:200])}")
    return unknown


def cmd_run(tier, seeds):
    os.makedirs(OUT, exist_ok=True)
    for seed in seeds:
        rng = vlib.Rng(seed)
        cases = F.build_cases(rng, tier)
        t = time.time()
        res = F.evaluate(cases)
        print(f"seed {seed}: evaluated {len(cases)} in {time.time() - t:.0f}s")
        with open(os.path.join(OUT, f"{tier}-{seed}.jsonl"), "w") as f:
            for (o, s, origin), r in zip(cases, res):
                if r["fails"]:
                    f.write(json.dumps({"o": o, "s": hx(s), "origin": origin}) + "\n")
        summarize(cases, res, f"{tier} seed {seed}")
        sys.stdout.flush()


def cmd_mut(tier, seed):
    """with SP_VH set: how many unclassified failures per property (C11 = B N S, C12 = V)"""
    rng = vlib.Rng(seed)
    cases = F.build_cases(rng, tier)
    res = F.evaluate(cases)
    known = known_classes()
    per = {"C11": [], "C12": []}
    for (o, s, origin), r in zip(cases, res):
        for cl, p, k in r["fails"] or []:
            if k == "-" or not known.has(cl, k):
                per["C12" if cl == "V" else "C11"].append((len(s), s, docgen.opts_token(o), cl, F.fail_desc(r["tree_toks"], cl, p)))
    for prop in ("C11", "C12"):
        l = sorted(per[prop], key=lambda x: x[0])
        print(f"   {prop}: {len(l)} unclassified failures" + (f"; smallest: {l[0][1]!r} opts={l[0][2][:60]} {l[0][3]} {l[0][4]['kind']} {l[0][4]['sourcepos']}" if l else "  (NOT CAUGHT)"))


def cmd_again(files):
    for fn in files:
        cases = []
        for l in open(fn):
            d = json.loads(l)
            cases.append((d["o"], bytes.fromhex(d["s"]) if d["s"] != "-" else b"", d["origin"]))
        res = F.evaluate(cases)
        summarize(cases, res, fn)


def cmd_cover(tier, seed):
    rng = vlib.Rng(seed)
    cases = F.build_cases(rng, tier)
    toks = [docgen.opts_token(o) for o, _, _ in cases]
    impl = vlib.run_lines(vlib.VH["debug"], [f"parse {t} {hx(s)}" for t, (_, s, _) in zip(toks, cases)])
    lines = [f"sp_cover {hx(s)} {r[3:]}" for (o, s, _), r in zip(cases, impl) if r.startswith("ok ")]
    rep = vlib.run_lines(vlib.DRIVER, lines)
    docs, nodes, tot_nodes = {}, {}, 0
    for r in rep:
        if not r.startswith("ok"):
            print("driver:", r[:200])
            continue
        t = r.split()
        tot_nodes += int(t[1])
        for tok in t[2:]:
            k, _, c = tok.partition("=")
            docs[k] = docs.get(k, 0) + 1
            nodes[k] = nodes.get(k, 0) + int(c)
    n = len(lines)
    print(f"== masking area, {tier} seed {seed}: {n} documents, {tot_nodes} nodes; a node counts for a class when the class predicate accepts it for SOME clause")
    for k in sorted(docs, key=lambda k: -docs[k]):
        print(f"   {k:34s} docs {100.0 * docs[k] / n:6.2f}%   nodes {100.0 * nodes[k] / tot_nodes:6.2f}%")


if __name__ == "__main__":
    a = sys.argv[1:]
    if a[0] == "run":
        cmd_run(a[1], [int(x) for x in a[2:]])
    elif a[0] == "again":
        cmd_again(a[1:])
    elif a[0] == "mut":
        cmd_mut(a[1], int(a[2]))
    elif a[0] == "cover":
        cmd_cover(a[1], int(a[2]))
