#!/usr/bin/env python3
"""seedtest.py <PROP> <mK> [--checks C19,C02] [--skip-confirm] [--stored]

Confirms a seeded change produced by an independent sub-agent (builds, the repository's own test
suite passes with it, its demonstration fails with it and passes without it) in the scratch worktree
/tmp/seed/<PROP>, then runs our checks against that patched tree through a scratch worktree of
/verif (/tmp/vt, harness repointed, VERIF_REPO set) so that /repo itself is not disturbed while
other work is running.  Results are stored under /verif/seeded/<PROP>-<mK>/."""
import json, os, re, shutil, subprocess, sys, time

SEED = "/tmp/seed"
VT = os.environ.get("SEED_VT", "/tmp/vt")
VERIF = "/verif"


def sh(cmd, cwd=None, env=None, timeout=3600):
    e = dict(os.environ)
    if env:
        e.update(env)
    p = subprocess.run(cmd, shell=True, cwd=cwd, env=e, stdout=subprocess.PIPE, stderr=subprocess.STDOUT, timeout=timeout)
    out = p.stdout.decode("utf-8", "replace")
    out = "\n".join(l for l in out.split("\n") if "conda" not in l)
    return p.returncode, out


def main():
    prop, m = sys.argv[1], sys.argv[2]
    checks = [prop]
    skip_confirm = "--skip-confirm" in sys.argv
    if "--checks" in sys.argv:
        checks = sys.argv[sys.argv.index("--checks") + 1].split(",")
    wt = f"{SEED}/{prop}"
    src = f"{SEED}/{prop}-out/{m}"
    dst = f"{VERIF}/seeded/{prop}-{m}"
    os.makedirs(dst, exist_ok=True)
    stored = "--stored" in sys.argv   # use /verif/seeded/<PROP>-<mK>/ as it is (patches ported to the current /repo HEAD)
    for f in ([] if stored else os.listdir(src)):
        if os.path.isfile(os.path.join(src, f)):
            shutil.copy(os.path.join(src, f), dst)
    patch = os.path.join(dst, "patch.diff")
    if not os.path.isdir(wt):
        # the scratch worktree of /repo is created on demand (and removed by hand when the seed runs are over)
        os.makedirs(SEED, exist_ok=True)
        sh(f"git -C /repo worktree add -q --detach {wt} HEAD")
    env = {"CARGO_TARGET_DIR": f"{wt}/target", "CARGO_NET_OFFLINE": "true"}
    log = {"property": prop, "mutation": m, "ran": []}
    sh("git checkout -- . && git clean -fdq examples", cwd=wt)
    # the seed worktree follows /repo's HEAD (hook commits may have been added since it was created)
    sh("git checkout -q --detach $(git -C /repo rev-parse HEAD)", cwd=wt)
    rc, out = sh(f"git apply --check {patch}", cwd=wt)
    log["patch_applies"] = rc == 0
    if rc != 0:
        print("patch does not apply:", out)
    demo = None
    for cand in ("demo.rs", "demo.sh"):
        if os.path.exists(os.path.join(dst, cand)):
            demo = cand
    def run_demo():
        if demo == "demo.rs":
            shutil.copy(os.path.join(dst, "demo.rs"), f"{wt}/examples/seed_demo.rs")
            sh("cargo build --offline --bin comrak", cwd=wt, env=env)    # demonstrations of CLI changes run target/debug/comrak
            rc, out = sh("cargo run --offline --example seed_demo", cwd=wt, env=env)
            os.remove(f"{wt}/examples/seed_demo.rs")
            return rc, out[-1500:]
        elif demo == "demo.sh":
            sh("cargo build --offline --bin comrak", cwd=wt, env=env)
            return sh(f"sh {os.path.join(dst, 'demo.sh')} {wt}", cwd=wt, env=env)
        return None, "no demo"
    if not skip_confirm:
        rc0, o0 = run_demo()
        log["demo_without_patch_exit"] = rc0
        sh(f"git apply {patch}", cwd=wt)
        rc, out = sh("cargo test --offline 2>&1 | grep -E '^test result|FAILED|error(\\[|:)'", cwd=wt, env=env)
        log["test_suite_with_patch"] = out.strip().split("\n")
        log["test_suite_passes"] = bool(re.search(r"276 passed; 0 failed", out)) and "FAILED" not in out
        rc1, o1 = run_demo()
        log["demo_with_patch_exit"] = rc1
        log["demo_with_patch_tail"] = o1[-600:]
        log["confirmed"] = bool(log["patch_applies"] and log["test_suite_passes"] and rc0 == 0 and rc1 not in (0, None))
    else:
        sh(f"git apply {patch}", cwd=wt)
    # ---- detection: our checks against the patched tree
    # the scratch worktree of /verif must be AT /verif's HEAD: evidence files rewritten by earlier runs made a plain
    # checkout fail silently and the checks of an old commit were run instead (found 2026-10-01; every seeded change
    # was re-run after this was repaired)
    sh(f"git -C {VERIF} worktree add --detach {VT} HEAD 2>/dev/null")
    _, want = sh("git rev-parse HEAD", cwd=VERIF)
    want = want.strip().split("\n")[-1]
    sh(f"git -C {VT} checkout -q -f --detach {want} && git -C {VT} clean -fdq", cwd=VT)
    _, have = sh("git rev-parse HEAD", cwd=VT)
    if have.strip().split("\n")[-1] != want:
        print("scratch worktree is not at /verif HEAD:", have, want)
        sys.exit(2)
    sh(f"sed -i 's#path = \"/repo\"#path = \"{wt}\"#' harness/Cargo.toml", cwd=VT)
    det = {}
    for c in checks:
        t0 = time.time()
        rc, out = sh(f"./check {c} quick", cwd=VT, env={"VERIF_REPO": wt}, timeout=3000)
        lines = [l for l in out.split("\n") if l.startswith(("VIOLATION", c + " "))]
        det[c] = {"exit": rc, "wall_s": round(time.time() - t0, 1), "lines": [l[:300] for l in lines[:8]],
                  "violations": sum(1 for l in lines if l.startswith("VIOLATION")),
                  "with_failing_input": sum(1 for l in lines if l.startswith("VIOLATION") and "no-failing-input-found" not in l)}
        whats = []
        for l in lines:
            rp1 = re.search(r"replay=(\S+)", l)
            if rp1 and os.path.exists(rp1.group(1)):
                try:
                    rj = json.load(open(rp1.group(1)))
                    whats.append((rj.get("kind"), (rj.get("what") or str(rj.get("broken")))[:200]))
                except Exception:
                    pass
        det[c]["replays"] = whats[:8]
        rp = re.search(r"replay=(\S+)", out)
        if rp and os.path.exists(rp.group(1)):
            try:
                r = json.load(open(rp.group(1)))
                det[c]["replay_kind"] = r.get("kind")
                det[c]["replay_what"] = (r.get("what") or str(r.get("broken")))[:300]
            except Exception:
                pass
        print(c, "exit", rc, lines[:2])
    log["detection"] = det
    # detected = the check ran, exited 1 and printed a VIOLATION line (a crash of the check is not a detection)
    log["detected_by"] = [c for c in det if det[c]["exit"] == 1 and det[c].get("violations", 0) > 0]
    log["check_crashed"] = [c for c in det if det[c]["exit"] not in (0, 1) or (det[c]["exit"] == 1 and det[c].get("violations", 0) == 0)]
    sh("git checkout -- . && git clean -fdq examples", cwd=wt)
    sh("git checkout -- harness/Cargo.toml", cwd=VT)
    meta_path = os.path.join(dst, "meta.json")
    meta = {}
    if os.path.exists(meta_path):
        try:
            meta = json.load(open(meta_path))
        except Exception:
            meta = {"agent_meta_unparseable": True}
    if skip_confirm and isinstance(meta.get("our_confirmation_and_detection"), dict):
        old = meta["our_confirmation_and_detection"]
        for k in ("demo_without_patch_exit", "test_suite_with_patch", "test_suite_passes", "demo_with_patch_exit", "demo_with_patch_tail", "confirmed"):
            if k in old and k not in log:
                log[k] = old[k]
    _, head = sh("git rev-parse --short HEAD", cwd="/repo")
    _, vhead = sh("git rev-parse --short HEAD", cwd=VERIF)
    log["repo_head"] = head.strip().split("\n")[-1]
    log["verif_head"] = vhead.strip().split("\n")[-1]
    meta["our_confirmation_and_detection"] = log
    json.dump(meta, open(meta_path, "w"), indent=1)
    print(json.dumps({k: log.get(k) for k in ("confirmed", "test_suite_passes", "demo_without_patch_exit", "demo_with_patch_exit", "detected_by", "check_crashed")}))


if __name__ == "__main__":
    main()
