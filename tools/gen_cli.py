"""Translator item `cli`: /repo/src/main.rs -> coq/Gen/Cli.v  (DESIGN §3.6, property C16).

Recognisers (each fails with TranslatorError on a shape it does not know):
  * EXIT_* constants
  * struct Cli: every field with its #[arg(...)] attribute (long/short name, kind, default,
    conflicts_with_all, value_delimiter, allow_hyphen_values); #[cfg(feature = ..)] fields are recorded
    as gated and left out (default feature set = cli, syntect, bon)
  * enum Extension / Format / ListStyle with clap's kebab-case value names (#[value(name = ..)] honoured)
  * impl From<ListStyle> for ListStyleType
  * the three ...Options::builder() chains: every `.field(expr)` / `.maybe_field(expr)` becomes one
    field of the record `copts`; expr grammar:  exts.contains(&Extension::X) | cli.f | cli.f.into()
    | e || e | e && e | !e | (e)
  * fn cli_with_config: shape audit (the hand model is Model/CliModel.v) + constants it uses
  * fn main: in-place precondition, highlighter selection, input reading, formatter selection,
    sink selection, final exit code
"""
import re


def run(read, strip_comments, TranslatorError, HEADER, coq_bytes, rust_bytes_literal, coq_string_lit):
    IT = "cli"

    def fail(msg):
        raise TranslatorError(IT, msg)

    raw = read("src/main.rs")
    src = strip_comments(raw)

    def norm(s):
        return re.sub(r"\s+", " ", s).strip()

    def balanced(s, start, open_ch, close_ch):
        """s[start] == open_ch; return index just after the matching close (string literals skipped)."""
        assert s[start] == open_ch
        depth = 0
        i = start
        while i < len(s):
            c = s[i]
            if c == '"':
                i += 1
                while s[i] != '"':
                    if s[i] == "\\":
                        i += 1
                    i += 1
            elif c == "'" and re.match(r"'(\\.|[^\\'])'", s[i:]):
                i += len(re.match(r"'(\\.|[^\\'])'", s[i:]).group(0)) - 1
            elif c == open_ch:
                depth += 1
            elif c == close_ch:
                depth -= 1
                if depth == 0:
                    return i + 1
            i += 1
        fail("unbalanced %s%s" % (open_ch, close_ch))

    def split_top(s, sep=","):
        parts, depth, cur, i = [], 0, "", 0
        while i < len(s):
            c = s[i]
            if c == '"':
                j = i + 1
                while s[j] != '"':
                    if s[j] == "\\":
                        j += 1
                    j += 1
                cur += s[i:j + 1]
                i = j + 1
                continue
            m = re.match(r"'(\\.|[^\\'])'", s[i:])
            if c == "'" and m:
                cur += m.group(0)
                i += len(m.group(0))
                continue
            if c in "([{":
                depth += 1
            elif c in ")]}":
                depth -= 1
            if c == sep and depth == 0:
                parts.append(cur)
                cur = ""
            else:
                cur += c
            i += 1
        if cur.strip():
            parts.append(cur)
        return [p.strip() for p in parts]

    def kebab(name):
        # clap's default rename rule for ValueEnum variants and long flags (heck::ToKebabCase)
        s = re.sub(r"(?<=[a-z0-9])(?=[A-Z])", "-", name)
        s = re.sub(r"(?<=[A-Z])(?=[A-Z][a-z])", "-", s)
        return s.lower().replace("_", "-")

    # ---------------------------------------------------------------- exit codes
    exits = re.findall(r"const (EXIT_[A-Z_]+): i32 = (\d+);", src)
    if [n for n, _ in exits] != ["EXIT_SUCCESS", "EXIT_PARSE_CONFIG", "EXIT_READ_INPUT", "EXIT_CHECK_FILE_NUM"]:
        fail("exit-code constants changed: %r" % (exits,))
    exitv = {n: int(v) for n, v in exits}

    # ---------------------------------------------------------------- enums
    def parse_enum(name):
        m = re.search(r"enum %s \{" % name, src)
        if not m:
            fail("enum %s not found" % name)
        end = balanced(src, m.end() - 1, "{", "}")
        body = src[m.end():end - 1]
        # the derive line just above must contain ValueEnum
        head = src[:m.start()].rstrip().split("\n")[-1]
        if "ValueEnum" not in head:
            fail("enum %s does not derive ValueEnum (line above: %s)" % (name, head))
        out = []
        for part in split_top(body):
            if not part:
                continue
            pm = re.fullmatch(r"(?:#\[value\(name = \"([^\"]+)\"\)\]\s*)?([A-Z][A-Za-z0-9]*)", part)
            if not pm:
                fail("enum %s: unrecognised variant `%s`" % (name, part))
            out.append((pm.group(2), pm.group(1) or kebab(pm.group(2))))
        if not out:
            fail("enum %s is empty" % name)
        return out

    ext_variants = parse_enum("Extension")
    fmt_variants = parse_enum("Format")
    ls_variants = parse_enum("ListStyle")

    # impl From<ListStyle> for ListStyleType
    m = re.search(r"impl From<ListStyle> for ListStyleType \{\s*fn from\(style: ListStyle\) -> Self \{\s*match style \{(.*?)\}\s*\}\s*\}", src, re.S)
    if not m:
        fail("impl From<ListStyle> for ListStyleType not found")
    ls_into = []
    for arm in split_top(m.group(1)):
        am = re.fullmatch(r"ListStyle::(\w+) => Self::(\w+)", arm)
        if not am:
            fail("From<ListStyle>: unrecognised arm `%s`" % arm)
        ls_into.append((am.group(1), am.group(2)))
    if [a for a, _ in ls_into] != [v for v, _ in ls_variants]:
        fail("From<ListStyle> arms do not cover the enum in order: %r" % (ls_into,))
    lst_variants = []
    for _, t in ls_into:
        if t not in lst_variants:
            lst_variants.append(t)
    for t in ("Dash", "Plus", "Star"):
        if t not in lst_variants:
            lst_variants.append(t)  # comrak::ListStyleType has exactly these three

    # ---------------------------------------------------------------- struct Cli
    m = re.search(r"struct Cli \{", src)
    if not m:
        fail("struct Cli not found")
    end = balanced(src, m.end() - 1, "{", "}")
    body = src[m.end():end - 1]
    fields = []   # dict(name, ty, long, short, kind, default, attrs..)
    gated = []
    i = 0
    while True:
        while i < len(body) and body[i].isspace():
            i += 1
        if i >= len(body):
            break
        attrs = []
        while body[i] == "#":
            if body[i + 1] != "[":
                fail("struct Cli: stray # at %d" % i)
            j = balanced(body, i + 1, "[", "]")
            attrs.append(body[i + 2:j - 1])
            i = j
            while body[i].isspace():
                i += 1
        fm = re.match(r"([a-z_][a-z0-9_]*)\s*:\s*", body[i:])
        if not fm:
            fail("struct Cli: expected a field at `%s`" % body[i:i + 40])
        name = fm.group(1)
        i += fm.end()
        # type up to the top-level comma
        depth, j = 0, i
        while j < len(body) and not (body[j] == "," and depth == 0):
            if body[j] == "<":
                depth += 1
            elif body[j] == ">":
                depth -= 1
            j += 1
        ty = norm(body[i:j])
        i = j + 1
        f = {"name": name, "ty": ty, "long": None, "short": None, "default": None, "conflicts": [], "delimiter": None,
             "hyphen": False, "value_enum": False, "positional": False}
        cfg = [a for a in attrs if a.startswith("cfg(")]
        argattrs = [a for a in attrs if a.startswith("arg(")]
        other = [a for a in attrs if not a.startswith("cfg(") and not a.startswith("arg(")]
        if other:
            fail("struct Cli field %s: unknown attribute #[%s]" % (name, other[0]))
        if len(argattrs) != 1:
            fail("struct Cli field %s: expected exactly one #[arg(..)]" % name)
        if cfg:
            if cfg != ['cfg(feature = "shortcodes")']:
                fail("struct Cli field %s: unknown cfg gate %r" % (name, cfg))
            gated.append((name, "shortcodes"))
            continue
        for item in split_top(argattrs[0][4:-1]):
            item = norm(item)
            if item == "short":
                f["short"] = name[0]
            elif item == "long":
                f["long"] = name.replace("_", "-")
            elif item == "value_enum":
                f["value_enum"] = True
            elif re.fullmatch(r"short = '(.)'", item):
                f["short"] = re.fullmatch(r"short = '(.)'", item).group(1)
            elif re.fullmatch(r'long = "([a-z-]+)"', item):
                f["long"] = re.fullmatch(r'long = "([a-z-]+)"', item).group(1)
            elif re.fullmatch(r'value_name = "([A-Z_]+)"', item):
                f["value_name"] = re.fullmatch(r'value_name = "([A-Z_]+)"', item).group(1)
            elif re.fullmatch(r"value_delimiter = '(.)'", item):
                f["delimiter"] = re.fullmatch(r"value_delimiter = '(.)'", item).group(1)
            elif item == "allow_hyphen_values = true":
                f["hyphen"] = True
            elif re.fullmatch(r"default_value(_t)? = (.+)", item):
                f["default"] = re.fullmatch(r"default_value(_t)? = (.+)", item).group(2)
            elif re.fullmatch(r"conflicts_with_all\(\[(.*)\]\)", item):
                f["conflicts"] = re.findall(r'"([a-z_]+)"', re.fullmatch(r"conflicts_with_all\(\[(.*)\]\)", item).group(1))
            else:
                fail("struct Cli field %s: unknown #[arg] item `%s`" % (name, item))
        if f["long"] is None and f["short"] is None:
            f["positional"] = True
        fields.append(f)

    enum_types = {"Format": fmt_variants, "ListStyle": ls_variants}
    KIND = {"bool": "bool", "Option<String>": "optstring", "String": "string", "usize": "num",
            "Vec<Extension>": "multi", "Option<PathBuf>": "optpath", "Option<Vec<PathBuf>>": "files",
            "Format": "enum", "ListStyle": "enum"}
    for f in fields:
        if f["ty"] not in KIND:
            fail("struct Cli field %s: unknown type %s" % (f["name"], f["ty"]))
        f["kind"] = KIND[f["ty"]]
        if f["positional"] != (f["kind"] == "files"):
            fail("struct Cli field %s: positional/kind mismatch" % f["name"])
        if f["kind"] == "multi" and not (f["value_enum"] and f["delimiter"] == ","):
            fail("struct Cli field %s: Vec<Extension> must be value_enum with delimiter ','" % f["name"])
        if f["kind"] == "enum" and not f["value_enum"]:
            fail("struct Cli field %s: enum without value_enum" % f["name"])
        # defaults
        d = f["default"]
        if f["kind"] == "bool":
            if d is not None:
                fail("bool flag %s has a default" % f["name"])
            f["defv"] = "false"
        elif f["kind"] == "num":
            if d is None or not re.fullmatch(r"\d+", d):
                fail("numeric flag %s: default `%s`" % (f["name"], d))
            f["defv"] = d
        elif f["kind"] == "enum":
            dm = re.fullmatch(r"%s::(\w+)" % f["ty"], d or "")
            if not dm or dm.group(1) not in [v for v, _ in enum_types[f["ty"]]]:
                fail("enum flag %s: default `%s`" % (f["name"], d))
            f["defv"] = dm.group(1)
        elif f["kind"] == "string":
            if d == "get_default_config_path()":
                f["defv"] = None   # computed at run time (XDG); see default_config_path_* below
            else:
                dm = re.fullmatch(r'"([^"\\]*)"', d or "")
                if not dm:
                    fail("string flag %s: default `%s`" % (f["name"], d))
                f["defv"] = dm.group(1)
        else:
            if d is not None:
                fail("flag %s of kind %s has a default" % (f["name"], f["kind"]))
            f["defv"] = None
    byname = {f["name"]: f for f in fields}
    for need in ("files", "config_file", "inplace", "extensions", "format", "output", "syntax_highlighting", "gfm"):
        if need not in byname:
            fail("struct Cli: field %s is gone" % need)
    if byname["inplace"]["conflicts"] != ["format", "output"]:
        fail("inplace conflicts_with_all changed: %r" % byname["inplace"]["conflicts"])
    for f in fields:
        if f["conflicts"] and f["name"] != "inplace":
            fail("unexpected conflicts on %s" % f["name"])

    # get_default_config_path (unix flavour)
    m = re.search(r'#\[cfg\(all\(not\(windows\), not\(target_arch = "wasm32"\)\)\)\]\s*fn get_default_config_path\(\) -> String \{(.*?)\n\}', src, re.S)
    if not m:
        fail("get_default_config_path (unix) not found")
    g = norm(m.group(1))
    for frag in ('xdg::BaseDirectories::with_prefix("comrak")', 'xdg_dirs.place_config_file("config")', '"comrak.config".into()'):
        if frag not in g:
            fail("get_default_config_path: missing `%s`" % frag)

    # ---------------------------------------------------------------- cli_with_config (shape audit)
    m = re.search(r"fn cli_with_config\(\) -> Cli \{", src)
    if not m:
        fail("fn cli_with_config not found")
    end = balanced(src, m.end() - 1, "{", "}")
    cwc = norm(src[m.end():end - 1])
    expect_cwc = norm('''
        let cli = Cli::parse();
        let config_file_path = &cli.config_file;
        if config_file_path == "none" { return cli; }
        if let Ok(args) = fs::read_to_string(config_file_path) {
            match shell_words::split(&args) {
                Ok(mut args) => {
                    for (i, arg) in env::args_os().enumerate() {
                        if let Some(s) = arg.to_str() { args.insert(i, s.into()); }
                    }
                    Cli::parse_from(args)
                }
                Err(e) => {
                    eprintln!("failed to parse {}: {}", config_file_path, e);
                    process::exit(EXIT_PARSE_CONFIG);
                }
            }
        } else { cli }''')
    if cwc != expect_cwc:
        fail("cli_with_config(): body changed (Model/CliModel.v transcribes it)\n  found:    %s\n  expected: %s" % (cwc, expect_cwc))

    # ---------------------------------------------------------------- main
    m = re.search(r"fn main\(\) -> Result<\(\), Box<dyn Error>> \{", src)
    if not m:
        fail("fn main not found")
    end = balanced(src, m.end() - 1, "{", "}")
    mainb = src[m.end():end - 1]
    mainn = norm(mainb)

    def need(frag, what):
        if norm(frag) not in mainn:
            fail("main(): %s changed, missing `%s`" % (what, norm(frag)))

    if not mainn.startswith("let cli = cli_with_config();"):
        fail("main(): does not start with cli_with_config()")
    # in-place precondition
    pm = re.search(norm(r'''if cli\.inplace \{ if let Some\(ref files\) = cli\.files \{ if files\.len\(\) != (\d+) \{
        eprintln!\("[^"]*"\); process::exit\((EXIT_[A-Z_]+)\); \} \} else \{
        eprintln!\("[^"]*"\); process::exit\((EXIT_[A-Z_]+)\); \} \}'''), mainn)
    if not pm:
        fail("main(): in-place precondition block changed")
    inplace_nfiles, inplace_exit_a, inplace_exit_b = int(pm.group(1)), pm.group(2), pm.group(3)
    for e in (inplace_exit_a, inplace_exit_b):
        if e not in exitv:
            fail("unknown exit constant %s" % e)
    need("let exts = &cli.extensions;", "extension list binding")

    # builder chains
    def chain(var, ty):
        cm = re.search(r"let %s = %s::builder\(\)" % (var, ty), mainb)
        if not cm:
            fail("main(): `let %s = %s::builder()` not found" % (var, ty))
        i = cm.end()
        calls = []
        while True:
            while mainb[i].isspace():
                i += 1
            if mainb[i] == ";":
                i += 1
                break
            mm = re.match(r"\.([a-z_][a-z0-9_]*)\(", mainb[i:])
            if not mm:
                fail("main(): %s chain: unexpected text `%s`" % (ty, mainb[i:i + 40]))
            j = balanced(mainb, i + mm.end() - 1, "(", ")")
            calls.append((mm.group(1), norm(mainb[i + mm.end():j - 1])))
            i = j
        return calls, i

    ext_calls, ext_end = chain("extension", "ExtensionOptions")
    rest = norm(mainb[ext_end:])
    if not rest.startswith('#[cfg(feature = "shortcodes")] let extension = extension.shortcodes(cli.gemojis); let extension = extension.build();'):
        fail("main(): statements after the ExtensionOptions chain changed: `%s`" % rest[:160])
    if ("gemojis", "shortcodes") not in gated:
        fail("gemojis is no longer gated by the shortcodes feature")
    parse_calls, _ = chain("parse", "ParseOptions")
    render_calls, _ = chain("render", "RenderOptions")
    for nm, calls in (("parse", parse_calls), ("render", render_calls)):
        if calls[-1] != ("build", ""):
            fail("main(): %s chain does not end in .build()" % nm)
        calls.pop()
    if any(n == "build" for n, _ in ext_calls):
        fail("main(): ExtensionOptions chain shape changed (.build() inside)")
    need("let options = Options { extension, parse, render, };", "Options assembly")

    # expression translation
    extnames = [v for v, _ in ext_variants]
    used_exts = []

    def tr_expr(e, ctx):
        """-> (coq, type) ; type in bool | optstring | num | string | lst"""
        toks = re.findall(r"exts\.contains\(&Extension::\w+\)|cli\.[a-z_][a-z0-9_]*(?:\.into\(\))?|\|\||&&|!|\(|\)|\S+?", e)
        if "".join(toks) != e.replace(" ", ""):
            fail("%s: cannot tokenise `%s`" % (ctx, e))
        pos = [0]

        def peek():
            return toks[pos[0]] if pos[0] < len(toks) else None

        def eat():
            t = toks[pos[0]]
            pos[0] += 1
            return t

        def atom():
            t = peek()
            if t is None:
                fail("%s: unexpected end of `%s`" % (ctx, e))
            if t == "!":
                eat()
                c, ty = atom()
                if ty != "bool":
                    fail("%s: `!` applied to a non-boolean in `%s`" % (ctx, e))
                return "negb (%s)" % c, "bool"
            if t == "(":
                eat()
                c, ty = disj()
                if eat() != ")":
                    fail("%s: missing `)` in `%s`" % (ctx, e))
                return "(%s)" % c, ty
            mm = re.fullmatch(r"exts\.contains\(&Extension::(\w+)\)", t)
            if mm:
                eat()
                if mm.group(1) not in extnames:
                    fail("%s: unknown Extension::%s" % (ctx, mm.group(1)))
                used_exts.append(mm.group(1))
                return "ext_mem E_%s (c_extensions c)" % mm.group(1), "bool"
            mm = re.fullmatch(r"cli\.([a-z_][a-z0-9_]*)(\.into\(\))?", t)
            if mm:
                eat()
                fn = mm.group(1)
                if fn not in byname:
                    fail("%s: cli.%s is not a field of Cli" % (ctx, fn))
                k = byname[fn]["kind"]
                if mm.group(2):
                    if byname[fn]["ty"] != "ListStyle":
                        fail("%s: .into() on cli.%s of type %s" % (ctx, fn, byname[fn]["ty"]))
                    return "list_style_into (c_%s c)" % fn, "lst"
                if k not in ("bool", "optstring", "num", "string"):
                    fail("%s: cli.%s of kind %s used as an option value" % (ctx, fn, k))
                return "c_%s c" % fn, k
            fail("%s: unrecognised expression shape `%s` (at `%s`)" % (ctx, e, t))

        def conj():
            c, ty = atom()
            while peek() == "&&":
                eat()
                c2, ty2 = atom()
                if ty != "bool" or ty2 != "bool":
                    fail("%s: && over non-booleans in `%s`" % (ctx, e))
                c = "%s && %s" % (c, c2)
            return c, ty

        def disj():
            c, ty = conj()
            while peek() == "||":
                eat()
                c2, ty2 = conj()
                if ty != "bool" or ty2 != "bool":
                    fail("%s: || over non-booleans in `%s`" % (ctx, e))
                c = "%s || %s" % (c, c2)
            return c, ty

        c, ty = disj()
        if pos[0] != len(toks):
            fail("%s: trailing tokens in `%s`" % (ctx, e))
        return c, ty

    copts = []   # (group, field, coq expr, type, mentions_gfm)
    seen = set()
    for group, calls in (("extension", ext_calls), ("parse", parse_calls), ("render", render_calls)):
        for name, expr in calls:
            maybe = name.startswith("maybe_")
            fld = name[6:] if maybe else name
            if fld in seen:
                fail("option field %s set twice" % fld)
            seen.add(fld)
            c, ty = tr_expr(expr, "%s.%s" % (group, name))
            if maybe != (ty == "optstring"):
                fail("%s.%s: maybe_/Option mismatch (type %s)" % (group, name, ty))
            copts.append((group, fld, c, ty, "c_gfm c" in c))

    # every Options field of the default feature set, in declaration order: set by the chains, or left at
    # the builder default (bon: #[builder(default)] = Default::default(); Option<_> fields default to None)
    psrc = strip_comments(read("src/parser/mod.rs"))
    setmap = {(g, f): (cq, ty, gf) for g, f, cq, ty, gf in copts}
    RTY = {"bool": "bool", "usize": "num", "Option<String>": "optstring", "ListStyleType": "lst"}
    DEFAULT = {"bool": "false", "num": "0%N", "optstring": "None", "lst": None}
    lm = re.search(r"pub enum ListStyleType \{(.*?)\}", psrc, re.S)
    if not lm:
        fail("enum ListStyleType not found")
    dm = re.search(r"#\[default\]\s*(\w+)\s*=", lm.group(1))
    lst_all = re.findall(r"(\w+)\s*=\s*\d+", lm.group(1))
    if not dm or sorted(lst_all) != sorted(lst_variants):
        fail("enum ListStyleType changed: variants %r, default %r" % (lst_all, dm and dm.group(1)))
    DEFAULT["lst"] = "LST_" + dm.group(1)
    unset = []
    full = []   # (group, field, coq expr, type, mentions_gfm, set_by_chain)
    for group, sname in (("extension", "ExtensionOptions"), ("parse", "ParseOptions"), ("render", "RenderOptions")):
        sm = re.search(r"pub struct %s(?:<'c>)? \{" % sname, psrc)
        if not sm:
            fail("struct %s not found in src/parser/mod.rs" % sname)
        send = balanced(psrc, sm.end() - 1, "{", "}")
        sbody = psrc[sm.end():send - 1]
        allf = re.findall(r"((?:#\[[^\n]*\]\s*)*)pub ([a-z_][a-z0-9_]*)\s*:\s*([^\n]*?),\s*\n", sbody)
        names = []
        for at, n, rty in allf:
            if 'cfg(feature = "shortcodes")' in at:
                continue
            names.append(n)
            rty = norm(rty)
            if rty not in RTY:
                # callbacks / rewriters: no flag can set them
                if (group, n) in setmap:
                    fail("%s chain sets %s of type %s" % (group, n, rty))
                if not rty.startswith("Option<Arc<dyn "):
                    fail("%s.%s has a type the translator does not know: %s" % (sname, n, rty))
                unset.append((group, n))
                continue
            ty = RTY[rty]
            if (group, n) in setmap:
                cq, sty, gf = setmap[(group, n)]
                if sty != ty:
                    fail("%s.%s: builder argument of type %s for a field of type %s" % (group, n, sty, rty))
                full.append((group, n, cq, ty, gf, True))
            else:
                if ty != "optstring" and "builder(default)" not in at:
                    fail("%s.%s is not set by main() and has no #[builder(default)]" % (sname, n))
                unset.append((group, n))
                full.append((group, n, DEFAULT[ty], ty, False, False))
        for g, f, _, _, _ in copts:
            if g == group and f not in names:
                fail("%s chain sets %s which is not a field of %s" % (group, f, sname))
    copts = [(g, f, cq, ty, gf) for g, f, cq, ty, gf, _ in full]

    # highlighter
    need('''let theme = cli.syntax_highlighting; if theme.is_empty() || theme == "none" { syntax_highlighter = None; }
            else { adapter = SyntectAdapter::new(Some(&theme)); syntax_highlighter = Some(&adapter); }''', "highlighter selection")
    # input
    need('''match cli.files { None => { std::io::stdin().read_to_end(&mut s)?; } Some(ref fs) => { for f in fs {
            match fs::File::open(f) { Ok(mut io) => { io.read_to_end(&mut s)?; }
            Err(e) => { eprintln!("failed to read {}: {}", f.display(), e); process::exit(EXIT_READ_INPUT); } } } } };''', "input reading")
    need("let root = comrak::parse_document(&arena, &String::from_utf8(s)?, &options);", "parse call")
    # formatter
    fm = re.search(norm(r'''let formatter = if cli\.inplace \{ comrak::format_(\w+)_with_plugins \} else \{ match cli\.format \{(.*?)\} \};'''), mainn)
    if not fm:
        fail("main(): formatter selection changed")
    inplace_renderer = fm.group(1)
    arms_txt = fm.group(2)
    ARM = r"Format::(\w+) => (\{ plugins\.render\.codefence_syntax_highlighter = syntax_highlighter; comrak::format_(\w+)_with_plugins \}|comrak::format_(\w+)_with_plugins),?"
    arms = re.findall(ARM, arms_txt)
    if re.sub(ARM, "", arms_txt).strip():
        fail("main(): formatter match arms not recognised: `%s`" % re.sub(ARM, "", arms_txt).strip())
    fmt_arms = []
    for v, whole, r1, r2 in arms:
        fmt_arms.append((v, r1 or r2, whole.startswith("{")))
    if [v for v, _, _ in fmt_arms] != [v for v, _ in fmt_variants]:
        fail("main(): formatter arms do not cover Format in order")
    rnames = {"html": "R_html", "xml": "R_xml", "commonmark": "R_commonmark"}
    for _, r, _ in fmt_arms + [(None, inplace_renderer, False)]:
        if r not in rnames:
            fail("main(): unknown formatter format_%s_with_plugins" % r)
    # sink
    need('''if let Some(output_filename) = cli.output { let mut bw = BufWriter::new(fs::File::create(output_filename)?);
            formatter(root, &options, &mut bw, &plugins)?; bw.flush()?; }
            else if cli.inplace { let output_filename = cli.files.unwrap().first().unwrap().clone();
            let mut bw = BufWriter::new(fs::File::create(output_filename)?); formatter(root, &options, &mut bw, &plugins)?; bw.flush()?; }
            else { let stdout = std::io::stdout(); let mut bw = BufWriter::new(stdout.lock());
            formatter(root, &options, &mut bw, &plugins)?; bw.flush()?; };''', "sink selection")
    if not mainn.endswith("process::exit(EXIT_SUCCESS);"):
        fail("main(): does not end in process::exit(EXIT_SUCCESS)")
    em = re.search(r'eprintln!\("failed to read \{\}: \{\}", f\.display\(\), e\); process::exit\((EXIT_[A-Z_]+)\);', mainn)
    read_exit = em.group(1)

    # ---------------------------------------------------------------- emit Coq
    def bl(s):
        return coq_bytes(list(s.encode("utf-8")))

    TY = {"bool": "bool", "optstring": "option bytes", "num": "N", "string": "bytes", "lst": "list_style_type",
          "multi": "list extension", "optpath": "option bytes", "files": "option (list bytes)"}
    s = HEADER.replace("Import ListNotations.", "From Coq Require Import Bool ZArith.\nImport ListNotations.\nLocal Open Scope bool_scope.")
    s += "(* ---- enums (clap ValueEnum; value names are clap's kebab-case unless #[value(name)]) *)\n"
    s += "Inductive extension := %s.\n" % " | ".join("E_" + v for v, _ in ext_variants)
    s += "Definition all_extensions : list extension := [%s].\n" % "; ".join("E_" + v for v, _ in ext_variants)
    s += "Definition extension_index (e : extension) : nat :=\n  match e with %s end.\n" % " | ".join("E_%s => %d" % (v, i) for i, (v, _) in enumerate(ext_variants))
    s += "Definition extension_eqb (a b : extension) : bool := Nat.eqb (extension_index a) (extension_index b).\n"
    s += "Definition extension_name (e : extension) : string :=\n  match e with %s end.\n" % " | ".join("E_%s => %s" % (v, coq_string_lit(n)) for v, n in ext_variants)
    s += "(* Vec::contains *)\nDefinition ext_mem (e : extension) (l : list extension) : bool := existsb (extension_eqb e) l.\n\n"
    s += "Inductive format := %s.\n" % " | ".join("F_" + v for v, _ in fmt_variants)
    s += "Definition all_formats : list format := [%s].\n" % "; ".join("F_" + v for v, _ in fmt_variants)
    s += "Definition format_name (f : format) : string :=\n  match f with %s end.\n" % " | ".join("F_%s => %s" % (v, coq_string_lit(n)) for v, n in fmt_variants)
    s += "Inductive list_style := %s.\n" % " | ".join("LS_" + v for v, _ in ls_variants)
    s += "Definition all_list_styles : list list_style := [%s].\n" % "; ".join("LS_" + v for v, _ in ls_variants)
    s += "Definition list_style_name (l : list_style) : string :=\n  match l with %s end.\n" % " | ".join("LS_%s => %s" % (v, coq_string_lit(n)) for v, n in ls_variants)
    s += "(* comrak::ListStyleType and impl From<ListStyle> for ListStyleType *)\n"
    s += "Inductive list_style_type := %s.\n" % " | ".join("LST_" + v for v in lst_variants)
    s += "Definition list_style_type_name (l : list_style_type) : string :=\n  match l with %s end.\n" % " | ".join("LST_%s => %s" % (v, coq_string_lit(v.lower())) for v in lst_variants)
    s += "Definition list_style_into (l : list_style) : list_style_type :=\n  match l with %s end.\n\n" % " | ".join("LS_%s => LST_%s" % (a, b) for a, b in ls_into)

    s += "(* ---- exit codes *)\n"
    for n, v in exits:
        s += "Definition %s : Z := %d%%Z.\n" % (n, int(v))
    s += "\n(* ---- struct Cli (default feature set; gated out: %s) *)\n" % ", ".join("%s[%s]" % g for g in gated)
    s += "Record cli := {\n"
    rec = []
    for f in fields:
        ty = TY[f["kind"]] if f["kind"] != "enum" else ("format" if f["ty"] == "Format" else "list_style")
        rec.append("  c_%s : %s" % (f["name"], ty))
    s += ";\n".join(rec) + "\n}.\n\n"

    s += "Inductive flag_kind := K_bool | K_num | K_string | K_optstring | K_optpath | K_enum | K_multi | K_files.\n"
    s += "(* field name, long name (empty for the positional), short name, kind, default as clap prints it *)\n"
    s += "Record flag := { fl_field : string; fl_long : string; fl_short : string; fl_kind : flag_kind; fl_default : string; fl_append : bool }.\n"
    s += "Definition cli_flags : list flag := [\n"
    rows = []
    for f in fields:
        dv = f["defv"]
        if f["kind"] == "enum":
            dv = dict(enum_types[f["ty"]])[dv]
        if f["name"] == "config_file":
            dv = "<xdg-config>/comrak/config"
        if dv is None or f["kind"] == "bool":
            dv = ""
        rows.append("  {| fl_field := %s; fl_long := %s; fl_short := %s; fl_kind := K_%s; fl_default := %s; fl_append := %s |}" % (
            coq_string_lit(f["name"]), coq_string_lit(f["long"] or ""), coq_string_lit(f["short"] or ""), f["kind"], coq_string_lit(dv),
            "true" if f["kind"] in ("multi", "files") else "false"))
    s += ";\n".join(rows) + "\n].\n"
    s += "Definition inplace_conflicts : list string := [%s].\n" % "; ".join(coq_string_lit(byname[x]["long"]) for x in byname["inplace"]["conflicts"])
    s += "Definition gated_flags : list (string * string) := [%s].\n" % "; ".join("(%s, %s)" % (coq_string_lit(a), coq_string_lit(b)) for a, b in gated)
    s += "Definition config_none_word : bytes := %s.  (* --config-file none *)\n" % bl("none")
    s += "Definition highlight_none_word : bytes := %s.\n\n" % bl("none")

    # default cli
    s += "(* clap defaults when nothing is given (config_file: the run-time XDG path, a parameter here) *)\n"
    s += "Definition default_cli (config_path : bytes) : cli := {|\n"
    rows = []
    for f in fields:
        k = f["kind"]
        if f["name"] == "config_file":
            v = "config_path"
        elif k == "bool":
            v = "false"
        elif k == "num":
            v = "%s%%N" % f["defv"]
        elif k == "string":
            v = bl(f["defv"])
        elif k == "enum":
            v = ("F_" if f["ty"] == "Format" else "LS_") + f["defv"]
        elif k == "multi":
            v = "[]"
        else:
            v = "None"
        rows.append("  c_%s := %s" % (f["name"], v))
    s += ";\n".join(rows) + "\n|}.\n\n"

    # copts
    s += "(* ---- Options as assembled by main(): one field per data field of the three option structs, in declaration\n   order; a field no builder call sets has the builder default *)\n"
    s += "Record copts := {\n" + ";\n".join("  o_%s : %s" % (fld, TY[ty]) for _, fld, _, ty, _ in copts) + "\n}.\n\n"
    s += "Definition options_of_cli (c : cli) : copts := {|\n"
    s += ";\n".join("  o_%s := %s" % (fld, c) for _, fld, c, _, _ in copts) + "\n|}.\n\n"
    s += "Definition copts_group : list (string * string) := [%s].\n" % "; ".join("(%s, %s)" % (coq_string_lit(f), coq_string_lit(g)) for g, f, _, _, _ in copts)
    s += "(* Options fields (default features) that no builder call sets: they keep the builder default *)\n"
    s += "Definition unset_option_fields : list (string * string) := [%s].\n" % "; ".join("(%s, %s)" % (coq_string_lit(g), coq_string_lit(n)) for g, n in unset)
    s += "(* option fields whose expression mentions cli.gfm *)\n"
    s += "Definition gfm_fields : list string := [%s].\n\n" % "; ".join(coq_string_lit(f) for _, f, _, _, g in copts if g)

    # generic views used by the driver
    s += "(* ---- generic views (driver glue): cli from an association list, copts to one *)\n"
    s += "Inductive cval := CBool (b : bool) | CNum (n : N) | CStr (s : bytes) | COptStr (s : option bytes) | CExts (l : list extension)\n"
    s += "  | CFormat (f : format) | CListStyle (l : list_style) | CListStyleType (l : list_style_type) | CFiles (l : option (list bytes)).\n"
    s += "Fixpoint assoc_get (k : string) (a : list (string * cval)) : option cval :=\n  match a with [] => None | (k', v) :: r => if String.eqb k k' then Some v else assoc_get k r end.\n"
    s += "Definition cli_of_assoc (config_path : bytes) (a : list (string * cval)) : cli :=\n  let d := default_cli config_path in {|\n"
    rows = []
    for f in fields:
        k = f["kind"]
        ctor = {"bool": "CBool", "num": "CNum", "string": "CStr", "optstring": "COptStr", "optpath": "COptStr", "multi": "CExts", "files": "CFiles"}.get(k)
        if k == "enum":
            ctor = "CFormat" if f["ty"] == "Format" else "CListStyle"
        rows.append("  c_%s := match assoc_get %s a with Some (%s v) => v | _ => c_%s d end" % (f["name"], coq_string_lit(f["name"]), ctor, f["name"]))
    s += ";\n".join(rows) + "\n|}.\n"
    s += "Definition copts_to_assoc (o : copts) : list (string * cval) := [\n"
    ctor = {"bool": "CBool", "num": "CNum", "optstring": "COptStr", "lst": "CListStyleType", "string": "CStr"}
    s += ";\n".join("  (%s, %s (o_%s o))" % (coq_string_lit(fld), ctor[ty], fld) for _, fld, _, ty, _ in copts) + "\n].\n\n"

    # process plan
    s += "(* ---- main(): preconditions, highlighter, formatter, sink *)\n"
    s += "Definition inplace_precheck (c : cli) : option Z :=\n  if c_inplace c then\n    match c_files c with\n"
    s += "    | Some fs => if negb (Nat.eqb (List.length fs) %d) then Some %s else None\n    | None => Some %s\n    end\n  else None.\n" % (inplace_nfiles, inplace_exit_a, inplace_exit_b)
    s += "Definition read_error_exit : Z := %s.\nDefinition config_parse_error_exit : Z := EXIT_PARSE_CONFIG.\nDefinition success_exit : Z := EXIT_SUCCESS.\n" % read_exit
    s += "Definition is_empty_bytes (b : bytes) : bool := match b with [] => true | _ => false end.\n"
    s += "Definition highlighter_of (c : cli) : option bytes :=\n  let theme := c_syntax_highlighting c in\n  if is_empty_bytes theme || bytes_eqb theme highlight_none_word then None else Some theme.\n"
    s += "Inductive renderer := R_html | R_xml | R_commonmark.\n"
    s += "Definition renderer_name (r : renderer) : string := match r with R_html => \"html\" | R_xml => \"xml\" | R_commonmark => \"commonmark\" end.\n"
    s += "Definition formatter_of (c : cli) : renderer :=\n  if c_inplace c then %s else\n  match c_format c with %s end.\n" % (
        rnames[inplace_renderer], " | ".join("F_%s => %s" % (v, rnames[r]) for v, r, _ in fmt_arms))
    s += "(* the syntect adapter is installed only in these arms *)\n"
    s += "Definition installs_highlighter (c : cli) : bool :=\n  if c_inplace c then false else\n  match c_format c with %s end.\n" % (
        " | ".join("F_%s => %s" % (v, "true" if h else "false") for v, _, h in fmt_arms))
    s += "Inductive sink := S_stdout | S_file (path : bytes) | S_first_input.\n"
    s += "Definition sink_of (c : cli) : sink :=\n  match c_output c with Some f => S_file f | None => if c_inplace c then S_first_input else S_stdout end.\n"
    return {"Cli.v": s}
