#!/usr/bin/env python3
"""seedreport.py — markdown table of every seeded change under /verif/seeded from its meta.json (what the change is,
whether we confirmed it, which check caught it in the last run of tools/seedtest.py and how)."""
import glob, json, os, re, sys

ROOT = os.path.dirname(os.path.dirname(os.path.abspath(__file__)))


def short(s, n):
    s = re.sub(r"\s+", " ", str(s or "")).strip().replace("|", "\\|")
    return s if len(s) <= n else s[: n - 1].rsplit(" ", 1)[0] + " …"


def main():
    rows = []
    for d in sorted(glob.glob(os.path.join(ROOT, "seeded", "*-m*"))):
        name = os.path.basename(d)
        try:
            m = json.load(open(os.path.join(d, "meta.json")))
        except Exception:
            continue
        log = m.get("our_confirmation_and_detection", {})
        det = log.get("detection", {})
        how = []
        for c, v in det.items():
            if v.get("exit") == 1 and v.get("violations", 0) > 0:
                kinds = [k for k, _ in v.get("replays", [])]
                wi = v.get("with_failing_input", 0)
                what = next((w for k, w in v.get("replays", []) if k == "failing-input"), None) or next((w for k, w in v.get("replays", [])), "")
                how.append(f"{c}: " + ("failing input — " if wi else "broken tie/proof only — ") + short(what, 90))
        files = m.get("files_touched")
        if isinstance(files, list):
            files = ", ".join(os.path.basename(f) for f in files)
        status = "obsolete (code rewritten by a fix)" if m.get("obsolete") else ("confirmed" if log.get("confirmed") else "NOT confirmed")
        rows.append((name, short(files, 40), short(m.get("what_it_breaks"), 150), status, "; ".join(how) if how else ("—" if m.get("obsolete") else "NOT DETECTED")))
    print("| seeded | file | change | confirmed | caught by (last run) |")
    print("|---|---|---|---|---|")
    for r in rows:
        print("| " + " | ".join(r) + " |")
    n = len(rows)
    nd = sum(1 for r in rows if not r[4].startswith(("NOT DETECTED", "—")))
    ni = sum(1 for r in rows if "failing input" in r[4])
    print(f"\n{n} seeded changes; {nd} caught by the property's own quick check, {ni} of them with a concrete failing input.")


if __name__ == "__main__":
    main()
