(* Props/C02.v — Safe-by-default HTML.
   Only pinned statements: each theorem is closed by `exact <lemma>` and followed by
   Print Assumptions.  `events` is the loop-faithful model of the HTML renderer (Model/Html.v:
   one enter and one exit clause per node kind, the children loop, the anchorizer state);
   `safe_ev`, `vocab`, `dangerous_spec`, `s7`, `s4`, `url_shape`, `raw_lits` are Spec/HtmlSpec.v;
   `dangerous_url` is generated from scanners.re on every run (Gen/Scanners.v).
   `slug` is the Unicode slug stage of the Anchorizer, external to the model: its output is written
   raw into id/href of heading anchors, hence the hypothesis that it is made of inert bytes. *)
From Coq Require Import List NArith Bool.
From V Require Import Base.Bytes Base.Res Gen.Scanners Model.Ast Model.Html Spec.EscapeSpec
  Spec.HtmlSpec Proofs.HtmlSafe.
Import ListNotations.
From Coq Require Import Strings.String.
Local Open Scope string_scope.
Local Open Scope list_scope.

(* the scanner model decides exactly the scheme list of the property text *)
Theorem C02_dangerous_model_spec : forall u, dangerous_url u = dangerous_spec u.
Proof. exact dangerous_model_spec. Qed.
Print Assumptions C02_dangerous_model_spec.

(* main theorem: with unsafe off, for every tree without Raw nodes, with inert EscapedTag payloads
   (S7) and heading levels 1..6 (S4), every event the renderer produces is safe: tags and attribute
   names in the vocabulary, attribute values escaped / href-escaped / inert constants, URL
   attributes empty, a fragment, or a non-dangerous href-escaped URL, text escaped, raw HTML only as
   the placeholder or escaped text. *)
Theorem C02_events : forall slug o t evs,
  o_unsafe o = false -> s7 t = true -> s4 t = true ->
  (forall h, forallb inert_byte (slug h) = true) ->
  events slug o t = Ok evs -> forallb safe_ev evs = true.
Proof. exact c02_events. Qed.
Print Assumptions C02_events.

(* S4 cannot be dropped: a Heading of level 7 is written as the element h7, which is not in the
   vocabulary (the parser never builds one; a tree built through the API can) *)
Theorem C02_events_without_s4_refuted :
  ~ (forall slug o t evs,
       o_unsafe o = false -> s7 t = true ->
       (forall h, forallb inert_byte (slug h) = true) ->
       events slug o t = Ok evs -> forallb safe_ev evs = true).
Proof. exact c02_events_without_s4_refuted. Qed.
Print Assumptions C02_events_without_s4_refuted.

(* raw bytes: every RawHtml event carries inert bytes ... *)
Theorem C02_no_raw_html : forall slug o t evs,
  o_unsafe o = false -> s7 t = true -> s4 t = true ->
  (forall h, forallb inert_byte (slug h) = true) ->
  events slug o t = Ok evs ->
  forall b, In (RawHtml b) evs -> forallb inert_byte b = true.
Proof. exact c02_no_raw_html. Qed.
Print Assumptions C02_no_raw_html.

(* ... and, with no shape hypothesis at all, is the literal of an EscapedTag or Raw node of the
   tree: no HtmlBlock / HtmlInline literal, title, URL, info string, ... is ever passed through *)
Theorem C02_raw_origin : forall slug o t evs,
  o_unsafe o = false -> events slug o t = Ok evs ->
  forall b, In (RawHtml b) evs -> In b (raw_lits t).
Proof. exact c02_raw_origin. Qed.
Print Assumptions C02_raw_origin.

(* the only trace of an HTML block / inline HTML: the placeholder, or escaped text under `escape` *)
Theorem C02_html_block : forall slug o c bt l sp ch st,
  o_unsafe o = false ->
  enter slug o c (Node (HtmlBlock bt l) sp ch) st =
    Ok ((if o_escape o then [Cr; Txt l; Cr] else [Cr; Cmt; Cr]), st, MHtml) /\
  exit_ o c (Node (HtmlBlock bt l) sp ch) st = Ok ([], st).
Proof. exact c02_html_block. Qed.
Print Assumptions C02_html_block.

Theorem C02_html_inline : forall slug o c l sp ch st,
  o_unsafe o = false ->
  enter slug o c (Node (HtmlInline l) sp ch) st =
    Ok ((if o_escape o then [Txt l] else [Cmt]), st, MHtml) /\
  exit_ o c (Node (HtmlInline l) sp ch) st = Ok ([], st).
Proof. exact c02_html_inline. Qed.
Print Assumptions C02_html_inline.

(* every href / src value is empty, one href-escaped URL that is not dangerous, or a fragment *)
Theorem C02_urls : forall slug o t evs,
  o_unsafe o = false -> s7 t = true -> s4 t = true ->
  (forall h, forallb inert_byte (slug h) = true) ->
  events slug o t = Ok evs ->
  forall e n v, In e evs -> In (Attr n v) (attrs_of e) -> is_url_attr n = true -> url_shape v.
Proof. exact c02_urls. Qed.
Print Assumptions C02_urls.

(* decimals written by the renderer (list start, footnote indices, anchor suffixes) are inert *)
Theorem C02_dec_inert : forall n, forallb inert_byte (dec n) = true.
Proof. exact dec_inert. Qed.
Print Assumptions C02_dec_inert.

(* non-vacuity: a tree with hostile payloads in many positions meets the hypotheses, renders, and
   its events are safe; the serialised bytes also pass the byte-level lexer check *)
Definition ex_sp : sourcepos := mkSp 1 1 1 1.
Definition ex_hostile : bytes := B """<>&".
Definition ex_opts : opts :=
  mkOpts true (Some ex_hostile) true true true true true true true 0 false false 0 true true true
         true true true 0 true true.
Definition ex_slug (h : bytes) : bytes := filter inert_byte h.
Definition ex_list : node_list := mkList Ordered 0 0 3 Period 0 true true.
Definition ex_leaf (v : node_value) : node := Node v ex_sp [].
Definition ex_par (ch : list node) : node := Node Paragraph ex_sp ch.
Definition ex_tree : node := Node Document ex_sp
  [ ex_par [Node (Link (B "javascript:alert(1)") ex_hostile) ex_sp [ex_leaf (Text ex_hostile)];
            Node (Link (B "http://x/""<") ex_hostile) ex_sp [ex_leaf (Text ex_hostile)];
            Node (Image (B "data:text/html,x") ex_hostile) ex_sp
                 [ex_leaf (Text ex_hostile); Node Emph ex_sp [ex_leaf (Code 1 ex_hostile)];
                  ex_leaf (HtmlInline (B "<script>"))];
            Node (Image (B "data:image/png;base64,") []) ex_sp [];
            Node (WikiLink (B "VBScript:x")) ex_sp [ex_leaf (Text ex_hostile)];
            ex_leaf (HtmlInline (B "<script>")); ex_leaf (Code 1 ex_hostile);
            ex_leaf SoftBreak; ex_leaf LineBreak;
            Node Strong ex_sp [Node Strong ex_sp []]; Node Escaped ex_sp [ex_leaf (Text ex_hostile)];
            ex_leaf (EscapedTag (B "~~")); ex_leaf (Math true true ex_hostile);
            ex_leaf (FootnoteReference ex_hostile 2 1); ex_leaf (FootnoteReference ex_hostile 1 1)];
    Node (Heading 2 false) ex_sp [ex_leaf (Text ex_hostile)];
    Node (Heading 6 true) ex_sp [ex_leaf (Text ex_hostile)];
    ex_leaf (CodeBlock (mkCB true 96 3 0 (B "a""b<c d""e f") (B "<x>")));
    ex_leaf (CodeBlock (mkCB true 96 3 0 (B "math") (B "<x>")));
    ex_leaf (HtmlBlock 1 (B "<script>alert(1)</script>"));
    Node (NList ex_list) ex_sp
         [Node (Item ex_list) ex_sp [ex_par [ex_leaf (Text ex_hostile)]];
          Node (TaskItem (Some ex_hostile)) ex_sp []];
    Node (Table (mkTable 2 2 2 [ALeft; ANone])) ex_sp
         [Node (TableRow true) ex_sp [Node TableCell ex_sp [ex_leaf (Text ex_hostile)]; Node TableCell ex_sp []];
          Node (TableRow false) ex_sp [Node TableCell ex_sp []; Node TableCell ex_sp []]];
    Node (Alert (mkAlert Note (Some ex_hostile) false 0 0)) ex_sp [];
    Node (FootnoteDefinition ex_hostile 3) ex_sp [ex_par [ex_leaf (Text ex_hostile)]] ].

Example C02_nonvacuous :
  o_unsafe ex_opts = false /\ s7 ex_tree = true /\ s4 ex_tree = true /\
  (forall h, forallb inert_byte (ex_slug h) = true) /\
  exists evs, events ex_slug ex_opts ex_tree = Ok evs /\
              forallb safe_ev evs = true /\
              Nat.ltb 100 (List.length evs) = true /\
              In Cmt evs /\ raws evs = [B "~~"; B "~~"] /\
              html_safe_check (ser evs) = 0%N.
Proof.
  split; [reflexivity|]. split; [vm_compute; reflexivity|]. split; [vm_compute; reflexivity|].
  split; [exact filter_inert_slug|].
  destruct (events ex_slug ex_opts ex_tree) as [evs| |] eqn:E; [|vm_compute in E; discriminate E ..].
  exists evs. split; [reflexivity|].
  assert (Some evs = match events ex_slug ex_opts ex_tree with Ok e => Some e | _ => None end) as X
    by (rewrite E; reflexivity).
  vm_compute in X. injection X as ->.
  split; [vm_compute; reflexivity|]. split; [vm_compute; reflexivity|].
  split; [cbn [In]; tauto|]. split; vm_compute; reflexivity.
Qed.
