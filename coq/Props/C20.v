(* Props/C20.v — Front matter is carried verbatim and never leaks into the document: the splitter.
   Only pinned statements.  `split_off_front_matter` is the model of Model/FrontMatter.v (index and
   slice-check faithful transcription of src/strings.rs, shape-checked by translator item
   `frontmatter`); `spec_split` is the line-based specification of Spec/FrontMatterSpec.v. *)
From Coq Require Import List NArith Bool.
From V Require Import Base.Bytes Base.Res Model.FrontMatter Spec.FrontMatterSpec Spec.EscapeSpec
  Proofs.FrontMatterProofs Proofs.FrontMatterSpecProofs.
Import ListNotations.
From Coq Require Import Strings.String.
Local Open Scope string_scope.
Local Open Scope list_scope.

(* what is returned is a split of the (BOM-stripped) input; the front matter is
   d, line end, body, LF, d, and at most two line ends (the closer's and one blank line) *)
Theorem C20_split_sound : forall s d fm rest,
  split_off_front_matter s d = Ok (Some (fm, rest)) ->
  strip_bom s = fm ++ rest /\
  exists e0 body tail, (e0 = fm_lf \/ e0 = fm_crlf) /\ blank_tail tail = true /\
    fm = d ++ e0 ++ body ++ fm_lf ++ d ++ tail.
Proof. exact split_sound. Qed.
Print Assumptions C20_split_sound.

(* no panic: on valid UTF-8 (every Rust str) none of the five checked slices fails; the result is the
   check-free reading `core` of the same code *)
Theorem C20_split_total : forall s d, utf8_valid s = true -> utf8_valid d = true ->
  split_off_front_matter s d = Ok (core (trim_start_match s fm_bom) d).
Proof. exact split_total. Qed.
Print Assumptions C20_split_total.

(* the slice checks of the model are real: off UTF-8 it does panic (so totality is not vacuous) *)
Theorem C20_split_checks_not_vacuous : exists s d site, split_off_front_matter s d = Panic site.
Proof. exact split_panics_off_boundary. Qed.
Print Assumptions C20_split_checks_not_vacuous.

(* FULL STATEMENT (false): the splitter is the line-based spec.  Kept visible. *)
Definition C20_split_vs_spec_full_statement : Prop := split_vs_spec_full_statement.

Theorem C20_split_vs_spec_refuted : ~ C20_split_vs_spec_full_statement.
Proof. exact split_vs_spec_refuted. Qed.
Print Assumptions C20_split_vs_spec_refuted.

(* F9: a later CR LF closer beats an earlier LF closer: the front matter swallows body text *)
Theorem C20_later_crlf_closer_refuted :
  exists fm rest fm' rest',
    split_off_front_matter w_f9 w_d = Ok (Some (fm, rest)) /\
    spec_split w_f9 w_d = Some (fm', rest') /\
    List.length fm' < List.length fm /\ fm_class w_f9 w_d = 3%N.
Proof. exact split_vs_spec_later_crlf_refuted. Qed.
Print Assumptions C20_later_crlf_closer_refuted.

(* F10: a body line that starts with the delimiter hides a proper closer at end of input *)
Theorem C20_prefix_line_hides_eof_closer_refuted :
  split_off_front_matter w_f10 w_d = Ok None /\
  spec_split w_f10 w_d = Some (w_f10, []) /\ fm_class w_f10 w_d = 4%N.
Proof. exact split_vs_spec_prefix_line_refuted. Qed.
Print Assumptions C20_prefix_line_hides_eof_closer_refuted.

(* F11: CR-only line endings are not recognised *)
Theorem C20_cr_only_refuted :
  split_off_front_matter w_f11 w_d = Ok None /\
  (exists fm rest, spec_split w_f11 w_d = Some (fm, rest)) /\ fm_class w_f11 w_d = 1%N.
Proof. exact split_vs_spec_cr_only_refuted. Qed.
Print Assumptions C20_cr_only_refuted.

(* F25: an empty front matter (closer right after the opener) is not recognised *)
Theorem C20_empty_front_matter_refuted :
  split_off_front_matter w_f25 w_d = Ok None /\
  (exists fm rest, spec_split w_f25 w_d = Some (fm, rest)) /\ fm_class w_f25 w_d = 2%N.
Proof. exact split_vs_spec_empty_fm_refuted. Qed.
Print Assumptions C20_empty_front_matter_refuted.

(* PARTIAL (the weakest precondition found): for every well-formed delimiter (non-empty, no CR / LF) and
   every input outside the four decidable classes of fm_class — no bare CR inside the front matter the
   spec finds, front matter not empty, no later CR LF delimiter line after an LF closer, no
   delimiter-prefixed body line before an unterminated closer — the splitter returns exactly the
   line-based spec.  Each excluded class is necessary (the four refutations above). *)
Theorem C20_split_spec_partial : forall s d r, delim_ok d = true -> fm_class s d = 0%N ->
  split_off_front_matter s d = Ok r -> r = spec_split s d.
Proof. exact split_spec_partial. Qed.
Print Assumptions C20_split_spec_partial.

Theorem C20_split_spec_partial_utf8 : forall s d, utf8_valid s = true -> utf8_valid d = true ->
  delim_ok d = true -> fm_class s d = 0%N ->
  split_off_front_matter s d = Ok (spec_split s d).
Proof. exact split_spec_partial_utf8. Qed.
Print Assumptions C20_split_spec_partial_utf8.

(* the documentation's reading (front matter ends at the end of the closing line) and the accepted one
   differ by exactly one blank line moved from the rest to the front matter *)
Theorem C20_spec_absorb_only_moves_blank : forall s d fm rest,
  spec_split_doc s d = Some (fm, rest) ->
  exists bl, (bl = [] \/ bl = [x0a] \/ bl = [x0d; x0a] \/ bl = [x0d]) /\
    exists rest', rest = bl ++ rest' /\ spec_split s d = Some (fm ++ bl, rest').
Proof. exact spec_absorb_only_moves_blank. Qed.
Print Assumptions C20_spec_absorb_only_moves_blank.

(* non-vacuity of the partial theorem: a CRLF document with a blank line after the closer *)
Example C20_partial_example :
  let s := B "---" ++ [x0d; x0a] ++ B "title: x" ++ [x0d; x0a] ++ B "---" ++ [x0d; x0a; x0d; x0a] ++ B "text" in
  delim_ok w_d = true /\ fm_class s w_d = 0%N /\
  exists fm, split_off_front_matter s w_d = Ok (Some (fm, B "text")) /\ spec_split s w_d = Some (fm, B "text").
Proof. split; [reflexivity|]. split; [vm_compute; reflexivity|]. eexists. split; vm_compute; reflexivity. Qed.
