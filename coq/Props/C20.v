(* Props/C20.v — Front matter is carried verbatim and never leaks into the document: the splitter.
   Only pinned statements.  `split_off_front_matter` is the model of Model/FrontMatter.v (index and
   slice-check faithful transcription of src/strings.rs after the repair `fix: front matter is cut by lines`,
   shape-checked by translator item `frontmatter`); `spec_split` is the line-based specification of
   Spec/FrontMatterSpec.v.  Before the repair the full statement was refuted with four witnesses
   (known_findings F9, F10, F11, C20-a); it is now the theorem C20_split_vs_spec, and the four witnesses are
   Examples of the specified behaviour. *)
From Coq Require Import List NArith Bool.
From V Require Import Base.Bytes Base.Res Model.FrontMatter Spec.FrontMatterSpec Spec.EscapeSpec
  Proofs.FrontMatterSpecProofs Proofs.FrontMatterProofs.
Import ListNotations.
From Coq Require Import Strings.String.
Local Open Scope string_scope.
Local Open Scope list_scope.

(* FULL STATEMENT: on every Rust str (valid UTF-8) and for every well-formed delimiter (non-empty, no CR / LF)
   the splitter returns normally and IS the line-based specification: opening line exactly the delimiter and
   terminated, closed by the FIRST later line that is exactly the delimiter (LF, CR LF or bare CR line endings;
   the closing line may be the unterminated last line; the front matter may be empty), one following blank line
   kept with the front matter. *)
Definition C20_split_vs_spec_full_statement : Prop := split_vs_spec_full_statement.

Theorem C20_split_vs_spec : forall s d, utf8_valid s = true -> delim_ok d = true ->
  split_off_front_matter s d = Ok (spec_split s d).
Proof. exact split_vs_spec. Qed.
Print Assumptions C20_split_vs_spec.

(* the same without the UTF-8 hypothesis: on arbitrary bytes whatever is returned is what the specification
   says, and the only other outcome is a Panic of a char-boundary check on an input that is not UTF-8 *)
Theorem C20_split_ok_is_spec : forall s d r, delim_ok d = true ->
  split_off_front_matter s d = Ok r -> r = spec_split s d.
Proof. exact split_ok_is_spec. Qed.
Print Assumptions C20_split_ok_is_spec.

(* no panic, no fuel exhaustion: on valid UTF-8 (every Rust str) none of the checked slices fails and the
   loop bound S (len s) is never reached *)
Theorem C20_split_total : forall s d, delim_ok d = true ->
  split_off_front_matter s d = Ok (spec_split s d) \/
  (utf8_valid s = false /\ exists site, split_off_front_matter s d = Panic site).
Proof. exact split_ok_or_not_utf8. Qed.
Print Assumptions C20_split_total.

(* the Panic sites that remain in the model are the str slices `&s[start..end]` of line_at and the final
   `&s[..end]` / `&s[end..]` (char-boundary checks; `bytes[end]` is guarded by `end < bytes.len()` and
   `bytes[end..]` by `end <= len`).  They are real checks: off UTF-8 the model does panic, so totality above is
   not vacuous; on a str they cannot fail because every offset the walk slices at is 0, the length, or the
   position after an LF / CR byte (C20_split_total). *)
Theorem C20_split_checks_not_vacuous :
  exists s d site, delim_ok d = true /\ split_off_front_matter s d = Panic site.
Proof. exact split_panics_off_boundary. Qed.
Print Assumptions C20_split_checks_not_vacuous.

(* what is returned is a split of the (BOM-stripped) input; the front matter is the delimiter line (terminated),
   body lines none of which is the delimiter, the delimiter line, and at most one blank line *)
Theorem C20_split_sound : forall s d fm rest, delim_ok d = true ->
  split_off_front_matter s d = Ok (Some (fm, rest)) ->
  strip_bom s = fm ++ rest /\
  exists e0 body ec bl,
    terminated e0 = true /\ (forall l, In l body -> bytes_eqb (fst l) d = false) /\
    (bl = [] \/ exists e, terminated e = true /\ bl = [([], e)]) /\
    (terminated ec = false -> bl = []) /\
    fm = join ((d, e0) :: body ++ (d, ec) :: bl).
Proof. exact split_sound. Qed.
Print Assumptions C20_split_sound.

(* the feed prologue advances line_number by count_line_endings(front matter): that is the number of
   terminated lines of the front matter in the specification's reading (LF, CR LF, bare CR) *)
Theorem C20_line_count : forall fm,
  N.of_nat (count_line_endings fm) = spec_line_count fm.
Proof. exact line_count_spec. Qed.
Print Assumptions C20_line_count.

(* the documentation's reading (front matter ends at the end of the closing line) and the accepted one
   differ by exactly one blank line moved from the rest to the front matter *)
Theorem C20_spec_absorb_only_moves_blank : forall s d fm rest,
  spec_split_doc s d = Some (fm, rest) ->
  exists bl, (bl = [] \/ bl = [x0a] \/ bl = [x0d; x0a] \/ bl = [x0d]) /\
    exists rest', rest = bl ++ rest' /\ spec_split s d = Some (fm ++ bl, rest').
Proof. exact spec_absorb_only_moves_blank. Qed.
Print Assumptions C20_spec_absorb_only_moves_blank.

(* ---- the four witnesses that refuted the full statement before the repair now split as specified *)

(* F9 (class 3, later_crlf_closer): the FIRST closing line wins; the later CR LF delimiter line is body text
   of the document, not of the front matter *)
Example C20_later_crlf_closer_fixed :
  split_off_front_matter w_f9 w_d = Ok (spec_split w_f9 w_d) /\
  spec_split w_f9 w_d = Some (B "---" ++ [x0a] ++ B "a" ++ [x0a] ++ B "---" ++ [x0a],
                              B "body" ++ [x0a] ++ B "---" ++ [x0d; x0a] ++ B "more") /\
  fm_class w_f9 w_d = 3%N.
Proof. repeat split; vm_compute; reflexivity. Qed.

(* F10 (class 4, prefix_line_hides_eof_closer): a body line that starts with the delimiter does not hide the
   closing line at end of input *)
Example C20_prefix_line_hides_eof_closer_fixed :
  split_off_front_matter w_f10 w_d = Ok (spec_split w_f10 w_d) /\
  spec_split w_f10 w_d = Some (w_f10, []) /\ fm_class w_f10 w_d = 4%N.
Proof. repeat split; vm_compute; reflexivity. Qed.

(* F11 (class 1, lone_cr): CR-only line endings are line endings *)
Example C20_cr_only_fixed :
  split_off_front_matter w_f11 w_d = Ok (spec_split w_f11 w_d) /\
  spec_split w_f11 w_d = Some (B "---" ++ [x0d] ++ B "fm" ++ [x0d] ++ B "---" ++ [x0d], B "text" ++ [x0d]) /\
  count_line_endings (B "---" ++ [x0d] ++ B "fm" ++ [x0d] ++ B "---" ++ [x0d]) = 3 /\
  fm_class w_f11 w_d = 1%N.
Proof. repeat split; vm_compute; reflexivity. Qed.

(* C20-a / F25 (class 2, empty_front_matter): the closing line may follow the opening line directly *)
Example C20_empty_front_matter_fixed :
  split_off_front_matter w_f25 w_d = Ok (spec_split w_f25 w_d) /\
  spec_split w_f25 w_d = Some (B "---" ++ [x0a] ++ B "---" ++ [x0a], B "text" ++ [x0a]) /\
  fm_class w_f25 w_d = 2%N.
Proof. repeat split; vm_compute; reflexivity. Qed.

(* non-vacuity: a CRLF document with a blank line after the closer *)
Example C20_example :
  let s := B "---" ++ [x0d; x0a] ++ B "title: x" ++ [x0d; x0a] ++ B "---" ++ [x0d; x0a; x0d; x0a] ++ B "text" in
  utf8_valid s = true /\ delim_ok w_d = true /\
  exists fm, split_off_front_matter s w_d = Ok (Some (fm, B "text")) /\ spec_split s w_d = Some (fm, B "text").
Proof. split; [reflexivity|]. split; [reflexivity|]. eexists. split; vm_compute; reflexivity. Qed.
